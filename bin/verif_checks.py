"""Per-check plans: lanes (name, scale[, extra]), evidence level, non-triviality rule, floors."""

NATIVE = [("dbg", 1.0), ("rel", 1.0)]

CHECKS = {
    "C01": dict(
        claim='Held on N observed executions: every catalogue type expression x boundary-biased values is encoded and decoded by the real library (debug and release builds) and compared with the original at the Val level. Sampling of an unbounded space, not a proof; the evidence reports types, cases and distinct encodings.',
        note="Trusted: the harness's Model impls (from_val / to_val) for the built-in types and Val equality; the value generator's reach is what bounds the claim.",
        technique='runtime round-trip monitor over a generated type catalogue, value-level oracle',
        level="exploration",
        quick=NATIVE,
        thorough=NATIVE + [("fresh", 1.0)],
        rule="for every type expression of the catalogue (every leaf codec; every constructor x arity x rotating leaf; "
             "seeded compositions to depth 4; thorough adds fresh compositions from VERIF_SEED) boundary-biased values are "
             "generated at the Val level, encoded by the library and decoded again; a case is non-trivial and distinct when "
             "the library produced an encoding and the pair (type, encoding bytes) was not seen before in its shard "
             "(shards partition the types, so the per-shard sets are disjoint)",
        floors={"any": {"roundtrip_ok": 1000, "types": 100}},
        assumptions=["Val equality (floats by bit pattern, sets/maps order-free) is the equality the property means",
                     "TZ=UTC is pinned for DateTime<Local>"],
    ),
    "C02": dict(
        claim="Translation validation by execution: each generated declaration is compiled with the real derive macro and run side by side with the reference model's schema interpreter on the same values (bytes and decoded values must agree). Held on the declarations and values reported in the evidence.",
        note="Trusted: the refmodel crate (encoder, strict decoder, canonicalisation) and the declaration generator's schema emission; declarations outside the generator's space (see DESIGN §9) are not covered.",
        technique='differential execution of macro-derived codecs against a schema interpreter',
        level="translation_validation",
        quick=NATIVE,
        thorough=NATIVE + [("fresh", 1.0)],
        rule="every generated #[derive(BinaryCodec)] declaration (programs) is executed on generated values and compared with "
             "the schema interpreter of the reference model: decode(encode(v)) == v[transient := default], the emitted bytes "
             "are what the interpreter prescribes for that declaration, and the interpreter decodes them to the same value; "
             "distinct = distinct (declaration, encoding) pairs",
        floors={"any": {"programs": 200, "disagreements_checked": 5000}},
        assumptions=["the reference model (refmodel crate) is trusted; it is cross-checked against the evolution table in C03 and pinned by the Scala golden file in C04"],
    ),
    "C03": dict(
        claim="Held on N observed executions: for every generated legal history, every (writer, reader) version pair, four embeddings (struct, enum variant, between siblings of a v0 record, inside a chunk of an evolved record) and generated values, the library's result equals the documented outcome computed from the history alone (value, or the specific error variant and field name) and the consumption monitor finds nothing left unread where the data is framed. Two independent oracles (history table, strict reference decoder with the reader's schema) must agree with each other on every case, otherwise the run is inconclusive.",
        note="Trusted: refmodel::evo::History::expected (the documented-outcome table) and the strict reference decoder; legal histories only (DESIGN §4.4); the embedded + stored-version-0 + removal combination is excluded (DESIGN §9-1).",
        technique="history-level oracle + strict reference decoder over generated evolution histories x version pairs",
        level="exploration",
        quick=NATIVE,
        thorough=NATIVE + [("fresh", 1.0)],
        rule="histories are drawn by a seeded generator of legal evolution steps (FieldAdded / FieldMadeOptional / FieldRemoved / FieldMadeTransient, length 1-5); every prefix becomes a compiled Rust type in four embeddings; all (w, r) pairs x generated values of version w are written by w and read by r; non-trivial = w != r, distinct by (reader type, bytes); every outcome class must be observed at least 10 times",
        floors={"any": {"outcome:as_written": 10, "outcome:wrapped": 10, "outcome:unwrapped": 10, "outcome:none_is_error": 10,
                        "outcome:default_taken": 10, "outcome:removed_reads_none": 10, "outcome:removed_is_error": 10,
                        "outcome:newer_data_skipped": 10, "outcome:dropped_field_ignored": 10, "histories": 30}},
        assumptions=["legal histories only: chunk-0 field order never changes, a field is removed / made transient only while it is the last one serialized in its chunk, names are never reused"],
    ),
    "C04": dict(
        claim='Held on N observed executions in both directions: library bytes == format (via strict reference decode + byte-identical re-encode), and reference encodings in every legal form choice decode to the value they denote.',
        note='Trusted: the reference model as transcription of the desert format (Appendix A of DESIGN.md); time/uuid/big-number layouts frozen as found.',
        technique='byte-exact differential monitor against an independent reference encoder/decoder',
        level="exploration",
        quick=NATIVE,
        thorough=NATIVE + [("fresh", 1.0)],
        rule="direction 1: bytes written by the library for generated values of every catalogue type and every derived "
             "declaration are decoded by the strict reference decoder, must denote the value, contain no repeated set/map "
             "element, and re-encode byte-identically from the reference's parse; direction 2: the reference encoder writes "
             "the value choosing known- or unknown-length form independently at every sequence position and the library must "
             "decode it to the value; distinct = distinct (type, bytes) pairs",
        floors={"any": {"emitted_conforms": 5000, "reference_encoding_decodes": 5000,
                        "reference_encodings_with_unknown_length_form": 500}},
        assumptions=["chrono / uuid / big-number layouts are frozen as found on the pinned tree (no external document)"],
    ),
    "C05": dict(
        claim="Fault enumeration over hostile inputs: every byte string of length <= 2 for every catalogue type and derived declaration (length <= 3 for the systematic catalogue in the thorough tier), structure-aware tamperings of valid encodings, random bytes with a varint dictionary, and hostile read sequences on the three BinaryInput implementations, each executed under the panic monitor, the allocation monitor (largest single request <= 64 KiB + 256 x len, total <= 256 KiB + 1024 x len), the step monitor (sequence items <= len + 65536, hook) and with crash attribution through breadcrumbs; debug (overflow checks) and release builds; thorough adds AddressSanitizer / MemorySanitizer lanes, a Miri shard and a nesting-depth probe. Held on the executions counted in the evidence, with the known findings listed.",
        note="Trusted: the counting allocator and the verif-hooks step counter; budgets are constants justified in DESIGN 6.2. Known findings D09 (zero-width elements) and D16 (unbounded recursion depth) are reported, not suppressed silently.",
        technique="panic / allocation / step monitors + sanitizer lanes over exhaustive short inputs and structure-aware mutation",
        level="fault_enumeration",
        quick=NATIVE,
        thorough=NATIVE + [("rel", 1.0, {"exhaustive3": "1"})],
        rule="faults = hostile inputs: (a) all byte strings of length 0..2 per type, (b) valid encodings tampered at a field the reference decoder's annotated parse identifies (chunk size, count, length, tag, position byte, version, constructor index, string id), chunk surgery, splices, bit flips, overwrites with varint edge encodings, truncation, (c) random bytes, (d) primitive read sequences with counts {0, 1, remaining, remaining+1, usize::MAX, usize::MAX - pos + k}; every case counts as non-trivial (any outcome other than Ok/Err within budget is a violation); distinct by (type, input)",
        floors={"any": {"types_with_exhaustive_short_inputs": 1000, "outcome:Err": 100000, "outcome:Ok": 10000, "hostile_op_sequences": 10000}},
        assumptions=["each non-zero-width element consumes at least one input byte, so len + 65536 sequence items bounds every legitimate decode"],
    ),
    "C06": dict(
        claim="Fault enumeration over framing tamperings: for every tampered or raw input that the real decoder accepts, the strict reference decoder (explicit windows, exactly the leniencies of DESIGN 4.5) must accept it with the same value. Held on the accepted inputs counted per tamper class in the evidence; an input rejected by the library is never an alarm.",
        note="Trusted: the strict reference decoder and its list of leniencies (DESIGN 4.5); inputs the model cannot judge are counted as model_gap and never as verdicts.",
        technique="differential acceptance monitor: real Ok(v) implies strict-reference Ok(v) over structure-aware tampering",
        level="fault_enumeration",
        quick=NATIVE,
        thorough=NATIVE,
        rule="same hostile inputs as C05 (exhaustive <= 2 bytes, annotated-parse tampering, random); a case is non-trivial when the library accepted the input (only those can refute the property); distinct by (type, input); floor: accepted-and-agreed inputs in every tamper class",
        floors={"any": {"accepted_and_agreed": 1000, "accepted_and_agreed:rewrite_chunk_size": 100, "accepted_and_agreed:rewrite_count": 100,
                        "accepted_and_agreed:rewrite_length": 100, "accepted_and_agreed:rewrite_tag": 100, "accepted_and_agreed:rewrite_position": 20,
                        "accepted_and_agreed:rewrite_version": 100, "accepted_and_agreed:rewrite_ctor": 100, "accepted_and_agreed:chunk_surgery": 100,
                        "accepted_and_agreed:splice": 100, "accepted_and_agreed:bitflip": 100, "accepted_and_agreed:overwrite": 100}},
    ),
    "C07": dict(
        claim='Held on N observed executions: the consumption monitor drains the context after decoding enc(a)++s and finds exactly s; multi-value streams read back in order.',
        note='Trusted: DeserializationContext::read_u8 as the drain primitive (a public BinaryInput).',
        technique='consumption monitor (drain the context after decode) over suffix workloads',
        level="exploration",
        quick=NATIVE,
        thorough=NATIVE + [("fresh", 1.0)],
        rule="enc(a) ++ s is decoded through an explicit context which is then drained: the value must be a and exactly "
             "len(s) bytes must remain; s is empty, one hostile byte, random bytes, a copy of the encoding or another valid "
             "encoding; in addition 2-5 heterogeneous values are written into one stream and read back one after another; "
             "non-trivial = non-empty suffix or multi-value stream, distinct by (type, buffer)",
        floors={"any": {"exact_consumption": 5000, "streams_read_back": 100}},
    ),
    "C08": dict(
        claim='Fault enumeration over crash points: every strict prefix of every generated encoding (all cut points up to 4 KiB) is fed to the decoder; each must be rejected with Err.',
        note='Covers same-definition reads; cross-version truncation is exercised by C03. Encodings come from the generators of C01/C02.',
        technique='exhaustive truncation-point enumeration with panic monitor',
        level="fault_enumeration",
        quick=NATIVE,
        thorough=NATIVE + [("fresh", 1.0)],
        rule="fault = truncation at a cut point: for every generated encoding of at most 4 KiB every strict prefix is decoded "
             "(longer ones: first and last 256 cuts plus 256 random); each must give Err — Ok or a panic is a violation; "
             "distinct = distinct (type, prefix) pairs",
        floors={"any": {"rejected": 100000}},
    ),
}

NOT_APPLICABLE = {}
