"""Per-check plans: lanes (name, scale[, extra]), evidence level, non-triviality rule, floors."""

NATIVE = [("dbg", 1.0), ("rel", 1.0)]

CHECKS = {
    "C01": dict(
        claim='Held on N observed executions: every catalogue type expression x boundary-biased values is encoded and decoded by the real library (debug and release builds) and compared with the original at the Val level. Sampling of an unbounded space, not a proof; the evidence reports types, cases and distinct encodings. Extra lanes run the types containing DateTime<Local> with TZ set to daylight-saving zones (POSIX rules), with wall-clock times next to transitions; values whose lengths need four / five varint bytes are included.',
        note="Trusted: the harness's Model impls (from_val / to_val) for the built-in types and Val equality; the value generator's reach is what bounds the claim.",
        technique='runtime round-trip monitor over a generated type catalogue, value-level oracle',
        level="exploration",
        quick=NATIVE + [("dbg", 2.0, {"only": "local", "tz": "CET-1CEST,M3.5.0,M10.5.0/3"}), ("rel", 2.0, {"only": "local", "tz": "EST5EDT,M3.2.0,M11.1.0"})],
        thorough=NATIVE + [("fresh", 1.0, {"only": "fresh"}), ("msan", 0.05), ("dbg", 5.0, {"only": "local", "tz": "CET-1CEST,M3.5.0,M10.5.0/3"}),
                           ("rel", 5.0, {"only": "local", "tz": "EST5EDT,M3.2.0,M11.1.0"}), ("rel", 5.0, {"only": "local", "tz": "<+1030>-10:30<+11>-11,M10.1.0,M4.1.0"})],
        rule="for every type expression of the catalogue (every leaf codec; every constructor x arity x rotating leaf; "
             "seeded compositions to depth 4; thorough adds fresh compositions from VERIF_SEED) boundary-biased values are "
             "generated at the Val level, encoded by the library and decoded again; a case is non-trivial and distinct when "
             "the library produced an encoding and the pair (type, encoding bytes) was not seen before in its shard "
             "(shards partition the types, so the per-shard sets are disjoint)",
        floors={"any": {"roundtrip_ok": 1000, "types": 100, "local_time_cases_under_dst_zone": 1000, "big_values_ok": 50}},
        assumptions=["Val equality (floats by bit pattern, sets/maps order-free) is the equality the property means",
                     "TZ=UTC is pinned for all lanes except the local-time lanes, which set TZ to a daylight-saving zone by POSIX rule and skip wall-clock times that zone cannot represent unambiguously"],
    ),
    "C02": dict(
        claim="Translation validation by execution: each generated declaration is compiled with the real derive macro and run side by side with the reference model's schema interpreter on the same values (bytes and decoded values must agree). Declarations carry raw-identifier fields, every accepted spelling of Option, inert attributes (doc comments, lints, disabled cfg_attr) before, between and after the helper attributes, derived types in every value position; a hand-written chain of twelve records that all carry evolution headers is run on trees of up to 4 095 records. Held on the declarations and values reported in the evidence.",
        note="Trusted: the refmodel crate (encoder, strict decoder, canonicalisation) and the declaration generator's schema emission; declarations outside the generator's space (see DESIGN §9) are not covered.",
        technique='differential execution of macro-derived codecs against a schema interpreter',
        level="translation_validation",
        quick=NATIVE,
        thorough=NATIVE + [("fresh", 1.0, {"only": "fresh"})],
        rule="every generated #[derive(BinaryCodec)] declaration (programs) is executed on generated values and compared with "
             "the schema interpreter of the reference model: decode(encode(v)) == v[transient := default], the emitted bytes "
             "are what the interpreter prescribes for that declaration, and the interpreter decodes them to the same value; "
             "distinct = distinct (declaration, encoding) pairs",
        floors={"any": {"deep_recursive_values_ok": 6, "names:made_optional_in_both_incarnations:across_the_last_step": 1, "deep_nesting_ok": 2, "programs": 200, "disagreements_checked": 5000}},
        assumptions=["the reference model (refmodel crate) is trusted; it is cross-checked against the evolution table in C03 and pinned by the Scala golden file in C04"],
    ),
    "C03": dict(
        claim="Held on N observed executions: for every generated legal history, every (writer, reader) version pair, four embeddings (struct, enum variant, between siblings of a v0 record, inside a chunk of an evolved record) and generated values, the library's result equals the documented outcome computed from the history alone (histories in which the name of a removed field comes back as a new field included: the table goes by field identity, not by name) (value, or the specific error variant and field name) and the consumption monitor finds nothing left unread where the data is framed. Two independent oracles (history table, strict reference decoder with the reader's schema) must agree with each other on every case, otherwise the run is inconclusive.",
        note="Trusted: refmodel::evo::History::expected (the documented-outcome table) and the strict reference decoder; legal histories only (DESIGN §4.4); the embedded + stored-version-0 + removal combination is excluded (DESIGN §9-1). Known finding D18 (header names inside a chunk the reader skips) is reported, not suppressed silently.",
        technique="history-level oracle + strict reference decoder over generated evolution histories x version pairs",
        level="exploration",
        quick=NATIVE,
        thorough=NATIVE + [("fresh", 1.0, {"only": "fresh"})],
        rule="histories are drawn by a seeded generator of legal evolution steps (FieldAdded / FieldMadeOptional / FieldRemoved / FieldMadeTransient, length 1-5); every prefix becomes a compiled Rust type in four embeddings; all (w, r) pairs x generated values of version w are written by w and read by r; non-trivial = w != r, distinct by (reader type, bytes); every outcome class must be observed at least 10 times; plus four fixed scenarios in which an older reader skips the chunk of an added field that holds a derived record (with / without names in its header, sibling before / after)",
        floors={"any": {"position_limit:made_optional_in_chunk_127:as_documented": 1, "position_limit:made_optional_at_position_128:as_documented": 1, "skipped_chunk:nested_record_without_header_names_then_sibling:as_documented": 1, "outcome:as_written": 10, "outcome:wrapped": 10, "outcome:unwrapped": 10, "outcome:none_is_error": 10,
                        "outcome:default_taken": 10, "outcome:removed_reads_none": 10, "outcome:removed_is_error": 10,
                        "outcome:newer_data_skipped": 10, "outcome:dropped_field_ignored": 10, "outcome:name_of_an_earlier_field_reused": 10, "histories": 30}},
        assumptions=["legal histories only: chunk-0 field order never changes, a field is removed / made transient only while it is the last one serialized in its chunk, names are never reused"],
    ),
    "C04": dict(
        claim='Held on N observed executions in both directions: library bytes == format (via strict reference decode + byte-identical re-encode), and reference encodings in every legal form choice decode to the value they denote — form choices being the unknown-length sequence form at any sequence position and, at any tuple, map-entry or enum position, the layout of a writer one to three evolution steps ahead (version byte n, header, chunks the reader skips). Anchors: the Scala golden file (242 540 bytes) is decoded identically by library and reference, and the reference re-encodes it byte for byte once the writer\'s form choices are replayed.',
        note='Trusted: the reference model as transcription of the desert format (Appendix A of DESIGN.md); time/uuid/big-number layouts frozen as found.',
        technique='byte-exact differential monitor against an independent reference encoder/decoder',
        level="exploration",
        quick=NATIVE,
        thorough=NATIVE + [("fresh", 1.0, {"only": "fresh"})],
        rule="direction 1: bytes written by the library for generated values of every catalogue type and every derived "
             "declaration are decoded by the strict reference decoder, must denote the value, contain no repeated set/map "
             "element, and re-encode byte-identically from the reference's parse; direction 2: the reference encoder writes "
             "the value choosing known- or unknown-length form independently at every sequence position and the library must "
             "decode it to the value; distinct = distinct (type, bytes) pairs",
        floors={"any": {"emitted_conforms": 5000, "reference_encoding_decodes": 5000,
                        "reference_encodings_with_unknown_length_form": 500,
                        "golden_file_decoded_identically_and_reencoded_byte_exact_by_reference": 1, "big_values_ok": 50,
                        "reference_encodings_with_newer_tuples_decode": 5000}},
        assumptions=["chrono / uuid / big-number layouts are frozen as found on the pinned tree (no external document)"],
    ),
    "C05": dict(
        claim="Fault enumeration over hostile inputs: every byte string of length <= 2 for every catalogue type and derived declaration (length <= 3 for the systematic catalogue in the thorough tier), structure-aware tamperings of valid encodings, random bytes with a varint dictionary, and hostile read sequences on the three BinaryInput implementations, each executed under the panic monitor, the allocation monitor (largest single request <= 64 KiB + 256 x len, total <= 256 KiB + 1024 x len), the step monitor (sequence items <= len + 65536, hook) and with crash attribution through breadcrumbs; debug (overflow checks) and release builds; lenient client readers (a field codec that survives a failing nested decode) on tampered data; a lane under a process time zone with daylight saving, fed wall-clock times the zone skips or repeats; every error returned is rendered (Display, Debug) inside the monitored call; nesting-depth probes and own-process probes (one input per process, for inputs that may end in an allocation failure); thorough adds AddressSanitizer / MemorySanitizer / valgrind-memcheck lanes and all 3-byte inputs. Held on the executions counted in the evidence, with the known findings listed.",
        note="Trusted: the counting allocator and the verif-hooks step counter; budgets are constants justified in DESIGN 6.2. Known findings D09 (zero-width elements), D16 (unbounded recursion depth), D26 (a citation costs a copy of the string) and D27 (hash containers keyed by big decimals) are reported, not suppressed silently.",
        technique="panic / allocation / step monitors + sanitizer lanes over exhaustive short inputs and structure-aware mutation",
        level="fault_enumeration",
        quick=NATIVE + [("dbg", 1.0, {"only": "local", "tz": "CET-1CEST,M3.5.0,M10.5.0/3"})],
        thorough=NATIVE + [("rel", 1.0, {"exhaustive3": "1"}), ("asan", 0.1), ("msan", 0.1), ("memcheck", 0.02),
                           ("dbg", 3.0, {"only": "local", "tz": "CET-1CEST,M3.5.0,M10.5.0/3"}), ("rel", 3.0, {"only": "local", "tz": "<+1030>-10:30<+11>-11,M10.1.0,M4.1.0"})],
        custom="c05_depth_probe",
        rule="faults = hostile inputs: (a) all byte strings of length 0..2 per type, (b) valid encodings tampered at a field the reference decoder's annotated parse identifies (chunk size, count, length, tag, position byte, version, constructor index, string id), chunk surgery, splices, bit flips, overwrites with varint edge encodings, truncation, (c) random bytes, (d) primitive read sequences with counts {0, 1, remaining, remaining+1, usize::MAX, usize::MAX - pos + k}; (e) tampered encodings read by client types whose hand-written codec survives a failing nested decode (Tolerant<T> fields in evolved records and constructors, same / older / newer version of the field): the library regains control after its own error; every case counts as non-trivial (any outcome other than Ok/Err within budget is a violation); distinct by (type, input)",
        floors={"any": {"slice_input_cursor_behind_the_data": 1000, "types_with_exhaustive_short_inputs": 1000, "outcome:Err": 100000, "outcome:Ok": 10000, "hostile_op_sequences": 10000, "tolerant:nested_failure_survived": 1000,
                       "local_times_the_zone_cannot_place_rejected": 20}},
        assumptions=["each non-zero-width element consumes at least one input byte, so len + 65536 sequence items bounds every legitimate decode"],
    ),
    "C06": dict(
        claim="Fault enumeration over framing tamperings: for every tampered or raw input that the real decoder accepts, the strict reference decoder (explicit windows, exactly the leniencies of DESIGN 4.5) must accept it with the same value. Held on the accepted inputs counted per tamper class in the evidence; an input rejected by the library is never an alarm. Also run: declarations that remove and re-add a field name (hostile-only subjects), and lenient client readers (a hand-written field codec that survives a failing nested decode) on tampered data of the same / an older / a newer writer, where the fields lying in other chunks than the lenient one must be exactly what the format assigns (the lenient position itself is never compared).",
        note="Trusted: the strict reference decoder and its list of leniencies (DESIGN 4.5); inputs the model cannot judge are counted as model_gap and never as verdicts.",
        technique="differential acceptance monitor: real Ok(v) implies strict-reference Ok(v) over structure-aware tampering",
        level="fault_enumeration",
        quick=NATIVE,
        thorough=NATIVE + [("fresh", 0.3, {"only": "fresh"})],
        rule="same hostile inputs as C05 (exhaustive <= 2 bytes, annotated-parse tampering, random); a case is non-trivial when the library accepted the input (only those can refute the property); distinct by (type, input); floor: accepted-and-agreed inputs in every tamper class",
        floors={"any": {"tolerant:other_chunks_as_the_format_assigns": 1000, "accepted_and_agreed": 1000, "accepted_and_agreed:rewrite_chunk_size": 100, "accepted_and_agreed:rewrite_count": 100,
                        "accepted_and_agreed:rewrite_length": 100, "accepted_and_agreed:rewrite_tag": 100, "accepted_and_agreed:rewrite_position": 20,
                        "accepted_and_agreed:rewrite_version": 100, "accepted_and_agreed:rewrite_ctor": 100, "accepted_and_agreed:chunk_surgery": 100,
                        "accepted_and_agreed:splice": 100, "accepted_and_agreed:bitflip": 100, "accepted_and_agreed:overwrite": 100}},
    ),
    "C07": dict(
        claim='Held on N observed executions: the consumption monitor drains the context after decoding enc(a)++s and finds exactly s; multi-value streams read back in order; the same for reference encodings as a foreign writer may produce them (unknown-length sequence forms; tuples, map entries and enums written by a newer writer with chunks this reader must skip).',
        note='Trusted: DeserializationContext::read_u8 as the drain primitive (a public BinaryInput).',
        technique='consumption monitor (drain the context after decode) over suffix workloads',
        level="exploration",
        quick=NATIVE,
        thorough=NATIVE + [("fresh", 1.0, {"only": "fresh"})],
        rule="enc(a) ++ s is decoded through an explicit context which is then drained: the value must be a and exactly "
             "len(s) bytes must remain; s is empty, one hostile byte, random bytes, a copy of the encoding or another valid "
             "encoding; in addition 2-5 heterogeneous values are written into one stream and read back one after another; "
             "non-trivial = non-empty suffix or multi-value stream, distinct by (type, buffer)",
        floors={"any": {"exact_consumption": 5000, "streams_read_back": 100, "big_values_ok": 50, "cross_version_exact_consumption": 1000,
                        "newer_tuples_exact_consumption": 5000}},
    ),
    "C08": dict(
        claim='Fault enumeration over crash points: every strict prefix of every generated encoding (all cut points up to 4 KiB) is fed to the decoder; each must be rejected with Err. Also: prefixes of reference encodings in the unknown-length sequence form, prefixes of other versions\' data under every version of the same history (stored version >= 1), cut points of multi-megabyte values, and prefixes of foreign-writer encodings whose tuples / enums carry chunks of a newer writer (a cut inside a chunk that is only skipped must be noticed).',
        note='Covers same-definition reads; cross-version truncation is exercised by C03. Encodings come from the generators of C01/C02.',
        technique='exhaustive truncation-point enumeration with panic monitor',
        level="fault_enumeration",
        quick=NATIVE,
        thorough=NATIVE + [("fresh", 1.0, {"only": "fresh"})],
        rule="fault = truncation at a cut point: for every generated encoding of at most 4 KiB every strict prefix is decoded "
             "(longer ones: first and last 256 cuts plus 256 random); each must give Err — Ok or a panic is a violation; "
             "distinct = distinct (type, prefix) pairs",
        floors={"any": {"prefixes_of_skipping_codecs_rejected": 40, "rejected": 100000, "rejected_unknown_length_form": 10000, "cross_version_rejected": 10000, "big_values_ok": 50, "rejected_newer_tuples": 10000}},
    ),
    "C09": dict(
        claim="Held on N observed executions: flat streams of deduplicated / plain string writes (all patterns up to length 4, 5 in the thorough tier, over a 7-string alphabet; random longer ones) are written by the library and compared byte for byte with a reference string table (first occurrence = plain string, repeat = zig-zag varint of minus its id, ids from 1 in first-occurrence order), read back, and probed with ids that were never introduced; plus every subject type containing deduplicated strings (tuples, sequences, v0 and evolved records with and without names in the header). One stream with 70 000 distinct ids (140 000 in the thorough tier) exercises two- and three-byte back-references.",
        note="Trusted: the reference string table (20 lines, harness/dv/src/streams.rs) and the reference encoder's stream-order numbering of header names. Cross-definition deduplication is outside the property (DESIGN 9-2).",
        technique="byte-exact reference string table monitor over exhaustive short write patterns",
        level="exploration",
        quick=NATIVE, thorough=NATIVE,
        rule="streams = sequences of (dedup|plain, string) writes; exhaustive over all sequences up to the stated length, random beyond; non-trivial = contains at least one repeat of a deduplicated string (a back-reference is written); distinct by write sequence / by (type, bytes) for record subjects",
        floors={"any": {"streams_with_strings_and_tracked_objects_ok": 1, "back_references_checked": 10000, "no_repeat_streams_identical_to_plain": 1000, "unknown_ids_rejected": 10000, "records_with_names_in_header_ok": 500, "streams:many_ids": 2}},
    ),
    "C10": dict(
        claim="Held on N observed executions: every rooted graph with at most 3 nodes (4 in the thorough tier) and out-degree at most 2, and random graphs up to 200 nodes, is encoded with a harness-owned codec that offers node addresses as identities through the public API; bytes must equal the graph model (new marker + body on first offer, 1-based first-encounter number afterwards, pre-order), the decoded graph must be isomorphic with identical sharing (pointer equality), and streams citing an object number never introduced must fail with InvalidRefId. The Miri lane runs the same on small graphs under an interpreter that makes vtable addresses non-unique. The same codec is also exercised as a field of version-0 and evolved records (two graph fields, the second citing the first), and on wide graphs with 16 500 objects.",
        note="Trusted: the harness codec (graph.rs, safe Rust, public API only) and the DFS graph model. Native lanes cannot expose identity-by-fat-pointer; only the Miri lane can.",
        technique="graph-model monitor (byte-exact + isomorphism + pointer equality) over exhaustive small graphs; Miri lane",
        level="exploration",
        quick=NATIVE + [("miri", 0.008, {"shards": 16, "max_nodes": 2})],
        thorough=NATIVE + [("asan", 1.0), ("memcheck", 0.2), ("miri", 0.005, {"shards": 16, "max_nodes": 3})],
        rule="graphs enumerated exhaustively up to the node bound (all ordered edge lists of length 0..2 per node, all nodes reachable), random beyond; non-trivial = some node is offered more than once (sharing, cycle or self-loop); distinct by adjacency structure",
        floors={"any": {"zero_sized_objects_tracked_like_any_other": 1, "same_address_objects_of_different_types_kept_apart": 1, "graphs_rebuilt_isomorphic": 500, "unknown_object_numbers_rejected": 500, "embedded_graph_rebuilt": 500, "embedded_graph_bytes_ok": 500}},
    ),
    "C11": dict(
        claim="Thorough tier: exhaustive — all 2^32 bit patterns, each as u32 and as i32, are written to Vec<u8>, BytesMut and SizeCalculator, compared with the reference LEB128 / zig-zag formula, checked for minimal length and continuation bits, and read back through SliceInput, OwnedInput and DeserializationContext (release build, 16 shards). Quick tier: every value within 4096 of each width boundary plus a 2^20-point random sample, debug and release. Every value is additionally written and read as chunk-0 / chunk-1 / chunk-2 field of an evolved record (chunk buffers on the way out, input regions with non-zero start on the way back).",
        note="Trusted: refmodel::enc::vu_bytes / zigzag (10 lines).",
        technique="exhaustive enumeration of the 32-bit value space against a reference formula",
        level="exploration",
        quick=NATIVE,
        thorough=[("dbg", 1.0), ("rel", 1.0, {"exhaustive": "1"})],
        rule="every (kind, bit pattern) pair is one case covering bytes, length, continuation bits and the 3x3 sink/source matrix; all cases are non-trivial; distinct by (kind, value); the thorough tier enumerates the whole space (exhaustive: true)",
        floors={"any": {"growing_buffers_ok": 10, "values_checked": 100000, "values_checked_inside_regions": 100000}},
        coverage_extra={"exhaustive": lambda counters, tier: counters.get("exhaustive_bit_patterns", 0) == 2**32},
    ),
    "C12": dict(
        claim="Held on N observed executions: for 24 element types and lengths 0..8, 16, 17, 32, 40, 63, 64, 127, 128 (8191/8192 thorough), element lists are written by every source container (Vec, slice, array, LinkedList, HashSet, BTreeSet, an iterator without exact size hint = real unknown-length writer, the reference unknown-length encoder) and read by every target container (Vec, array of matching length, LinkedList, HashSet, BTreeSet); pair lists against HashMap / BTreeMap; Vec<u8>, &[u8], [u8; N], Bytes among themselves. Ordered targets must reproduce the order written, sets the set of elements; every cell is decoded through an explicit context with sentinel bytes behind the sequence and must consume exactly the sequence. Element types include those whose size in memory says nothing about their encoding: zero-sized but encoded (((),), [u64; 0], (PhantomData,)) and pointer-sized but empty on the wire (Box<()>, Rc<()>, Arc<PhantomData>).",
        note="Trusted: to_val of the containers; for hash containers the order written is taken from iterating the same instance.",
        technique="full source x target container matrix executed on generated element lists",
        level="exploration",
        quick=NATIVE, thorough=NATIVE + [("msan", 0.03)],
        rule="a case = (element type, source container, target container, element list); non-trivial = source and target differ; distinct by (element type, source, target, bytes)",
        floors={"any": {"pair:Vec->LinkedList": 1000, "cells_ok": 20000, "pair:reference_unknown_length->Vec": 100, "pair:unsized_iterator->array": 20, "pair:HashSet->Vec": 100, "pair:Vec->HashSet": 100, "pair:pair_list->HashMap": 100, "pair:[u8;N]->Bytes": 50}},
    ),
    "C13": dict(
        claim="Held on N observed executions: for every generated enum the leading bytes are version 0 + the variant's position in index order (declaration order, or name order under sorted_constructors); indices the definition does not know give InvalidConstructorId, indices of transient constructors give DeserializingTransientConstructor with the right names; for every generated family (base enum + extensions whose new variants come after the old ones in index order, incl. sorted ones declared at random positions) old data keeps its meaning under the extension and new constructors are rejected by the old definition. Two enums with 140 constructors (declaration order and sorted) exercise two-byte constructor indices.",
        note="Trusted: EnumSchema::wire_index (stable sort by name) and the family generator.",
        technique="cross-definition differential execution over generated enum families + spliced constructor indices",
        level="exploration",
        quick=NATIVE, thorough=NATIVE + [("fresh", 1.0, {"only": "fresh"})],
        rule="cases: (enum, value) leading-index checks, (base, extension, value) cross reads both ways, spliced indices {n, n+1, 127, 128, 2^14, u32::MAX} and transient indices; non-trivial = all; distinct by (reader type, bytes)",
        floors={"any": {"old_data_keeps_its_meaning": 2000, "old_data_keeps_its_meaning_sorted": 300, "new_constructor_rejected_by_old_definition": 1000, "unknown_index_rejected": 1000, "transient_index_rejected": 30, "leading_index_checked_for_sorted_constructors": 500, "two_byte_constructor_index_checked": 10}},
    ),
    "C14": dict(
        claim="Held on N observed executions: for every generated declaration with transient fields (first / middle / last position, in structs and both variant kinds) two values differing only in transient fields encode identically and decode to the declared default (defaults are drawn to differ from the values); every transient constructor refuses to encode with SerializingTransientConstructor naming type and constructor; every version of every generated history that follows a FieldMadeTransient step encodes successfully, including fields made optional or added earlier.",
        note="Trusted: refmodel::scramble_transients; for types with hash containers byte equality is judged through the strict reference decoder (iteration order differs per instance).",
        technique="metamorphic monitor: transient-only variation must not change the bytes",
        level="exploration",
        quick=NATIVE, thorough=NATIVE + [("fresh", 1.0, {"only": "fresh"})],
        rule="non-trivial = the two values really differ (some transient field was changed); distinct by (type, bytes)",
        floors={"any": {"transient_values_do_not_influence_bytes": 5000, "transient_fields_decoded_to_default": 5000, "transient_constructor_refused": 500, "made_transient_versions_encodable": 500, "made_transient_after_earlier_steps_encodable": 100, "transient_default_for_older_data": 500}},
    ),
    "C15": dict(
        claim="Held on N observed executions: every generated value of every subject type is written to Vec<u8>, BytesMut, serialize_to_bytes, serialize_to_byte_vec and a user-defined recording output — identical bytes — and SizeCalculator reports exactly their number; 80 000 (2 000 000 thorough) ordinary and hostile primitive read sequences run on SliceInput, OwnedInput and DeserializationContext must agree result by result (value, error class, panic) and report end of input at the same point; 200 000 sequences of primitive writes (variable-length integers on and around every power of two in both signs, fixed-width values, byte runs, compressed blocks) go to Vec<u8>, BytesMut and a user output, directly, behind a SerializationContext and into a pushed chunk buffer — identical bytes — and to SizeCalculator directly and behind a context — the exact count. Totals beyond 2^32 bytes (up to 12 GiB, every single length small) are pushed through a size-calculating context and a counting user output.",
        note="Trusted: the recording output (10 lines).",
        technique="differential monitor across sinks and across input implementations",
        level="exploration",
        quick=NATIVE, thorough=NATIVE + [("fresh", 1.0, {"only": "fresh"})],
        rule="cases: (type, value) across 5 sinks + size calculator; (buffer, read sequence) across 3 inputs; distinct by (type, bytes) / (buffer, ops)",
        floors={"any": {"entry_points_with_exactly_one_pass": 5, "totals_beyond_2_pow_32_exact": 7, "all_sinks_agree_and_size_exact": 10000, "input_sequences_agree": 10000, "big_values_ok": 50, "write_sequences_agree_on_every_sink": 10000}},
    ),
    "C16": dict(
        claim="Fault enumeration on compressed frames: contents (zero, random, periodic, text, mixed) x sizes 0 .. 1 MiB (16 MiB thorough) x levels 0-9 x both sinks x all three sources with trailing data: frame == varint(len d) ++ varint(len z) ++ z with z inflating to d (checked with an independent inflate), following bytes intact; every truncation of frames <= 4 KiB is an error; every single-bit flip of small frames, random flips of large ones and header rewrites give Ok or Err, no panic, and no single allocation request above max(64 KiB, 2 x bytes actually produced) (allocation monitor). Frames are also written by a user codec through SerializationContext (straight to the sink, into a chunk buffer, through a size-calculating context) and read back from inside input regions; every bit of the first four bytes of each deflate stream is flipped.",
        note="Trusted: flate2's DeflateDecoder as independent inflate (same crate the library uses, called directly); the counting allocator.",
        technique="round-trip + framing monitor with allocation monitor over truncation / bit-flip / header-rewrite faults",
        level="fault_enumeration",
        quick=NATIVE, thorough=NATIVE + [("asan", 0.3)],
        rule="faults: truncation at every offset, bit flip at every bit (small frames), header rewrites to {0, -1, +1, x2, 2^31, 2^32-1}; non-trivial = all; distinct by frame bytes",
        floors={"any": {"compressed_lengths_at_width_boundaries_ok": 9, "blocks_into_a_compressing_sink_ok": 100, "frames_round_trip": 300, "truncations_rejected": 5000, "corrupted_ok:bitflip": 1000, "corrupted_err:bitflip": 1000, "frames_identical_through_contexts_and_size_exact": 300}},
    ),
    "C17": dict(
        claim="Held on N observed executions: all 1 112 064 Unicode scalar values are encoded (BMP: 2 bytes big-endian; others: UnsupportedCharacter with that character); zero-sized sequences, slices and exact-size iterators of length i32::MAX+1 .. usize::MAX give LengthTooLarge (4 GiB / 2 GiB byte and string buffers in the thorough tier); a declaration referencing an unknown field gives UnknownFieldReferenceInEvolutionStep through every sink; a declaration with the maximum of 255 metadata steps round-trips; value-domain extremes of the time and big-number types; and generated values of every subject type (astral characters allowed) give Ok or exactly the documented error predicted by the reference encoder. A panic or an undocumented variant is a violation.",
        note="Trusted: the reference encoder's prediction of which documented error applies. Known finding D15 (DateTime<FixedOffset> beyond the date range) is reported.",
        technique="panic monitor + error-variant oracle over exhaustive chars and boundary values",
        level="exploration",
        quick=NATIVE + [("dbg", 0.02, {"tz": "JST-9"}), ("rel", 0.02, {"tz": "EST5EDT,M3.2.0,M11.1.0"})],
        thorough=NATIVE + [("fresh", 1.0, {"only": "fresh"}), ("dbg", 0.05, {"tz": "JST-9"}), ("rel", 0.05, {"tz": "EST5EDT,M3.2.0,M11.1.0"})],
        rule="chars: exhaustive (every scalar value is a distinct case); others: distinct by (type, value); non-trivial = all",
        floors={"any": {"unicode_scalars_checked": 1112064, "documented_error:LengthTooLarge": 12, "documented_error:UnknownFieldReferenceInEvolutionStep": 5, "encoded": 20000}},
        coverage_extra={"exhaustive_chars": True},
    ),
    "C18": dict(
        claim="Held on the schedules observed: in every worker process 16 threads meet at a barrier and make the first encode and decode of a type simultaneously, for every subject type in turn (each derived type owns fresh lazy metadata statics; the evidence reports how many storms really had overlapping first calls), then 16 threads hammer shared values of mixed types, then random call histories (failing calls in between, encode-twice) run in one thread; every result is compared with the state-free reference model; the metadata-construction counter (hook) must stand still after the storms and equal the count of a single-threaded process making the same calls. ThreadSanitizer lane (thorough) and a Miri schedule probe (16 / 64 seeds) look for races and double initialisation.",
        note="Trusted: the reference model as the 'fresh process' result; the hook counter. Schedules are whatever the OS / TSan / Miri produced: exploration, not enumeration.",
        technique="first-use contention storms with reference oracle + init-counter hook; ThreadSanitizer; Miri many-seeds",
        level="exploration",
        quick=[("dbg", 1.0), ("rel", 1.0), ("dbg", 1.0, {"mode": "baseline"}), ("rel", 1.0, {"mode": "baseline"})],
        thorough=[("dbg", 1.0), ("rel", 1.0), ("dbg", 1.0, {"mode": "baseline"}), ("rel", 1.0, {"mode": "baseline"}), ("tsan", 0.2), ("tsan", 0.2, {"mode": "baseline"})],
        custom="c18_miri_probe",
        rule="a case = one call (encode + decode of a generated value) compared with the reference; distinct_nontrivial counts first-use storms (one per type and process: the contended initialisation of that type's lazy statics) plus Miri schedule seeds; floor: at least 200 storms with two or more first calls in flight together",
        floors={"any": {"calls_during_thread_teardown_ok": 1, "defaults_evaluated_for_each_call": 1, "storms_with_overlapping_first_calls": 200, "call_histories": 1000, "steady_state_calls": 100000, "miri_schedule_seeds_ok": 8}},
        post=lambda counters: [
            (f"C18|metadata_built_differs|{k.split(':', 2)[2]}",
             dict(check="C18", mode="init_counter", process=k, under_contention=v, single_threaded=counters.get(k.replace(":storm:", ":baseline:"))))
            for k, v in sorted(counters.items())
            if k.startswith("metadata_built:storm:") and counters.get(k.replace(":storm:", ":baseline:")) not in (None, v)
        ],
    ),
    "C19": dict(
        claim="Part 1: every witness of the lifetime-escape catalogue (#![forbid(unsafe_code)], public API only) is compiled; the ones the compiler accepts are run under Miri, and an undefined-behaviour report refutes the property (known finding D13 for the store_ref family); witnesses that must be rejected are checked to stay rejected; negative controls must run clean. Part 2: the decode paths implemented with unsafe code or repaired from it (byte vectors, Bytes, big integers, fixed-size arrays) are fed valid, wrong-count, truncated and tampered data under AddressSanitizer (quick), MemorySanitizer, Miri and valgrind memcheck (thorough); every decoded value is fully traversed and compared with the strict reference decoder.",
        note="'All safe client programs' is sampled by a hand-written catalogue (harness/witnesses); sanitizers see only executed paths, each lane is preceded by a canary that must fire.",
        technique="compile-and-interpret witness catalogue (rustc + Miri) + sanitizer lanes on unsafe decode paths",
        level="other",
        explanation="witness catalogue: compiler verdict per witness, Miri verdict for every witness that compiles; sanitizer lanes: hostile and valid inputs through the unsafe decode paths with full traversal of results; evidence lists the verdict table and per-lane executions",
        quick=[("dbg", 1.0), ("asan", 1.0)],
        thorough=[("dbg", 1.0), ("asan", 1.0), ("msan", 0.3), ("memcheck", 0.1), ("miri", 0.005, {"shards": 16})],
        custom="c19_witnesses",
        rule="part 1: one case per witness; part 2: (type, input) pairs through the unsafe decode paths, plus tampered encodings read by lenient client codecs (a nested decode fails, the client carries on) from allocations of exactly the input length, distinct by (type, input)",
        floors={"any": {"witnesses_rejected_by_the_compiler": 7, "negative_controls_clean": 2, "no_ub_witnesses_clean": 2, "types_with_unsafe_decode_paths": 50, "tolerant:nested_failure_survived": 1000}},
    ),
}

NOT_APPLICABLE = {}
