"""Custom runners (checks whose executions are not plain dv shards): the C19 witness catalogue, the C18 Miri
schedule probe, the C05 nesting-depth probe.  Each returns worker-result records like bin/verif's run_worker."""
import concurrent.futures as cf
import json
import os
import re
import subprocess
import time


def _result(lane, shard, res, log="", wall=0.0):
    base = dict(evaluations=0, distinct=0, counters={}, maxima={}, violations=[], violation_counts={}, samples=[], inconclusive=[])
    base.update(res)
    return dict(lane=lane, shard=shard, rc=0, result=base, crumb="", log=log, wall=wall)


def _viol(res, sig, detail):
    res["violations"].append(dict(signature=sig, detail=detail))
    res["violation_counts"][sig] = res["violation_counts"].get(sig, 0) + 1


# ------------------------------------------------------------------------------------------------- C19 part 1

def c19_witnesses(c):
    """compile every witness (#![forbid(unsafe_code)], public API only); run the ones that compile under Miri"""
    H = c["H"]
    env = c["base_env"]()
    wdir = os.path.join(H, "witnesses")
    expected = json.load(open(os.path.join(wdir, "expected.json")))
    names = sorted(k for k in expected if not k.startswith("_"))
    res = dict(evaluations=0, distinct=0, counters={}, maxima={}, violations=[], violation_counts={}, samples=[], inconclusive=[])
    t0 = time.time()
    table = {}

    # 1. compiler verdicts (sequential: they share one target dir; each is a sub-second incremental build)
    for w in names:
        p = subprocess.run(["cargo", "build", "--offline", "-q", "-p", "witnesses", "--bin", w, "--target-dir", os.path.join(H, "target" + c["RUNTAG"])] + c["repo_args"](),
                           cwd=H, env=env, capture_output=True, text=True)
        codes = sorted(set(re.findall(r"error\[(E\d+)\]", p.stderr)))
        table[w] = dict(compiles=p.returncode == 0, error_codes=codes)
        if p.returncode != 0 and not codes:
            # not a language-level rejection (e.g. the library no longer builds): nothing can be concluded
            res["inconclusive"].append(f"witness {w}: build failed without a compiler error code: {p.stderr[-300:]}")

    # 2. whatever compiles is executed under Miri
    menv = dict(env)
    menv["MIRIFLAGS"] = "-Zmiri-disable-isolation"

    def run_miri(w):
        p = subprocess.run(["cargo", "+nightly", "miri", "run", "-q", "--offline", "-p", "witnesses", "--bin", w,
                            "--target-dir", os.path.join(H, "target-miri" + c["RUNTAG"])] + c["repo_args"](), cwd=H, env=menv, capture_output=True, text=True, timeout=900)
        ub = re.search(r"Undefined Behavior: ([^\n]*)", p.stderr)
        return w, p.returncode, (ub.group(1) if ub else None), p.stdout.strip()[-200:], p.stderr[-600:]

    to_run = [w for w in names if table[w]["compiles"]]
    if to_run:
        # the first one builds the dependencies under Miri; the rest run in parallel
        first = run_miri(to_run[0])
        outs = [first]
        with cf.ThreadPoolExecutor(max_workers=8) as ex:
            outs += list(ex.map(run_miri, to_run[1:]))
        for w, rc, ub, out, err in outs:
            table[w].update(miri_exit=rc, miri_ub=ub, stdout=out)
            if rc != 0 and ub is None:
                table[w]["miri_stderr_tail"] = err

    for w in names:
        exp = expected[w]["expect"]
        t = table[w]
        res["evaluations"] += 1
        res["distinct"] += 1
        src = os.path.join(wdir, "src", "bin", w + ".rs")
        detail = dict(check="C19", mode="witness", witness=w, source=src, expected=exp, observed=t)
        if exp == "reject":
            if not t["compiles"]:
                res["counters"]["witnesses_rejected_by_the_compiler"] = res["counters"].get("witnesses_rejected_by_the_compiler", 0) + 1
            elif t.get("miri_ub"):
                _viol(res, f"C19|witness|{w}|compiles_and_miri_reports_ub", detail)
            else:
                res["inconclusive"].append(f"witness {w} compiles but runs clean under Miri: the catalogue entry is wrong, not the library")
        elif exp == "escape":
            if not t["compiles"]:
                # the hole is closed: nothing to report
                res["counters"]["former_escapes_now_rejected"] = res["counters"].get("former_escapes_now_rejected", 0) + 1
            elif t.get("miri_ub"):
                _viol(res, f"C19|witness|{w}|store_ref_erases_the_borrow|miri_ub", detail)
            else:
                res["inconclusive"].append(f"witness {w} compiles and runs clean under Miri (exit {t.get('miri_exit')})")
        elif exp == "no_ub":
            if t["compiles"] and not t.get("miri_ub"):
                res["counters"]["no_ub_witnesses_clean"] = res["counters"].get("no_ub_witnesses_clean", 0) + 1
            elif t["compiles"] and t.get("miri_ub"):
                _viol(res, f"C19|witness|{w}|safe_program_reaches_undefined_behaviour", detail)
            else:
                res["inconclusive"].append(f"witness {w} (no_ub) does not build: {t}")
        elif exp == "clean":
            if t["compiles"] and t.get("miri_exit") == 0 and not t.get("miri_ub"):
                res["counters"]["negative_controls_clean"] = res["counters"].get("negative_controls_clean", 0) + 1
            elif t["compiles"] and t.get("miri_ub"):
                _viol(res, f"C19|witness|{w}|negative_control_reports_ub", detail)
            else:
                res["inconclusive"].append(f"negative control {w} does not build / run: {t}")
    res["samples"].append(dict(compiler_and_miri_verdicts=table))
    res["counters"]["witnesses"] = len(names)
    c["lane_stats"]["witnesses"] = dict(build_s=0, shards=1, scale=1.0)
    return [_result("witnesses", 0, res, wall=time.time() - t0)]


# ------------------------------------------------------------------------------------------------- C18 Miri probe

def c18_miri_probe(c):
    """a 4-thread x 3-type first-use storm under Miri, one run per schedule seed (race detector + weak memory emulation)"""
    H = c["H"]
    seeds = 64 if c["tier"] == "thorough" else 16
    env = c["base_env"]()
    env["MIRIFLAGS"] = f"-Zmiri-disable-isolation -Zmiri-many-seeds=0..{seeds}"
    t0 = time.time()
    res = dict(evaluations=0, distinct=0, counters={}, maxima={}, violations=[], violation_counts={}, samples=[], inconclusive=[])
    try:
        p = subprocess.run(["cargo", "+nightly", "miri", "run", "-q", "--offline", "-p", "dv", "--no-default-features",
                            "--target-dir", os.path.join(H, "target-miri" + c["RUNTAG"])] + c["repo_args"]() + ["--", "C18probe"], cwd=H, env=env,
                           capture_output=True, text=True, timeout=3000)
    except subprocess.TimeoutExpired:
        res["inconclusive"].append("Miri schedule probe timed out")
        return [_result("miri-probe", 0, res)]
    ok = len(re.findall(r"^C18PROBE ok", p.stdout, re.M))
    bad = re.findall(r"^C18PROBE VIOLATION.*$", p.stdout, re.M)
    ub = re.findall(r"(Undefined Behavior|Data race detected)[^\n]*", p.stderr)
    res["evaluations"] = ok + len(bad)
    res["distinct"] = ok + len(bad)
    res["counters"]["miri_schedule_seeds_run"] = ok + len(bad)
    res["counters"]["miri_schedule_seeds_ok"] = ok
    for b in bad:
        _viol(res, "C18|miri_probe|wrong_result_or_double_init", dict(check="C18", mode="miri_probe", line=b))
    if ub:
        m = re.search(r"(Undefined Behavior|Data race detected)[^\n]*", p.stderr)
        _viol(res, "C18|miri_probe|" + ("data_race" if "race" in m.group(0).lower() else "undefined_behavior"),
              dict(check="C18", mode="miri_probe", report=p.stderr[-2500:]))
    if ok + len(bad) == 0 and not ub:
        res["inconclusive"].append("Miri schedule probe produced no result lines: " + p.stderr[-400:])
    res["samples"].append(dict(miri_many_seeds=f"0..{seeds}", probe="4 threads x first encode+decode of 3 derived types", ok_runs=ok))
    c["lane_stats"]["miri-probe"] = dict(build_s=0, shards=1, scale=1.0, seeds=seeds)
    return [_result("miri-probe", 0, res, wall=time.time() - t0)]


# ------------------------------------------------------------------------------------------------- C05 depth probe

def c05_depth_probe(c):
    """nesting depth: each (recursive type, depth) decoded in its own process on an 8 MiB stack"""
    H = c["H"]
    env = c["base_env"]()
    res = dict(evaluations=0, distinct=0, counters={}, maxima={}, violations=[], violation_counts={}, samples=[], inconclusive=[])
    depths = [100, 1000, 10_000, 100_000] + ([1_000_000] if c["tier"] == "thorough" else [])
    t0 = time.time()
    jobs = [(lane, s, d) for lane in ("dbg", "rel") for s in ("DeepRec", "DeepVec", "DeepEnum") for d in depths]

    def run(job):
        lane, s, d = job
        crumb = os.path.join(c["outdir"], f"depth_{lane}_{s}_{d}.crumb")
        p = subprocess.run([c["lane_binary"](lane), "depthprobe", "--set", f"subject={s}", "--set", f"depth={d}", "--crumb", crumb, "--lane", lane],
                           cwd=H, env=env, capture_output=True, text=True, timeout=600)
        return job, p.returncode, p.stdout.strip()[-300:], p.stderr.strip()[-300:]

    with cf.ThreadPoolExecutor(max_workers=8) as ex:
        outs = list(ex.map(run, jobs))
    survived = {}
    for (lane, s, d), rc, out, err in outs:
        res["evaluations"] += 1
        res["distinct"] += 1
        if rc == 0 and "outcome=Ok" in out:
            survived[(lane, s)] = max(survived.get((lane, s), 0), d)
            res["counters"]["depth_probes_ok"] = res["counters"].get("depth_probes_ok", 0) + 1
        elif "outcome=Err" in out:
            # a depth limit reported as an error is exactly what the property asks for
            res["counters"]["depth_probes_rejected_with_error"] = res["counters"].get("depth_probes_rejected_with_error", 0) + 1
        elif rc in (-6, -11, 134, 139) or "stack overflow" in err:
            _viol(res, f"C05|depth|{s}|crash:stack-overflow",
                  dict(check="C05", mode="depthprobe", subject=s, depth=d, lane=lane, exit=rc, stderr=err,
                       replay_cmd=f"harness/target/debug/dv depthprobe --set subject={s} --set depth={d}"))
        else:
            res["inconclusive"].append(f"depth probe {lane} {s} {d}: exit {rc}: {out} {err}")
    for (lane, s), d in survived.items():
        res["maxima"][f"deepest_nesting_survived:{lane}:{s}"] = d

    # one hostile input per process: inputs that may end in an allocation failure (an abort, which no in-process monitor survives)
    oneshots = [
        ("HashSet<BigDecimal>", "02163165313030303030303030", "set of one decimal 1e100000000"),
        ("HashMap<BigDecimal, u8>", "02002a31653932323333373230333638353437373538303707", "map keyed by 1e9223372036854775807"),
        ("HashMap<BigDecimal, u8>", "02002a31653932323333373230333638353437373538303807", "map keyed by 1e9223372036854775808"),
        ("BTreeSet<BigDecimal>", "02163165313030303030303030", "control: ordered set of the same decimal"),
        ("HashSet<BigDecimal>", "0208312e3565313030", "control: hash set of 1.5e100"),
    ]

    def run1(job):
        lane, (subject, hx, what) = job
        crumb = os.path.join(c["outdir"], f"oneshot_{lane}_{abs(hash((subject, hx))) % 10**8}.crumb")
        p = subprocess.run([c["lane_binary"](lane), "oneshot", "--set", f"subject={subject}", "--set", f"hex={hx}", "--crumb", crumb, "--lane", lane],
                           cwd=H, env=env, capture_output=True, text=True, timeout=600)
        return job, p.returncode, p.stdout.strip()[-400:], p.stderr.strip()[-400:]

    with cf.ThreadPoolExecutor(max_workers=4) as ex:
        outs1 = list(ex.map(run1, [(lane, o) for lane in ("dbg", "rel") for o in oneshots]))
    for (lane, (subject, hx, what)), rc, out, err in outs1:
        res["evaluations"] += 1
        res["distinct"] += 1
        n = len(hx) // 2
        det = dict(check="C05", mode="decode", subject=subject, hex=hx, lane=lane, exit=rc, what=what, stdout=out[-300:], stderr=err[-300:],
                   replay_cmd=f"harness/target/debug/dv oneshot --set 'subject={subject}' --set hex={hx}")
        m = re.search(r"ONESHOT .* outcome=(\S+) largest_single_request=(\d+) total_requested=(\d+)", out)
        if m:
            outcome, single, total = m.group(1), int(m.group(2)), int(m.group(3))
            if outcome.startswith("Panic"):
                _viol(res, f"C05|own_process|{subject}|panic", det)
            elif outcome.startswith("StepBudget"):
                _viol(res, f"C05|own_process|{subject}|steps", det)
            elif single > 64 * 1024 + 256 * n or total > 256 * 1024 + 1024 * n:
                _viol(res, f"C05|own_process|{subject}|alloc", det)
            else:
                res["counters"]["own_process_probes_within_budget"] = res["counters"].get("own_process_probes_within_budget", 0) + 1
        elif "memory allocation of" in err or rc in (-6, 134):
            _viol(res, f"C05|own_process|{subject}|crash:allocation-failure", det)
        else:
            res["inconclusive"].append(f"own-process probe {lane} {subject} {hx}: exit {rc}: {out[-100:]} {err[-100:]}")
    res["samples"].append(dict(depth_probe="[0,v,1]*N ++ [0,v,0] decoded as DeepRec (struct { v: u8, next: Option<Box<DeepRec>> }) on an 8 MiB stack", depths=depths))
    c["lane_stats"]["depth-probe"] = dict(build_s=0, shards=len(jobs), scale=1.0)
    return [_result("depth-probe", 0, res, wall=time.time() - t0)]


CUSTOM = dict(c19_witnesses=c19_witnesses, c18_miri_probe=c18_miri_probe, c05_depth_probe=c05_depth_probe)
