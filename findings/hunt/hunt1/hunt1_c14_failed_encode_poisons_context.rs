// C14 (weak): "Encoding a value of a transient constructor fails with the dedicated error ... rather than
// writing anything meaningful". The error is returned, but when the enum sits in a field of a record that
// has evolution steps, AdtSerializer::write_field (desert_core/src/adt/serializer.rs:66-83) has pushed the
// chunk buffer onto SerializationContext::buffer_stack (:74-75) and returns through `?` at :77 without
// popping it. The public, reusable SerializationContext is left redirecting every later write into that
// orphaned buffer: everything encoded afterwards through the same context silently never reaches the output.
#![allow(dead_code)]
use desert_core::*;
use desert_macro::BinaryCodec;
mod desert {
    pub use desert_core::*;
}

#[derive(Debug, PartialEq, BinaryCodec)]
enum Status {
    Active,
    #[transient]
    Cached,
}

#[derive(Debug, PartialEq, BinaryCodec)]
#[evolution(FieldAdded("status", Status::Active))]
struct Event {
    id: u8,
    status: Status,
}

#[test]
fn context_is_usable_after_a_transient_constructor_error() {
    // a stream of events written through one context; the un-encodable one is skipped by the caller
    let mut context = SerializationContext::new(Vec::new());
    let before = {
        let mut probe = SerializationContext::new(Vec::new());
        Event { id: 2, status: Status::Active }.serialize(&mut probe).unwrap();
        probe.into_output()
    };

    let failed = Event { id: 1, status: Status::Cached }.serialize(&mut context);
    assert!(matches!(failed, Err(Error::SerializingTransientConstructor { .. })));

    Event { id: 2, status: Status::Active }.serialize(&mut context).unwrap();
    let output = context.into_output();
    // the second event must be in the output (after whatever prefix the failed one left behind)
    // actual: output == [1] - only the version byte of the failed event; the second event vanished
    assert!(
        output.ends_with(&before),
        "second event missing from output: {output:?} (expected suffix {before:?})"
    );
}
