// C03: FieldMadeOptional applied to a field that is already an Option (or applied twice).
//
// AdtDeserializer::read_optional_field (desert_core/src/adt/deserializer.rs:138-180) never looks at the
// made-optional steps found in the *stored* header (self.made_optional_at, used only by read_field at :117);
// it only compares the stored version with the reader's own, by-name, single "made optional at" step (:151, :169).
// So a reader whose field type is spelled Option<..> cannot unwrap / wrap the extra layer.
#![allow(dead_code)]
use desert_core::*;
use desert_macro::BinaryCodec;
mod desert {
    pub use desert_core::*;
}

mod v0 {
    use super::*;
    #[derive(Debug, PartialEq, BinaryCodec)]
    pub struct Rec {
        pub a: u8,
        pub x: Option<u8>,
    }
}
mod v1 {
    use super::*;
    #[derive(Debug, PartialEq, BinaryCodec)]
    #[evolution(FieldMadeOptional("x"))]
    pub struct Rec {
        pub a: u8,
        pub x: Option<Option<u8>>,
    }
}

/// new writer, previous reader: Some(Some(5)) must be unwrapped to Some(5)
#[test]
fn optional_field_made_optional_is_unwrapped_by_previous_version() {
    let bytes = serialize_to_byte_vec(&v1::Rec { a: 1, x: Some(Some(5)) }).unwrap();
    let back = deserialize::<v0::Rec>(&bytes).unwrap();
    // actual: Rec { a: 1, x: Some(1) } - the inner Option tag is taken for the value
    assert_eq!(back, v0::Rec { a: 1, x: Some(5) });
}

/// control: the other direction works
#[test]
fn control_optional_field_made_optional_is_wrapped_by_next_version() {
    let bytes = serialize_to_byte_vec(&v0::Rec { a: 1, x: Some(5) }).unwrap();
    assert_eq!(deserialize::<v1::Rec>(&bytes).unwrap(), v1::Rec { a: 1, x: Some(Some(5)) });
}

mod t0 {
    use super::*;
    #[derive(Debug, PartialEq, BinaryCodec)]
    pub struct Rec {
        pub a: u8,
        pub x: u8,
    }
}
mod t1 {
    use super::*;
    #[derive(Debug, PartialEq, BinaryCodec)]
    #[evolution(FieldMadeOptional("x"))]
    pub struct Rec {
        pub a: u8,
        pub x: Option<u8>,
    }
}
mod t2 {
    use super::*;
    #[derive(Debug, PartialEq, BinaryCodec)]
    #[evolution(FieldMadeOptional("x"), FieldMadeOptional("x"))]
    pub struct Rec {
        pub a: u8,
        pub x: Option<Option<u8>>,
    }
}

/// history [MadeOptional(x), MadeOptional(x)]: version 0 data read by version 2
#[test]
fn field_made_optional_twice_v0_read_by_v2() {
    let bytes = serialize_to_byte_vec(&t0::Rec { a: 1, x: 5 }).unwrap();
    // actual: Err(DeserializationFailure("Failed to deserialize Option: invalid tag: 5"))
    let back = deserialize::<t2::Rec>(&bytes);
    assert_eq!(back.unwrap(), t2::Rec { a: 1, x: Some(Some(5)) });
}

/// history [MadeOptional(x), MadeOptional(x)]: version 2 data read by version 1 and by version 0
#[test]
fn field_made_optional_twice_v2_read_by_v1_and_v0() {
    let bytes = serialize_to_byte_vec(&t2::Rec { a: 1, x: Some(Some(5)) }).unwrap();
    // actual: Ok(Rec { a: 1, x: Some(1) }) and Ok(Rec { a: 1, x: 1 })
    assert_eq!(deserialize::<t1::Rec>(&bytes).unwrap(), t1::Rec { a: 1, x: Some(5) });
    assert_eq!(deserialize::<t0::Rec>(&bytes).unwrap(), t0::Rec { a: 1, x: 5 });
}
