// C01: DateTime<FixedOffset> (and NaiveTime / NaiveDateTime) holding a leap second whose wall-clock
// second is not 59 do not round-trip.
//
// chrono keeps the leap-second fraction (nanosecond >= 1_000_000_000) when it shifts a time by a
// FixedOffset; with an offset that is not a whole number of minutes the local second is no longer 59.
// The encoder writes hour/minute/second/nanosecond of the *local* time as they are
// (desert_core/src/features/chrono.rs:157-168 NaiveTime, 227-236 DateTime<FixedOffset> via naive_local), the decoder rebuilds it with
// NaiveTime::from_hms_nano_opt (chrono.rs:170-183, the call is at line 176), which rejects nanosecond >= 1e9 unless second == 59.

use chrono::{DateTime, FixedOffset, NaiveDate, NaiveTime, TimeZone, Utc};
use desert_core::{deserialize, serialize_to_byte_vec};

fn leap_utc() -> DateTime<Utc> {
    let naive = NaiveDate::from_ymd_opt(2016, 12, 31)
        .unwrap()
        .and_hms_nano_opt(23, 59, 59, 1_500_000_000) // 23:59:60.5, the 2016 leap second
        .unwrap();
    Utc.from_utc_datetime(&naive)
}

#[test]
fn control_leap_second_with_whole_minute_offset_round_trips() {
    let value = leap_utc().with_timezone(&FixedOffset::east_opt(3600).unwrap());
    let bytes = serialize_to_byte_vec(&value).unwrap();
    assert_eq!(deserialize::<DateTime<FixedOffset>>(&bytes).unwrap(), value);
}

#[test]
fn datetime_fixed_offset_leap_second_with_sub_minute_offset_round_trips() {
    // +00:00:30 is a legal FixedOffset (the codec itself supports second granularity)
    let value: DateTime<FixedOffset> = leap_utc().with_timezone(&FixedOffset::east_opt(30).unwrap());
    let bytes = serialize_to_byte_vec(&value).unwrap();
    let back = deserialize::<DateTime<FixedOffset>>(&bytes);
    // actual: Err(DeserializationFailure("Failed to deserialize NaiveTime: Invalid time 0 0 29 1500000000"))
    assert_eq!(back.unwrap(), value);
}

#[test]
fn naive_time_leap_second_shifted_by_offset_round_trips() {
    let value: NaiveTime =
        NaiveTime::from_hms_nano_opt(23, 59, 59, 1_500_000_000).unwrap() + FixedOffset::east_opt(30).unwrap();
    let bytes = serialize_to_byte_vec(&value).unwrap();
    let back = deserialize::<NaiveTime>(&bytes);
    assert_eq!(back.unwrap(), value);
}
