// C02: a field is removed and, in a later step, a field with the same name is added again.
// For tuple variants this is forced by the positional names (field0, field1, ...): dropping the trailing
// element and later appending a new one necessarily re-uses "field2".
//
// The writer emits FieldRemoved("<name>") in the evolution header; the reader collects removed names in a
// set and consults it first (desert_core/src/adt/deserializer.rs:91 read_field, :143 read_optional_field),
// so with the very same definition a required field fails with FieldRemovedInSerializedVersion and an
// optional field silently decodes as None.
#![allow(dead_code)]
use desert_core::*;
use desert_macro::BinaryCodec;
mod desert {
    pub use desert_core::*;
}

#[derive(Debug, PartialEq, BinaryCodec)]
enum Shape {
    // v0: Circle(u8, u8, String); v1: the String is dropped; v2: a new third element is appended
    #[evolution(FieldRemoved("field2"), FieldAdded("field2", 0u32))]
    Circle(u8, u8, u32),
}

#[derive(Debug, PartialEq, BinaryCodec)]
#[evolution(FieldRemoved("note"), FieldAdded("note", None))]
struct Ticket {
    id: u8,
    note: Option<u32>,
}

#[test]
fn tuple_variant_with_readded_trailing_element_round_trips() {
    let value = Shape::Circle(1, 2, 99);
    let bytes = serialize_to_byte_vec(&value).unwrap();
    // actual: Err(FieldRemovedInSerializedVersion("field2"))
    let back = deserialize::<Shape>(&bytes);
    assert_eq!(back.unwrap(), value);
}

#[test]
fn struct_with_readded_optional_field_round_trips() {
    let value = Ticket { id: 1, note: Some(99) };
    let bytes = serialize_to_byte_vec(&value).unwrap();
    // actual: Ok(Ticket { id: 1, note: None }) - the value is silently lost
    let back = deserialize::<Ticket>(&bytes).unwrap();
    assert_eq!(back, value);
}
