// C02 (derived codec == field-by-field procedure applied to the declaration) / C03 (documented outcome for
// every version pair): declarations the macro accepts but interprets by *spelling*.
//
// (a) desert_macro/src/lib.rs:471-492 is_option recognises only `Option`, `std::option::Option` and
//     `core::option::Option`. Any other spelling of the same type (`option::Option<T>` after
//     `use std::option;`, a type alias) is routed to read_field, so FieldMadeOptional / FieldRemoved on that
//     field do not give the documented outcome.
// (b) desert_macro/src/lib.rs:380-382 uses Ident::to_string() as the field name, which is "r#type" for a raw
//     identifier. An evolution step that names the field "type" does not match it: the field is written to
//     chunk 0 instead of the chunk of the step that added it and its default is never used.
#![allow(dead_code)]
use desert_core::*;
use desert_macro::BinaryCodec;
use std::option;
mod desert {
    pub use desert_core::*;
}

mod a0 {
    use super::*;
    #[derive(Debug, PartialEq, BinaryCodec)]
    pub struct Rec {
        pub a: u8,
        pub x: u8,
    }
}
mod a1 {
    use super::*;
    #[derive(Debug, PartialEq, BinaryCodec)]
    #[evolution(FieldMadeOptional("x"))]
    pub struct Rec {
        pub a: u8,
        pub x: option::Option<u8>,
    }
}
mod a2 {
    use super::*;
    #[derive(Debug, PartialEq, BinaryCodec)]
    #[evolution(FieldMadeOptional("x"), FieldRemoved("x"))]
    pub struct Rec {
        pub a: u8,
    }
}

#[test]
fn made_optional_field_spelled_option_option_wraps_old_data() {
    let bytes = serialize_to_byte_vec(&a0::Rec { a: 1, x: 5 }).unwrap();
    // actual: Err(DeserializationFailure("Failed to deserialize Option: invalid tag: 5"))
    let back = deserialize::<a1::Rec>(&bytes);
    assert_eq!(back.unwrap(), a1::Rec { a: 1, x: Some(5) });
}

#[test]
fn removed_field_spelled_option_option_reads_as_absent() {
    let bytes = serialize_to_byte_vec(&a2::Rec { a: 1 }).unwrap();
    // actual: Err(FieldRemovedInSerializedVersion("x"))
    let back = deserialize::<a1::Rec>(&bytes);
    assert_eq!(back.unwrap(), a1::Rec { a: 1, x: None });
}

mod r0 {
    use super::*;
    #[derive(Debug, PartialEq, BinaryCodec)]
    pub struct Rec {
        pub a: u8,
    }
}
mod r1 {
    use super::*;
    #[derive(Debug, PartialEq, BinaryCodec)]
    #[evolution(FieldAdded("type", 9u8))]
    pub struct Rec {
        pub a: u8,
        pub r#type: u8,
    }
}

#[test]
fn added_raw_identifier_field_takes_its_default() {
    let bytes = serialize_to_byte_vec(&r0::Rec { a: 1 }).unwrap();
    // actual: Err(InputEndedUnexpectedly) - the field is looked up as "r#type", found in no step, read from chunk 0
    let back = deserialize::<r1::Rec>(&bytes);
    assert_eq!(back.unwrap(), r1::Rec { a: 1, r#type: 9 });
}

#[test]
fn added_raw_identifier_field_is_routed_to_its_own_chunk() {
    let bytes = serialize_to_byte_vec(&r1::Rec { a: 1, r#type: 3 }).unwrap();
    // documented layout: version 1, chunk0 size 1, chunk1 size 1, a, type
    // actual:            [1, 4, 0, 1, 3] = chunk0 size 2, chunk1 "size 0"
    assert_eq!(bytes, vec![1, 2, 2, 1, 3]);
}
