// C05: "decoding terminates promptly" for every byte string.
//
// BigDecimal is decoded by reading a string and handing it to `str::parse` (features/bigdecimal.rs:20) with
// no bound on its length. num-bigint's base-10 parser is quadratic in the number of digits, so the decode
// time grows with the square of the input length: 0.8 MB of digits take ~0.6 s in release (~8 s in a debug
// build), 8 MB take about a minute (release), 80 MB about two hours - for an input that is read in
// milliseconds as a String. This test checks the growth rate: for a linear-time decoder a 4x longer input
// costs ~4x; here it costs ~16x.
use desert_core::{deserialize, BinaryOutput};
use std::time::{Duration, Instant};

fn encoded_digits(n: usize) -> Vec<u8> {
    let mut b = Vec::new();
    b.write_var_i32(n as i32);
    b.write_bytes(&vec![b'7'; n]);
    b
}

fn decode_time(input: &[u8]) -> Duration {
    // best of three, to be robust against scheduling noise
    (0..3)
        .map(|_| {
            let t = Instant::now();
            let v = deserialize::<bigdecimal::BigDecimal>(input).expect("a valid decimal");
            let dt = t.elapsed();
            drop(v);
            dt
        })
        .min()
        .unwrap()
}

#[test]
fn decode_time_grows_linearly_with_the_input() {
    let small = encoded_digits(50_000);
    let large = encoded_digits(200_000); // 4x
    let t_small = decode_time(&small);
    let t_large = decode_time(&large);
    let factor = t_large.as_secs_f64() / t_small.as_secs_f64();
    eprintln!("50k digits: {t_small:?}, 200k digits: {t_large:?}, factor {factor:.1}");
    assert!(
        factor < 8.0,
        "C05: a 4x longer input took {factor:.1}x as long ({t_small:?} -> {t_large:?}): decode time is quadratic"
    );
}
