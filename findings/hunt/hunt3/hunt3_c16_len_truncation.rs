// C16: "the frame records the true uncompressed and compressed lengths".
//
// write_compressed stores both lengths with `len as u32` (binary_output.rs:101-102) while every other
// length in the library goes through `try_into()?` and yields Error::LengthTooLarge. A block of 2^32 + 5
// bytes is therefore written with a header that claims 5 uncompressed bytes, and no error is reported.
//
// Needs a 4 GiB zero-filled buffer (calloc'ed, only ever read, so it costs address space rather than RAM);
// takes ~1.5 s in release and ~20 s in the debug profile.
use desert_core::{BinaryInput, BinaryOutput, SliceInput};
use flate2::Compression;

#[test]
fn frame_records_the_true_uncompressed_length_or_refuses() {
    let len: usize = (1usize << 32) + 5;
    let data = vec![0u8; len];
    let mut out: Vec<u8> = Vec::new();
    match out.write_compressed(&data, Compression::new(1)) {
        Err(_) => {} // refusing a block that the frame cannot describe would be fine
        Ok(()) => {
            let mut input = SliceInput::new(&out);
            let stored_uncompressed = input.read_var_u32().unwrap() as u64;
            assert_eq!(
                stored_uncompressed, len as u64,
                "C16: frame header claims {stored_uncompressed} uncompressed bytes for a block of {len}"
            );
        }
    }
}
