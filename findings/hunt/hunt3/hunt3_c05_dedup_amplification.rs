// C05: decoding "never allocates more than a bounded multiple of the input length".
//
// A back-reference to a deduplicated string costs one or two input bytes but makes the decoder allocate a
// fresh copy of the referenced string (DeduplicatedString::deserialize -> `s.to_string()`), and the copies
// stay alive in the decoded value. One literal of n bytes followed by m back-references therefore makes
// the decoder hold ~ n*m bytes for an input of ~ n + 2m bytes: the heap use grows quadratically with the
// input length, there is no constant k with heap <= k * input.
use desert_core::{
    deserialize, BinaryDeserializer, BinaryOutput, DeduplicatedString, DeserializationContext,
};
use std::alloc::{GlobalAlloc, Layout, System};
use std::sync::atomic::{AtomicUsize, Ordering::SeqCst};
use std::sync::Mutex;

struct Counting;
static LIVE: AtomicUsize = AtomicUsize::new(0);
static PEAK: AtomicUsize = AtomicUsize::new(0);

unsafe impl GlobalAlloc for Counting {
    unsafe fn alloc(&self, layout: Layout) -> *mut u8 {
        let p = System.alloc(layout);
        if !p.is_null() {
            let live = LIVE.fetch_add(layout.size(), SeqCst) + layout.size();
            PEAK.fetch_max(live, SeqCst);
        }
        p
    }
    unsafe fn dealloc(&self, ptr: *mut u8, layout: Layout) {
        LIVE.fetch_sub(layout.size(), SeqCst);
        System.dealloc(ptr, layout)
    }
}

#[global_allocator]
static GLOBAL: Counting = Counting;

// the tests measure a process-wide counter, so they must not overlap
static SERIAL: Mutex<()> = Mutex::new(());

/// varint(count) ++ literal string of `n` x 'a' ++ (count-1) x back-reference to string id 1
fn bomb(n: usize, refs: usize) -> Vec<u8> {
    let mut b = Vec::new();
    b.write_var_i32((refs + 1) as i32); // Vec<_> element count
    b.write_var_i32(n as i32); // literal: length ...
    b.write_bytes(&vec![b'a'; n]); // ... and bytes; becomes string id 1
    for _ in 0..refs {
        b.write_var_i32(-1); // back-reference to id 1: a single byte
    }
    b
}

/// peak heap growth (bytes) while decoding `input` as Vec<DeduplicatedString>
fn peak_heap_of_decode(input: &[u8], expect_items: usize) -> usize {
    let before = LIVE.load(SeqCst);
    PEAK.store(before, SeqCst);
    let decoded = deserialize::<Vec<DeduplicatedString>>(input).expect("well-formed input");
    let peak = PEAK.load(SeqCst) - before;
    assert_eq!(decoded.len(), expect_items);
    peak
}

#[test]
fn heap_use_is_a_bounded_multiple_of_the_input_length() {
    let _guard = SERIAL.lock().unwrap_or_else(|e| e.into_inner());
    // a generous constant
    const K: usize = 64;
    let mut worst = (0usize, 0usize);
    for (n, refs) in [(1_000, 1_000), (10_000, 10_000), (30_000, 30_000)] {
        let input = bomb(n, refs);
        let peak = peak_heap_of_decode(&input, refs + 1);
        eprintln!(
            "input {} bytes -> peak heap {} bytes ({}x)",
            input.len(),
            peak,
            peak / input.len()
        );
        if peak / input.len() > worst.1 / worst.0.max(1) {
            worst = (input.len(), peak);
        }
    }
    assert!(
        worst.1 <= K * worst.0,
        "C05: decoding {} input bytes allocated {} bytes ({}x the input)",
        worst.0,
        worst.1,
        worst.1 / worst.0
    );
}

// The same amplification reaches types that never mention DeduplicatedString: the names of removed fields in
// an evolution header are read as deduplicated strings, each back-reference is copied into the
// AdtDeserializer's `removed_fields` set, and that set lives as long as the record is being decoded. A
// recursive record keeps one copy of the (arbitrarily long) name alive per nesting level.
struct List {
    #[allow(dead_code)]
    next: Option<Box<List>>,
}

lazy_static::lazy_static! {
    static ref LIST_METADATA: desert_core::adt::AdtMetadata =
        desert_core::adt::AdtMetadata::new(vec![desert_core::Evolution::InitialVersion]);
}

// exactly what #[derive(BinaryCodec)] generates for `struct List { next: Option<Box<List>> }`
impl BinaryDeserializer for List {
    fn deserialize(context: &mut DeserializationContext<'_>) -> desert_core::Result<Self> {
        use desert_core::BinaryInput;
        let stored_version = context.read_u8()?;
        if stored_version == 0 {
            let mut d = desert_core::adt::AdtDeserializer::new_v0(&LIST_METADATA, context)?;
            Ok(List { next: d.read_optional_field("next", None)? })
        } else {
            let mut d =
                desert_core::adt::AdtDeserializer::new(&LIST_METADATA, context, stored_version)?;
            Ok(List { next: d.read_optional_field("next", None)? })
        }
    }
}

/// `depth` nested records, each written as version 1 = [chunk 0, FieldRemoved(<name>)]; the outermost
/// header carries the name as a literal of `n` bytes, all inner ones as a 1-byte back-reference.
fn nested(depth: usize, n: usize) -> Vec<u8> {
    fn level(depth: usize, n: usize, first: bool) -> Vec<u8> {
        let chunk0 = if depth == 0 {
            vec![0u8] // next = None
        } else {
            let mut c = vec![1u8]; // next = Some(..)
            c.extend(level(depth - 1, n, false));
            c
        };
        let mut b = Vec::new();
        b.write_u8(1); // stored version 1
        b.write_var_i32(chunk0.len() as i32); // step 0: chunk 0 and its size
        b.write_var_i32(-2); // step 1: FieldRemoved ...
        if first {
            b.write_var_i32(n as i32); // ... name as a literal (string id 1)
            b.write_bytes(&vec![b'x'; n]);
        } else {
            b.write_var_i32(-1); // ... name as back-reference to id 1
        }
        b.extend(chunk0);
        b
    }
    level(depth, n, true)
}

#[test]
fn heap_use_of_a_plain_record_is_a_bounded_multiple_of_the_input_length() {
    let _guard = SERIAL.lock().unwrap_or_else(|e| e.into_inner());
    const K: usize = 64;
    let (depth, n) = (400, 1_000_000);
    let input = nested(depth, n);
    let before = LIVE.load(SeqCst);
    PEAK.store(before, SeqCst);
    let decoded = std::thread::Builder::new()
        .stack_size(64 << 20)
        .spawn(move || {
            let r = deserialize::<List>(&input).map(|_| ());
            (r, input.len())
        })
        .unwrap()
        .join()
        .unwrap();
    let peak = PEAK.load(SeqCst) - before;
    decoded.0.expect("well-formed input");
    let len = decoded.1;
    eprintln!("input {len} bytes -> peak heap {peak} bytes ({}x)", peak / len);
    assert!(
        peak <= K * len + (64 << 20), // + the thread's own stack, in case it is counted
        "C05: decoding {len} input bytes allocated {peak} bytes ({}x the input)",
        peak / len
    );
}

// Third face of the same defect, this time as CPU time and for a purely built-in type: every element of a
// Vec<(u8,)> may carry an evolution header with up to 255 FieldRemoved steps, each a 2-byte back-reference to
// one long name. AdtDeserializer::new copies the name twice per step (SerializedEvolutionStep::FieldRemoved
// and `removed_fields.insert(field_name.clone())`), so 513 input bytes cost ~510 copies of the name:
// decode time is proportional to (input length)^2 although nothing of it ends up in the decoded value.
// Measured: 100 KB -> 0.19 s, 200 KB -> 1.6 s in release (2.6 s / 11.6 s in debug).
fn tuple_vec(elements: usize, n: usize) -> Vec<u8> {
    let mut b = Vec::new();
    b.write_var_i32(elements as i32);
    for e in 0..elements {
        b.write_u8(255); // stored version 255: 256 evolution steps follow
        b.write_var_i32(1); // step 0: chunk 0, one byte long
        for s in 0..255 {
            b.write_var_i32(-2); // FieldRemoved
            if e == 0 && s == 0 {
                b.write_var_i32(n as i32); // the name, literally (string id 1)
                b.write_bytes(&vec![b'x'; n]);
            } else {
                b.write_var_i32(-1); // the name, as back-reference
            }
        }
        b.write_u8(e as u8); // chunk 0: the u8
    }
    b
}

#[test]
fn decode_time_of_a_vec_of_tuples_grows_linearly_with_the_input() {
    let _guard = SERIAL.lock().unwrap_or_else(|e| e.into_inner());
    let time = |input: &[u8], elements: usize| {
        (0..2)
            .map(|_| {
                let t = std::time::Instant::now();
                let v = deserialize::<Vec<(u8,)>>(input).expect("well-formed input");
                let dt = t.elapsed();
                assert_eq!(v.len(), elements);
                dt
            })
            .min()
            .unwrap()
    };
    let small = tuple_vec(50, 25_000); // ~50 KB
    let large = tuple_vec(100, 50_000); // ~100 KB
    let (t_small, t_large) = (time(&small, 50), time(&large, 100));
    let factor = t_large.as_secs_f64() / t_small.as_secs_f64();
    eprintln!(
        "{} bytes: {t_small:?}, {} bytes: {t_large:?}, factor {factor:.1}",
        small.len(),
        large.len()
    );
    assert!(
        factor < 3.0,
        "C05: a 2x longer input took {factor:.1}x as long ({t_small:?} -> {t_large:?})"
    );
}
