// C05 (low-level readers): "the low-level readers likewise reject any requested length that does not fit
// instead of overflowing" / decoding "never panics".
//
// SliceInput exposes `data` and `pos` as public fields, so safe code can build (or leave behind) a reader whose
// cursor is past the end. read_bytes and skip answer Err(InputEndedUnexpectedly) for such a reader, but
// read_u8 - and with it read_i8, read_var_u32, read_var_i32 and read_compressed - tests `pos == len`
// instead of `pos >= len` and then indexes `data[pos]`: an index-out-of-bounds panic instead of an Err.
use desert_core::{BinaryInput, SliceInput};
use std::panic::{catch_unwind, AssertUnwindSafe};

#[test]
fn read_u8_past_the_end_is_an_error_not_a_panic() {
    let data = [1u8, 2, 3];
    let mut input = SliceInput { data: &data, pos: 4 };
    assert!(input.read_bytes(1).is_err()); // this reader gets it right
    assert!(input.skip(1).is_err()); // and this one
    let r = catch_unwind(AssertUnwindSafe(|| input.read_u8().is_err()));
    assert_eq!(r.ok(), Some(true), "C05: read_u8 must answer Err, it panicked");
}

#[test]
fn read_var_u32_and_read_compressed_past_the_end_are_errors_not_panics() {
    let data = [1u8, 2, 3];
    let r = catch_unwind(|| {
        let mut input = SliceInput { data: &data, pos: usize::MAX };
        input.read_var_u32().is_err()
    });
    assert_eq!(r.ok(), Some(true), "C05: read_var_u32 must answer Err, it panicked");
    let r = catch_unwind(|| {
        let mut input = SliceInput { data: &data, pos: 17 };
        input.read_compressed().is_err()
    });
    assert_eq!(r.ok(), Some(true), "C05: read_compressed must answer Err, it panicked");
}
