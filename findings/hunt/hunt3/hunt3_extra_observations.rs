// Observations made during the hunt that are OUTSIDE the four properties C05/C06/C16/C19 (both are on the
// serializing side). They are reproduced here so that they are not lost; see FINDINGS.md "Other observations".
use desert_core::*;
use desert_macro::BinaryCodec;

mod desert {
    pub use desert_core::*;
}

#[derive(Debug, Clone, PartialEq, BinaryCodec)]
#[evolution(FieldAdded("b", 'x'))]
struct S {
    a: u8,
    b: char,
}

// X1: a failed write_field leaves its chunk buffer on SerializationContext::buffer_stack
// (adt/serializer.rs:73-79: push_buffer, then `value.serialize(..)?` returns before pop_buffer). Every later
// write through the same context lands in that orphaned buffer and never reaches the output.
#[test]
fn x1_context_is_usable_after_a_failed_serialize() {
    let mut ctx = SerializationContext::new(Vec::new());
    let bad = S { a: 1, b: '\u{1F600}' }; // not representable: Error::UnsupportedCharacter
    assert!(bad.serialize(&mut ctx).is_err());
    7u8.serialize(&mut ctx).unwrap();
    8u8.serialize(&mut ctx).unwrap();
    let out = ctx.into_output();
    assert!(
        out.ends_with(&[7, 8]),
        "bytes written after the failed value are lost: output is {out:02x?}"
    );
}

// X2: the writer's reference table identifies an object by (address, TypeId) and never forgets an entry, so an
// object that is dropped during serialization and a later one that happens to be allocated at the same
// address are taken for the same object: the second is written as a back-reference to the first.
// (Relative of known item 3, but the effect is silent data corruption at encode time, no dangling deref.)
#[derive(Debug, PartialEq)]
struct Item(u32);

struct Items;

impl BinarySerializer for Items {
    fn serialize<O: BinaryOutput>(&self, ctx: &mut SerializationContext<O>) -> Result<()> {
        for i in 0..3u32 {
            let tmp = Box::new(Item(i)); // lives for one iteration only
            if ctx.store_ref_or_object(&*tmp)? {
                ctx.write_u32(tmp.0);
            }
        }
        Ok(())
    }
}

#[test]
fn x2_distinct_objects_are_not_written_as_back_references() {
    let out = serialize_to_byte_vec(&Items).unwrap();
    // three distinct objects: three times (ref marker 0, payload)
    assert_eq!(
        out,
        vec![0, 0, 0, 0, 0, 0, 0, 0, 0, 1, 0, 0, 0, 0, 2],
        "objects 1 and 2 were encoded as references to the dead object 0"
    );
}
