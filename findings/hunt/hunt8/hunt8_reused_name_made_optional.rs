// hunt8 / extra finding (outside C05 C10 C11 C13 C16 C18 C19: evolution round trip).
//
// A field that reuses the name of an earlier, removed field (supported since the
// "a field may reuse the name of an earlier, removed field" repair) and is later made
// optional cannot be read back by its own definition: every value decodes as None.
//
// The writer decides "is this FieldMadeOptional step about a field that is no longer
// serialized?" with a name-only set (AdtMetadata::removed_fields, adt/mod.rs:61-71;
// used in adt/serializer.rs:48 and :138).  Because "x" was removed once (step 1), the
// FieldMadeOptional("x") of step 3 - which is about the *new* x added in step 2 - is
// written to the header as FieldRemoved{"x"} at index 3.  The reader then sees a removal
// (index 3) that comes after the addition (index 2) and returns None without reading
// the chunk (adt/deserializer.rs:89-101, :160-161).

use desert_core::*;
use desert_macro::BinaryCodec;

mod desert {
    pub use desert_core::*;
}

#[derive(Debug, PartialEq, BinaryCodec)]
#[evolution(FieldRemoved("x"), FieldAdded("x", Some(0u8)), FieldMadeOptional("x"))]
struct Reuse {
    a: u8,
    x: Option<u8>,
}

// the same history without the earlier removal: works
#[derive(Debug, PartialEq, BinaryCodec)]
#[evolution(FieldRemoved("w"), FieldAdded("x", Some(0u8)), FieldMadeOptional("x"))]
struct NoReuse {
    a: u8,
    x: Option<u8>,
}

#[test]
fn control_without_reuse_round_trips() {
    let v = NoReuse { a: 1, x: Some(7) };
    let bytes = serialize_to_byte_vec(&v).unwrap();
    assert_eq!(deserialize::<NoReuse>(&bytes).unwrap(), v);
}

#[test]
fn reused_name_made_optional_round_trips() {
    let v = Reuse { a: 1, x: Some(7) };
    let bytes = serialize_to_byte_vec(&v).unwrap();
    // header on the current tree: [3, 2, 3,2,'x', <chunk 1 size>, 3,<backref>, ...]:
    // step 3 is written as FieldRemoved although x is serialized (its chunk holds 01 07)
    let back = deserialize::<Reuse>(&bytes).unwrap();
    assert_eq!(back, v, "bytes: {bytes:?}");
}
