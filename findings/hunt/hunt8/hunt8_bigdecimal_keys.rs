// hunt8 / C05: "decoding terminates promptly and returns either a value or an error. It never
// panics or aborts ... and never allocates more than a bounded multiple of the input length",
// for every byte string and every decodable target type.
//
// Target types: HashSet<BigDecimal>, HashMap<BigDecimal, V> (both are compositions of the
// library's own codecs; BigDecimal: Hash + Eq).
//
// The BigDecimal decoder (features/bigdecimal.rs:17-24) accepts any exponent that fits an
// i64, so the 13 byte string "1e100000000" yields a value with scale -100_000_000.  The
// set / map decoders (deserializer/mod.rs:341-345, :353-359) then *hash* the decoded key
// while the decode is still running, and bigdecimal's Hash impl materialises the number in
// plain notation: `"0".repeat(scale.abs())` (bigdecimal-0.4.6 src/lib.rs:964).
//   * "1e100000000"            -> one allocation of 100 MB (and a 100 MB hash run) from 13 input bytes
//   * "1e9223372036854775807"  -> the process aborts: "memory allocation of 9223372036854775807 bytes failed"
//                                 (see hunt8_bigdecimal_keys_abort.rs)
//   * "1e9223372036854775808"  -> scale i64::MIN: `abs()` overflows (panic with overflow checks)

use bigdecimal::BigDecimal;
use desert_core::*;
use std::alloc::{GlobalAlloc, Layout, System};
use std::collections::{HashMap, HashSet};
use std::panic::{catch_unwind, AssertUnwindSafe};
use std::sync::atomic::{AtomicUsize, Ordering};

struct Tracking;
static MAX_REQ: AtomicUsize = AtomicUsize::new(0);

unsafe impl GlobalAlloc for Tracking {
    unsafe fn alloc(&self, l: Layout) -> *mut u8 {
        MAX_REQ.fetch_max(l.size(), Ordering::Relaxed);
        System.alloc(l)
    }
    unsafe fn dealloc(&self, p: *mut u8, l: Layout) {
        System.dealloc(p, l)
    }
    unsafe fn realloc(&self, p: *mut u8, l: Layout, n: usize) -> *mut u8 {
        MAX_REQ.fetch_max(n, Ordering::Relaxed);
        System.realloc(p, l, n)
    }
}
#[global_allocator]
static A: Tracking = Tracking;

fn one_element_set(number: &str) -> Vec<u8> {
    let mut bytes = Vec::new();
    bytes.write_var_i32(1); // one element
    bytes.write_var_i32(number.len() as i32);
    bytes.write_bytes(number.as_bytes());
    bytes
}

#[test]
fn the_plain_value_decodes_cheaply() {
    // control: on its own the value is harmless
    let bytes = &one_element_set("1e100000000")[1..];
    MAX_REQ.store(0, Ordering::Relaxed);
    let v: BigDecimal = deserialize(bytes).unwrap();
    assert!(MAX_REQ.load(Ordering::Relaxed) < 64 * 1024);
    assert!(serialize_to_byte_vec(&v).unwrap().len() < 32);
}

#[test]
fn hash_set_of_bigdecimal_allocation_is_proportional_to_the_input() {
    let bytes = one_element_set("1e100000000");
    assert_eq!(bytes.len(), 13);
    MAX_REQ.store(0, Ordering::Relaxed);
    let started = std::time::Instant::now();
    let r = deserialize::<HashSet<BigDecimal>>(&bytes);
    let max = MAX_REQ.load(Ordering::Relaxed);
    println!("decode took {:?}, largest single allocation {max} bytes, ok={}", started.elapsed(), r.is_ok());
    assert!(max <= 64 * 1024, "a {} byte input made the decoder request {max} bytes at once", bytes.len());
}

#[test]
fn hash_map_with_bigdecimal_keys_does_not_panic() {
    // ("1e9223372036854775807" is in hunt8_bigdecimal_keys_abort.rs: it kills the process)
    for number in ["1e9223372036854775808"] {
        // HashMap<BigDecimal, u8>: count 1, then the (key, value) 2-tuple: version byte 0, key, value
        let mut bytes = Vec::new();
        bytes.write_var_i32(1);
        bytes.write_u8(0);
        bytes.write_var_i32(number.len() as i32);
        bytes.write_bytes(number.as_bytes());
        bytes.write_u8(7);
        let r = catch_unwind(AssertUnwindSafe(|| {
            deserialize::<HashMap<BigDecimal, u8>>(&bytes).map(|m| m.len())
        }));
        assert!(r.is_ok(), "decoding {} bytes ({number}) panicked", bytes.len());
    }
}
