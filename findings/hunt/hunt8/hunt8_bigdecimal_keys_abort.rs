// hunt8 / C05 "never panics or aborts": see hunt8_bigdecimal_keys.rs for the explanation.
// A 27 byte input for HashMap<BigDecimal, u8> aborts the process (SIGABRT, not an unwind):
//   "memory allocation of 9223372036854775807 bytes failed"
// so this test cannot even report a failure: the test binary dies.

use bigdecimal::BigDecimal;
use desert_core::*;
use std::collections::HashMap;

#[test]
fn hash_map_with_bigdecimal_key_does_not_abort() {
    let number = "1e9223372036854775807";
    let mut bytes = Vec::new();
    bytes.write_var_i32(1); // one entry
    bytes.write_u8(0); // the (key, value) tuple's version byte
    bytes.write_var_i32(number.len() as i32);
    bytes.write_bytes(number.as_bytes());
    bytes.write_u8(7);
    assert_eq!(bytes.len(), 25);
    let r = deserialize::<HashMap<BigDecimal, u8>>(&bytes);
    println!("survived: ok={}", r.is_ok());
}
