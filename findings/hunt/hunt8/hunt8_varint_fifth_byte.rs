// hunt8 / low-certainty observation against C05 ("the low-level readers likewise reject any
// requested length that does not fit instead of overflowing") and the "bijection" of C11's title.
//
// read_var_u32 (binary_input.rs:92-94) takes the fifth byte without looking at its
// continuation bit and shifts its 7 payload bits left by 28: bits 4..6 fall off the u32.
// A varint that denotes a number >= 2^32 is therefore not rejected but silently reduced
// modulo 2^32, through every BinaryInput implementation, and everything built on it
// (lengths, sequence counts, constructor indices, reference ids) inherits that.

use desert_core::*;

#[test]
fn varint_above_u32_is_rejected() {
    // 5 + 2^32: low group 5, fifth group 0x10 (bit 32 set)
    let bytes = [0x85u8, 0x80, 0x80, 0x80, 0x10];
    let r = SliceInput::new(&bytes).read_var_u32();
    assert!(r.is_err(), "SliceInput decoded 2^32+5 as {r:?}");
}

#[test]
fn fifth_byte_with_continuation_bit_is_rejected() {
    let bytes = [0xffu8, 0xff, 0xff, 0xff, 0xff, 0x01];
    let r = OwnedInput::new(bytes.to_vec()).read_var_u32();
    assert!(r.is_err(), "OwnedInput decoded an unterminated varint as {r:?}");
}

#[test]
fn byte_vector_length_that_does_not_fit_is_rejected() {
    // Vec<u8>: var_u32 length 2^32+1, then one byte
    let bytes = [0x81u8, 0x80, 0x80, 0x80, 0x10, 0x41];
    let r = deserialize::<Vec<u8>>(&bytes);
    assert!(r.is_err(), "length 2^32+1 accepted: {r:?}");
}
