// C05, allocation clause: "never allocates more than a bounded multiple of the input length".
//
// Decoding a fixed-size byte array `[u8; N]` reserves N bytes as soon as the length prefix equals N,
// before a single element has been read.  A 3-byte input (just the length prefix) therefore costs a
// 1 MiB allocation request and is then rejected with InputEndedUnexpectedly.
//
// The generic `[T; N]` path (T != u8) does not do this: it grows with what is actually decoded.

use desert_core::*;
use std::alloc::{GlobalAlloc, Layout, System};
use std::sync::atomic::{AtomicUsize, Ordering};

struct Counting;
static MAX_REQ: AtomicUsize = AtomicUsize::new(0);

unsafe impl GlobalAlloc for Counting {
    unsafe fn alloc(&self, l: Layout) -> *mut u8 {
        MAX_REQ.fetch_max(l.size(), Ordering::Relaxed);
        System.alloc(l)
    }
    unsafe fn dealloc(&self, p: *mut u8, l: Layout) {
        System.dealloc(p, l)
    }
    unsafe fn realloc(&self, p: *mut u8, l: Layout, n: usize) -> *mut u8 {
        MAX_REQ.fetch_max(n, Ordering::Relaxed);
        System.realloc(p, l, n)
    }
}

#[global_allocator]
static A: Counting = Counting;

const N: usize = 1 << 20;

#[test]
fn byte_array_decode_allocates_in_proportion_to_the_input() {
    // run on a thread with a roomy stack: Result<[u8; N]> itself lives on the stack
    std::thread::Builder::new()
        .stack_size(16 * N)
        .spawn(|| {
            // control: the generic path ([i8; N]) given only a count stays small
            let mut input = Vec::new();
            input.write_var_i32(N as i32);
            MAX_REQ.store(0, Ordering::Relaxed);
            let result = deserialize::<[i8; N]>(&input);
            let largest = MAX_REQ.load(Ordering::Relaxed);
            assert!(result.is_err());
            assert!(largest <= 64 * 1024, "control: largest request {largest}");

            // the byte path: the input is only the length prefix varint(N), 3 bytes
            let mut input = Vec::new();
            input.write_var_u32(N as u32);
            assert_eq!(input.len(), 3);

            MAX_REQ.store(0, Ordering::Relaxed);
            let result = deserialize::<[u8; N]>(&input);
            let largest = MAX_REQ.load(Ordering::Relaxed);

            assert!(result.is_err(), "three bytes cannot hold 2^20 elements");
            // a generous bound: 64 KiB or 1024 x the input length
            assert!(
                largest <= (64 * 1024).max(1024 * input.len()),
                "decoding a {}-byte input requested a single allocation of {} bytes",
                input.len(),
                largest
            );
        })
        .unwrap()
        .join()
        .unwrap();
}
