// C06 ("counts that disagree with the container ... rejected"): a set / map whose stored count is N is accepted
// with fewer than N members when elements repeat; for maps the later value silently replaces the earlier one.
use desert_core::*;
use std::collections::{BTreeMap, BTreeSet, HashMap, HashSet};

#[test]
fn set_with_repeated_element() {
    // count 2 (zig-zag 4), elements 1, 1
    let r = deserialize::<BTreeSet<u8>>(&[4, 1, 1]);
    assert!(r.is_err(), "accepted: {r:?}"); // actual: Ok({1})
    let r = deserialize::<HashSet<u8>>(&[4, 1, 1]);
    assert!(r.is_err(), "accepted: {r:?}");
}

#[test]
fn map_with_repeated_key() {
    // count 2, entries (tuple version 0, key 1, value 1), (0, 1, 2)
    let r = deserialize::<BTreeMap<u8, u8>>(&[4, 0, 1, 1, 0, 1, 2]);
    assert!(r.is_err(), "accepted: {r:?}"); // actual: Ok({1: 2})
    let r = deserialize::<HashMap<u8, u8>>(&[4, 0, 1, 1, 0, 1, 2]);
    assert!(r.is_err(), "accepted: {r:?}");
}
