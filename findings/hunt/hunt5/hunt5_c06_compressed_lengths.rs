// C06 ("every count, length and tag is honoured ... lengths that overrun / disagree are rejected"), compressed-block helper.
// A compressed block is framed as  var_u32 uncompressed_len | var_u32 compressed_len | deflate stream.
// read_compressed never compares uncompressed_len with what was inflated, and ignores bytes of the block that
// follow the end of the deflate stream.
use desert_core::*;

fn frame(payload: &[u8]) -> (u32, u32, Vec<u8>) {
    let mut out: Vec<u8> = Vec::new();
    out.write_compressed(payload, Default::default()).unwrap();
    let mut inp = SliceInput::new(&out);
    let ulen = inp.read_var_u32().unwrap();
    let clen = inp.read_var_u32().unwrap();
    let body = out[inp.pos..].to_vec();
    (ulen, clen, body)
}

fn build(ulen: u32, clen: u32, body: &[u8]) -> Vec<u8> {
    let mut t: Vec<u8> = Vec::new();
    t.write_var_u32(ulen);
    t.write_var_u32(clen);
    t.extend_from_slice(body);
    t
}

#[test]
fn control_untampered() {
    let payload = b"hello hello hello hello";
    let (ulen, clen, body) = frame(payload);
    assert_eq!(ulen as usize, payload.len());
    let t = build(ulen, clen, &body);
    assert_eq!(SliceInput::new(&t).read_compressed().unwrap(), payload.to_vec());
}

#[test]
fn stored_uncompressed_length_too_small_is_rejected() {
    let (_, clen, body) = frame(b"hello hello hello hello");
    let t = build(3, clen, &body);
    let r = SliceInput::new(&t).read_compressed();
    // actual: Ok(23 bytes) although the frame says 3
    assert!(r.is_err(), "accepted: {r:?}");
}

#[test]
fn stored_uncompressed_length_too_large_is_rejected() {
    let (_, clen, body) = frame(b"hello hello hello hello");
    let t = build(1000, clen, &body);
    let r = SliceInput::new(&t).read_compressed();
    // actual: Ok(23 bytes) although the frame says 1000
    assert!(r.is_err(), "accepted: {r:?}");
}

#[test]
fn empty_deflate_stream_for_a_nonempty_block_is_rejected() {
    // uncompressed_len = 2000, compressed_len = 0: there is no deflate stream at all
    let t = build(2000, 0, &[]);
    let r = SliceInput::new(&t).read_compressed();
    // actual: Ok([])
    assert!(r.is_err(), "accepted: {r:?}");
}

#[test]
fn bytes_after_the_deflate_stream_inside_the_block_are_rejected() {
    let (ulen, clen, mut body) = frame(b"hello hello hello hello");
    body.extend_from_slice(&[0xde, 0xad, 0xbe, 0xef]);
    let t = build(ulen, clen + 4, &body);
    let r = SliceInput::new(&t).read_compressed();
    // actual: Ok("hello ..."), the four bytes are silently swallowed
    assert!(r.is_err(), "accepted: {r:?}");
}
