// C06 ("every ... tag is honoured"): the presence byte of a field that was made optional is an Option tag
// (0 = None, 1 = Some, anything else is rejected by Option<T>'s decoder).  The older reader, which has the field
// as required, reads that same byte through bool's decoder and accepts every non-zero value as "Some".
use desert_core::*;
use desert_macro::BinaryCodec;

mod desert {
    pub use desert_core::*;
}

mod v0 {
    use super::*;
    #[derive(Debug, PartialEq, BinaryCodec)]
    pub struct Rec {
        pub a: u8,
    }
}

mod v1 {
    use super::*;
    #[derive(Debug, PartialEq, BinaryCodec)]
    #[evolution(FieldMadeOptional("a"))]
    pub struct Rec {
        pub a: Option<u8>,
    }
}

#[test]
fn invalid_option_tag_is_rejected_by_both_readers() {
    let bytes = serialize_to_byte_vec(&v1::Rec { a: Some(9) }).unwrap();
    // version 1 | chunk0 size 2 | FieldMadeOptional, position 0 | tag 1, value 9
    assert_eq!(bytes, vec![1, 4, 1, 0, 1, 9]);
    assert_eq!(deserialize::<v0::Rec>(&bytes).unwrap(), v0::Rec { a: 9 });

    let mut tampered = bytes.clone();
    tampered[4] = 2; // not an Option tag
    // the reader that knows the field as Option<u8> rejects it ...
    assert!(deserialize::<v1::Rec>(&tampered).is_err());
    // ... and so must the older one.  actual: Ok(Rec { a: 9 })
    let old = deserialize::<v0::Rec>(&tampered);
    assert!(old.is_err(), "accepted: {old:?}");
}
