// C03: a legal history in which a field name is reused (FieldRemoved("x") then FieldAdded("x", d), legal since
// the reused-name repair) and the NEW field x is later made optional.
//
//   v0: struct { a: u8, x: u8 }
//   v1: FieldRemoved("x")                 struct { a: u8 }
//   v2: FieldAdded("x", 7)                struct { a: u8, x: u32 }
//   v3: FieldMadeOptional("x")            struct { a: u8, x: Option<u32> }
//
// Documented outcome: read_3(write_3(v)) == v; read_2(write_3(v)) unwraps Some(n) to n.
use desert_core::*;
use desert_macro::BinaryCodec;

mod desert {
    pub use desert_core::*;
}

mod v2 {
    use super::*;
    #[derive(Debug, PartialEq, BinaryCodec)]
    #[evolution(FieldRemoved("x"), FieldAdded("x", 7))]
    pub struct Rec {
        pub a: u8,
        pub x: u32,
    }
}

mod v3 {
    use super::*;
    #[derive(Debug, PartialEq, BinaryCodec)]
    #[evolution(FieldRemoved("x"), FieldAdded("x", Some(7)), FieldMadeOptional("x"))]
    pub struct Rec {
        pub a: u8,
        pub x: Option<u32>,
    }
}

// control: the same history without the name reuse behaves as documented
mod v3_fresh_name {
    use super::*;
    #[derive(Debug, PartialEq, BinaryCodec)]
    #[evolution(FieldRemoved("x"), FieldAdded("y", Some(7)), FieldMadeOptional("y"))]
    pub struct Rec {
        pub a: u8,
        pub y: Option<u32>,
    }
}

#[test]
fn control_fresh_name_round_trips() {
    let v = v3_fresh_name::Rec {
        a: 1,
        y: Some(0xAABBCCDD),
    };
    let bytes = serialize_to_byte_vec(&v).unwrap();
    assert_eq!(deserialize::<v3_fresh_name::Rec>(&bytes).unwrap(), v);
}

#[test]
fn same_version_round_trip_keeps_the_value() {
    let v = v3::Rec {
        a: 1,
        x: Some(0xAABBCCDD),
    };
    let bytes = serialize_to_byte_vec(&v).unwrap();
    let back = deserialize::<v3::Rec>(&bytes).unwrap();
    // actual: Rec { a: 1, x: None } - the value is silently dropped
    assert_eq!(back, v);
}

#[test]
fn previous_version_unwraps_the_option() {
    let v = v3::Rec {
        a: 1,
        x: Some(0xAABBCCDD),
    };
    let bytes = serialize_to_byte_vec(&v).unwrap();
    let back = deserialize::<v2::Rec>(&bytes);
    // actual: Err(FieldRemovedInSerializedVersion("x"))
    assert_eq!(
        back.ok(),
        Some(v2::Rec {
            a: 1,
            x: 0xAABBCCDD
        })
    );
}

#[test]
fn the_header_step_is_field_made_optional() {
    let v = v3::Rec { a: 1, x: Some(5) };
    let bytes = serialize_to_byte_vec(&v).unwrap();
    // version 3; chunk0 size 1 -> 0x02; step1 FieldRemoved "x" -> 0x03 0x02 'x'; step2 chunk size 5 -> 0x0a;
    // step3 must be FieldMadeOptional (code -1 -> 0x01) at position chunk 2 -> 0x02
    let expected_header = vec![0x03, 0x02, 0x03, 0x02, b'x', 0x0a, 0x01, 0x02];
    assert_eq!(&bytes[..expected_header.len()], &expected_header[..]);
}

// Tuple variants name their fields by position, so replacing the last element always reuses "fieldN".
mod tv2 {
    use super::*;
    #[derive(Debug, PartialEq, BinaryCodec)]
    pub enum E {
        #[evolution(FieldRemoved("field1"), FieldAdded("field1", 7))]
        V(u8, u32),
    }
}

mod tv3 {
    use super::*;
    #[derive(Debug, PartialEq, BinaryCodec)]
    pub enum E {
        #[evolution(FieldRemoved("field1"), FieldAdded("field1", Some(7)), FieldMadeOptional("field1"))]
        V(u8, Option<u32>),
    }
}

#[test]
fn tuple_variant_same_version_round_trip() {
    let v = tv3::E::V(1, Some(5));
    let bytes = serialize_to_byte_vec(&v).unwrap();
    // actual: V(1, None)
    assert_eq!(deserialize::<tv3::E>(&bytes).unwrap(), v);
}

#[test]
fn tuple_variant_previous_version_unwraps() {
    let bytes = serialize_to_byte_vec(&tv3::E::V(1, Some(5))).unwrap();
    // actual: Err(FieldRemovedInSerializedVersion("field1"))
    assert_eq!(deserialize::<tv2::E>(&bytes).ok(), Some(tv2::E::V(1, 5)));
}
