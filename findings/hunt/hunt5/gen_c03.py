#!/usr/bin/env python3
"""Generates a differential test for C03: random legal evolution histories, every (writer, reader) version pair,
top level and embedded, compared against a small reference model of the documented outcomes."""
import random
import sys

seed = int(sys.argv[1]) if len(sys.argv) > 1 else 1
n_hist = int(sys.argv[2]) if len(sys.argv) > 2 else 60
allow_opt_after_reuse = (sys.argv[3] == "1") if len(sys.argv) > 3 else False
shape = sys.argv[4] if len(sys.argv) > 4 else "struct"  # struct | variant
rnd = random.Random(seed)

TYPES = ["u8", "u32", "String", "Vec<u16>", "Inner"]


def lit(ty, n):
    if ty == "u8":
        return f"{(n * 37 + 11) % 250 + 1}u8"
    if ty == "u32":
        return f"{0xA0B0C000 + n * 7919}u32"
    if ty == "String":
        return f"\"s{n}\".to_string()"
    if ty == "Vec<u16>":
        return f"vec![{n % 60000}u16, {(n * 3) % 60000}u16]"
    if ty == "Inner":
        return f"Inner {{ p: {n % 200}u8, q: Some({n * 13 % 65000}u16) }}"
    raise Exception(ty)


class Field:
    def __init__(self, fid, name, ty, added_at, opt_from_start, default_none=False):
        self.fid = fid
        self.name = name
        self.ty = ty
        self.added_at = added_at  # 0 = initial
        self.opt_from_start = opt_from_start
        self.opt_at = None
        self.removed_at = None
        self.transient_at = None  # step at which made transient (0 = transient from the start)
        self.default_none = default_none
        self.touched_reuse = False

    def is_opt(self, v):
        return self.opt_from_start or (self.opt_at is not None and self.opt_at <= v)

    def live(self, v):  # present in the declaration at version v
        return self.added_at <= v and (self.removed_at is None or self.removed_at > v)

    def transient(self, v):
        return self.transient_at is not None and self.transient_at <= v

    def serialized(self, v):
        return self.live(v) and not self.transient(v)

    def chunk(self):
        return self.added_at

    def rtype(self, v):
        return f"Option<{self.ty}>" if self.is_opt(v) else self.ty

    def default_expr(self, v):
        d = lit(self.ty, 900 + self.fid)
        if self.is_opt(v):
            return "None" if self.default_none else f"Some({d})"
        return d


class History:
    def __init__(self, hid):
        self.hid = hid
        self.fields = []
        self.steps = []  # (kind, fid)
        self.decls = []  # per version: list of fids in declaration order
        self.names_used = set()

    def fresh_name(self):
        i = 0
        while True:
            n = f"f{i}"
            if n not in self.names_used:
                return n
            i += 1


def gen_history(hid):
    h = History(hid)
    decl = []
    n0 = rnd.randint(0, int(__import__("os").environ.get("MAXF0", "3")))
    for i in range(n0):
        f = Field(len(h.fields), (f"field{len(decl)}" if shape == "tuple" else h.fresh_name()), rnd.choice(TYPES), 0, rnd.random() < 0.25)
        h.names_used.add(f.name)
        h.fields.append(f)
        decl.append(f.fid)
    # transient from the start
    if rnd.random() < 0.4:
        f = Field(len(h.fields), (f"field{len(decl)}" if shape == "tuple" else "tr" + str(len(h.fields))), rnd.choice(TYPES), 0, rnd.random() < 0.3)
        f.transient_at = 0
        h.names_used.add(f.name)
        h.fields.append(f)
        decl.insert(len(decl) if shape == "tuple" else rnd.randint(0, len(decl)), f.fid)
    h.decls.append(list(decl))
    nsteps = rnd.randint(1, int(__import__("os").environ.get("MAXSTEPS", "5")))
    removed_names = []  # names free for reuse
    for s in range(1, nsteps + 1):
        live_ser = [h.fields[fid] for fid in decl if h.fields[fid].serialized(s - 1)]
        # candidates
        cands = ["add"]
        optable = [f for f in live_ser if not f.is_opt(s - 1) and (allow_opt_after_reuse or not f.touched_reuse)]
        if optable:
            cands += ["opt", "opt"]
        # removable: last serialized of its chunk
        removable = []
        chunk0 = [f for f in live_ser if f.chunk() == 0]
        if chunk0:
            removable.append(chunk0[-1])
        removable += [f for f in live_ser if f.chunk() != 0]
        if shape == "tuple":
            removable_rm = [f for f in removable if decl and decl[-1] == f.fid]
        else:
            removable_rm = removable
        if removable_rm:
            cands += ["remove"]
        if removable:
            cands += ["transient"]
        kind = rnd.choice(cands)
        if kind == "add":
            if shape == "tuple":
                name = f"field{len(decl)}"
                reuse = name in h.names_used
                if name in removed_names:
                    removed_names.remove(name)
            elif removed_names and rnd.random() < 0.5:
                name = rnd.choice(removed_names)
                removed_names.remove(name)
                reuse = True
            else:
                name = h.fresh_name()
                reuse = False
            opt = rnd.random() < 0.35
            f = Field(len(h.fields), name, rnd.choice(TYPES), s, opt, default_none=(opt and rnd.random() < 0.5))
            f.touched_reuse = reuse
            h.names_used.add(name)
            h.fields.append(f)
            decl.insert(len(decl) if shape == "tuple" else rnd.randint(0, len(decl)), f.fid)
            h.steps.append(("FieldAdded", f.fid))
        elif kind == "opt":
            f = rnd.choice(optable)
            f.opt_at = s
            h.steps.append(("FieldMadeOptional", f.fid))
        elif kind == "remove":
            f = rnd.choice(removable_rm)
            f.removed_at = s
            decl.remove(f.fid)
            removed_names.append(f.name)
            h.steps.append(("FieldRemoved", f.fid))
        elif kind == "transient":
            f = rnd.choice(removable)
            f.transient_at = s
            h.steps.append(("FieldMadeTransient", f.fid))
        h.decls.append(list(decl))
    return h


def evolution_attr(h, v):
    parts = []
    for s in range(1, v + 1):
        kind, fid = h.steps[s - 1]
        f = h.fields[fid]
        if kind == "FieldAdded":
            parts.append(f"FieldAdded(\"{f.name}\", {f.default_expr(v)})")
        else:
            parts.append(f"{kind}(\"{f.name}\")")
    if not parts:
        return ""
    return f"#[evolution({', '.join(parts)})]"


def transient_default(f, v):
    d = lit(f.ty, 700 + f.fid)
    return f"Some({d})" if f.is_opt(v) else d


def decl_fields(h, v):
    out = []
    for fid in h.decls[v]:
        f = h.fields[fid]
        attr = f"#[transient({transient_default(f, v)})] " if f.transient(v) else ""
        out.append((attr, f.name, f.rtype(v)))
    return out


def emit_types(h, out):
    for v in range(len(h.decls)):
        out.append(f"mod h{h.hid}_v{v} {{")
        out.append("    use super::*;")
        out.append("    #[derive(Debug, PartialEq, Clone, BinaryCodec)]")
        if shape == "struct":
            ev = evolution_attr(h, v)
            if ev:
                out.append("    " + ev)
            out.append("    pub struct Rec {")
            for attr, name, ty in decl_fields(h, v):
                out.append(f"        {attr}pub {name}: {ty},")
            out.append("    }")
        elif shape == "tuple":
            out.append("    pub enum Rec {")
            out.append("        A,")
            ev = evolution_attr(h, v)
            if ev:
                out.append("        " + ev)
            if decl_fields(h, v):
                out.append("        V(")
                for attr, name, ty in decl_fields(h, v):
                    out.append(f"            {attr}{ty},")
                out.append("        ),")
            else:
                out.append("        V {},")
            out.append("        B(u8),")
            out.append("    }")
        else:
            out.append("    pub enum Rec {")
            out.append("        A,")
            ev = evolution_attr(h, v)
            if ev:
                out.append("        " + ev)
            out.append("        V {")
            for attr, name, ty in decl_fields(h, v):
                out.append(f"            {attr}{name}: {ty},")
            out.append("        },")
            out.append("        B(u8),")
            out.append("    }")
        out.append("}")


def ctor(h, v, assigns):
    body = ", ".join(f"{n}: {e}" for n, e in assigns)
    if shape == "struct":
        return f"h{h.hid}_v{v}::Rec {{ {body} }}"
    if shape == "tuple":
        if not assigns:
            return f"h{h.hid}_v{v}::Rec::V {{}}"
        return f"h{h.hid}_v{v}::Rec::V({', '.join(e for n, e in assigns)})"
    return f"h{h.hid}_v{v}::Rec::V {{ {body} }}"


def value_at(h, w, mode):
    """returns (rust expr, {fid: (is_some, base literal)})"""
    assigns = []
    vals = {}
    for fid in h.decls[w]:
        f = h.fields[fid]
        base = lit(f.ty, 100 + f.fid + (50 if mode == 1 else 0))
        if f.transient(w):
            # give it a non-default value: it must not reach the wire
            e = f"Some({base})" if f.is_opt(w) else base
            assigns.append((f.name, e))
            continue
        if f.is_opt(w):
            some = (mode == 0) or (mode == 2 and f.fid % 2 == 0)
            e = f"Some({base})" if some else "None"
            vals[fid] = (some, base)
        else:
            e = base
            vals[fid] = (True, base)
        assigns.append((f.name, e))
    return ctor(h, w, assigns), vals


def expected(h, w, r, vals):
    """returns ('ok', expr) or ('err', prefix)"""
    assigns = []
    for fid in h.decls[r]:
        f = h.fields[fid]
        if f.transient(r):
            assigns.append((f.name, transient_default(f, r)))
            continue
        if f.serialized(w):
            some, base = vals[fid]
            wo, ro = f.is_opt(w), f.is_opt(r)
            if not wo and not ro:
                e = base
            elif not wo and ro:
                e = f"Some({base})"
            elif wo and not ro:
                if some:
                    e = base
                else:
                    return ("err", f"NonOptionalFieldSerializedAsNone(\"{f.name}\")")
            else:
                e = f"Some({base})" if some else "None"
            assigns.append((f.name, e))
        elif f.added_at > w:
            assigns.append((f.name, f.default_expr(r)))
        else:
            # removed or made transient at or before w
            if f.is_opt(r):
                assigns.append((f.name, "None"))
            else:
                return ("err", f"FieldRemovedInSerializedVersion(\"{f.name}\")")
    return ("ok", ctor(h, r, assigns))


def excluded_embedded(h, w, r):
    # stored version 0 has no framing: excluded when the reader does not consume everything the writer wrote
    if w != 0:
        return False
    for f in h.fields:
        if f.serialized(0) and not f.serialized(r):
            return True
    return False


def emit_tests(h, out):
    out.append("#[test]")
    out.append(f"fn h{h.hid}() {{")
    out.append("    let mut fails: Vec<String> = Vec::new();")
    nv = len(h.decls)
    desc = "; ".join(f"{k}({h.fields[fid].name}:{h.fields[fid].ty}{'?' if h.fields[fid].opt_from_start else ''})" for k, fid in h.steps)
    out.append(f"    // history: {desc}")
    for w in range(nv):
        for mode in (0, 1, 2):
            vexpr, vals = value_at(h, w, mode)
            out.append("    {")
            out.append(f"        let v = {vexpr};")
            out.append("        let top = serialize_to_byte_vec(&v).unwrap();")
            out.append("        let emb = serialize_to_byte_vec(&(0x5Au8, v.clone(), \"tail\".to_string(), 0xC3u8)).unwrap();")
            for r in range(nv):
                kind, e = expected(h, w, r, vals)
                label = f"h{h.hid} w{w} r{r} m{mode}"
                if kind == "ok":
                    out.append(f"        check_ok(\"{label} top\", deserialize::<h{h.hid}_v{r}::Rec>(&top), {e}, &mut fails);")
                    if not excluded_embedded(h, w, r):
                        out.append(f"        check_ok(\"{label} emb\", deserialize::<(u8, h{h.hid}_v{r}::Rec, String, u8)>(&emb), (0x5Au8, {e}, \"tail\".to_string(), 0xC3u8), &mut fails);")
                else:
                    esc = e.replace('"', '\\"')
                    out.append(f"        check_err(\"{label} top\", deserialize::<h{h.hid}_v{r}::Rec>(&top), \"{esc}\", &mut fails);")
                    if not excluded_embedded(h, w, r):
                        out.append(f"        check_err(\"{label} emb\", deserialize::<(u8, h{h.hid}_v{r}::Rec, String, u8)>(&emb), \"{esc}\", &mut fails);")
            out.append("    }")
    out.append("    assert!(fails.is_empty(), \"{}\", fails.join(\"\\n\"));")
    out.append("}")


PRELUDE = """// GENERATED by /tmp/hunt5/gen_c03.py - differential check of C03 against a reference model
#![allow(dead_code, unused_variables, non_snake_case, clippy::all)]
use desert_core::*;
use desert_macro::BinaryCodec;
use std::fmt::Debug;

mod desert {
    pub use desert_core::*;
}

#[derive(Debug, PartialEq, Clone, BinaryCodec)]
#[evolution(FieldAdded("q", None))]
pub struct Inner {
    pub p: u8,
    pub q: Option<u16>,
}

fn check_ok<T: Debug + PartialEq>(label: &str, actual: Result<T>, expected: T, fails: &mut Vec<String>) {
    match actual {
        Ok(a) if a == expected => {}
        other => fails.push(format!("{label}: expected Ok({expected:?}), got {other:?}")),
    }
}

fn check_err<T: Debug + PartialEq>(label: &str, actual: Result<T>, expected: &str, fails: &mut Vec<String>) {
    match actual {
        Err(e) if format!("{e:?}").starts_with(expected) => {}
        other => fails.push(format!("{label}: expected Err({expected}), got {other:?}")),
    }
}
"""

out = [PRELUDE]
for i in range(n_hist):
    h = gen_history(i)
    emit_types(h, out)
    emit_tests(h, out)
print("\n".join(out))
