#![allow(dead_code)]
use desert_core::*;
use desert_macro::BinaryCodec;
use std::collections::{BTreeMap, HashMap};

mod desert {
    pub use desert_core::*;
}

#[derive(Debug, PartialEq, BinaryCodec, Clone)]
#[evolution(FieldAdded("c", None), FieldMadeOptional("b"), FieldRemoved("zz"), FieldAdded("e", E::A))]
struct S {
    a: u8,
    b: Option<String>,
    c: Option<Box<S>>,
    #[transient(3)]
    t: u8,
    e: E,
    m: BTreeMap<String, (u8, Option<u16>)>,
    h: HashMap<u8, Vec<u8>>,
    r: std::result::Result<[u8; 3], [u16; 2]>,
    ds: Vec<char>,
}

#[derive(Debug, PartialEq, BinaryCodec, Clone)]
#[sorted_constructors]
enum E {
    A,
    #[evolution(FieldAdded("field1", 0), FieldMadeOptional("field0"))]
    C(Option<u32>, i64),
    #[transient]
    B,
    #[evolution(FieldRemoved("gone"), FieldAdded("y", None))]
    D { x: Vec<E>, y: Option<Box<E>> },
}

struct Rng(u64);
impl Rng {
    fn next(&mut self) -> u64 {
        self.0 ^= self.0 << 13;
        self.0 ^= self.0 >> 7;
        self.0 ^= self.0 << 17;
        self.0
    }
}

#[test]
fn mutate() {
    let inner = S {
        a: 1,
        b: Some("hello".into()),
        c: None,
        t: 3,
        e: E::D { x: vec![E::A, E::C(Some(5), -1)], y: Some(Box::new(E::A)) },
        m: BTreeMap::from_iter([("k".to_string(), (1, Some(2)))]),
        h: HashMap::from_iter([(1, vec![1, 2, 3])]),
        r: Err([1, 2]),
        ds: vec!['a', 'é'],
    };
    let mut outer = inner.clone();
    outer.c = Some(Box::new(inner));
    outer.r = Ok([1, 2, 3]);
    let bytes = serialize_to_byte_vec(&outer).unwrap();
    assert_eq!(deserialize::<S>(&bytes).unwrap(), outer);
    println!("len {}", bytes.len());
    let mut rng = Rng(0x1234567);
    let mut oks = 0;
    for _ in 0..2_000_000 {
        let mut b = bytes.clone();
        let n = 1 + rng.next() % 3;
        for _ in 0..n {
            let i = (rng.next() % b.len() as u64) as usize;
            match rng.next() % 4 {
                0 => b[i] = rng.next() as u8,
                1 => b[i] ^= 1 << (rng.next() % 8),
                2 => {
                    b.truncate(i);
                    if b.is_empty() {
                        b.push(0)
                    }
                }
                _ => b[i] = [0u8, 1, 0x7f, 0x80, 0xff, 2, 3, 4][(rng.next() % 8) as usize],
            }
        }
        if let Ok(v) = deserialize::<S>(&b) {
            oks += 1;
            // whatever decodes must re-encode and decode to itself
            let again = serialize_to_byte_vec(&v).unwrap();
            assert_eq!(deserialize::<S>(&again).unwrap(), v);
        }
    }
    println!("oks {oks}");
}
