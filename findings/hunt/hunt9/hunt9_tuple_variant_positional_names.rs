// C02 (round-trip fidelity of derived codecs; "each field routed to the chunk of the step that added it").
//
// The elements of a tuple variant have no names of their own: the derive macro names them by their
// *current* index ("field0", "field1", ...). Removing an element that is not the last one therefore
// renames every later element, although the evolution steps that describe those elements keep the old
// names. The removal below is legal as far as the wire format goes (the removed element is the only -
// hence the last - field of chunk 0, its successor lives in chunk 1), and the macro accepts the
// declaration, but
//   * the value does not survive a round trip through its own definition, and
//   * data written by the previous version is decoded to a wrong value without any error.
use desert_core::*;
use desert_macro::BinaryCodec;

mod desert {
    pub use desert_core::*;
}

mod v1 {
    use super::*;

    #[derive(Debug, PartialEq, BinaryCodec)]
    pub enum E {
        // version 1: a second element was added
        #[evolution(FieldAdded("field1", 9u8))]
        V(String, u8),
    }
}

mod v2 {
    use super::*;

    #[derive(Debug, PartialEq, BinaryCodec)]
    pub enum E {
        // version 2: the first element was removed; what remains is the element added in version 1
        #[evolution(FieldAdded("field1", 9u8), FieldRemoved("field0"))]
        V(u8),
    }
}

// the same history on a struct variant (names are stable there) - this is what the tuple variant should do
mod named {
    use super::*;

    #[derive(Debug, PartialEq, BinaryCodec)]
    pub enum E1 {
        #[evolution(FieldAdded("b", 9u8))]
        V { a: String, b: u8 },
    }

    #[derive(Debug, PartialEq, BinaryCodec)]
    pub enum E2 {
        #[evolution(FieldAdded("b", 9u8), FieldRemoved("a"))]
        V { b: u8 },
    }
}

#[test]
fn control_struct_variant_with_the_same_history_works() {
    let bytes = serialize_to_byte_vec(&named::E2::V { b: 5 }).unwrap();
    assert_eq!(deserialize::<named::E2>(&bytes).unwrap(), named::E2::V { b: 5 });

    let old = serialize_to_byte_vec(&named::E1::V {
        a: "abc".to_string(),
        b: 7,
    })
    .unwrap();
    assert_eq!(deserialize::<named::E2>(&old).unwrap(), named::E2::V { b: 7 });
}

#[test]
fn tuple_variant_round_trips_through_its_own_definition() {
    let value = v2::E::V(5);
    let bytes = serialize_to_byte_vec(&value).unwrap();
    // actual: Err(FieldRemovedInSerializedVersion("field0"))
    let back = deserialize::<v2::E>(&bytes);
    assert_eq!(back.ok(), Some(value));
}

#[test]
fn tuple_variant_routes_the_remaining_element_to_the_chunk_of_the_step_that_added_it() {
    // same layout as the struct variant with the same history (the names only appear in the FieldRemoved step)
    let tuple = serialize_to_byte_vec(&v2::E::V(5)).unwrap();
    // [enum version 0, constructor 0, version 2, chunk0 size 0, chunk1 size 1, FieldRemoved(name of 6 bytes), 5]
    let expected: Vec<u8> = vec![0, 0, 2, 0, 2, 3, 12, b'f', b'i', b'e', b'l', b'd', b'0', 5];
    // actual: [0, 0, 2, 2, 0, 3, 12, 'f','i','e','l','d','0', 5] - the element is written to chunk 0
    assert_eq!(tuple, expected);
}

#[test]
fn tuple_variant_reads_data_of_the_previous_version() {
    let old = serialize_to_byte_vec(&v1::E::V("abc".to_string(), 7)).unwrap();
    // actual: Ok(V(6)) - the zig-zag length byte of "abc" in chunk 0 is taken for the element
    assert_eq!(deserialize::<v2::E>(&old).ok(), Some(v2::E::V(7)));
}
