// scratch: random legal histories, all writer/reader pairs, oracle from first principles
use desert_core::adt::{AdtDeserializer, AdtMetadata, AdtSerializer};
use desert_core::*;

struct Rng(u64);
impl Rng {
    fn next(&mut self) -> u64 {
        self.0 ^= self.0 << 13;
        self.0 ^= self.0 >> 7;
        self.0 ^= self.0 << 17;
        self.0
    }
    fn below(&mut self, n: usize) -> usize {
        (self.next() % n as u64) as usize
    }
}

#[derive(Clone, Debug, PartialEq)]
enum Ty {
    U8,
    Str,
}

#[derive(Clone, Debug, PartialEq)]
enum Val {
    U8(u8),
    Str(String),
}

#[derive(Clone, Debug)]
struct Life {
    name: String,
    ty: Ty,
    added: usize,                // step index (0 = initial)
    optional_since: Option<usize>, // step index; Some(0)/Some(added) = optional from the start
    removed_at: Option<usize>,
    transient_at: Option<usize>,
    default: Val, // FieldAdded default (plain value; wrapped in Some when the reader sees it optional)
    decl_pos: usize, // ordering key in the declaration
}

#[derive(Clone, Debug)]
enum Step {
    Initial,
    Added(String),
    MadeOptional(String),
    Removed(String),
    MadeTransient(String),
}

fn metadata(steps: &[Step], upto: usize) -> AdtMetadata {
    let evs = steps[..=upto]
        .iter()
        .map(|s| match s {
            Step::Initial => Evolution::InitialVersion,
            Step::Added(n) => Evolution::FieldAdded { name: n.clone() },
            Step::MadeOptional(n) => Evolution::FieldMadeOptional { name: n.clone() },
            Step::Removed(n) => Evolution::FieldRemoved { name: n.clone() },
            Step::MadeTransient(n) => Evolution::FieldMadeTransient { name: n.clone() },
        })
        .collect();
    AdtMetadata::new(evs)
}

impl Life {
    fn live(&self, k: usize) -> bool {
        self.added <= k && self.removed_at.map_or(true, |r| r > k)
    }
    fn transient(&self, k: usize) -> bool {
        self.transient_at.map_or(false, |t| t <= k)
    }
    fn optional(&self, k: usize) -> bool {
        self.optional_since.map_or(false, |o| o <= k)
    }
}

fn decl(lives: &[Life], k: usize) -> Vec<&Life> {
    let mut v: Vec<&Life> = lives.iter().filter(|l| l.live(k)).collect();
    v.sort_by_key(|l| l.decl_pos);
    v
}

fn encode(lives: &[Life], steps: &[Step], k: usize, values: &[Option<Val>]) -> Result<Vec<u8>> {
    let md = metadata(steps, k);
    let mut ctx = SerializationContext::new(Vec::new());
    {
        let mut ser = if k == 0 {
            AdtSerializer::new_v0(&md, &mut ctx)
        } else {
            AdtSerializer::new(&md, &mut ctx)
        };
        for l in decl(lives, k) {
            if l.transient(k) {
                continue;
            }
            let idx = lives.iter().position(|x| std::ptr::eq(x, l)).unwrap();
            let v = &values[idx];
            if l.optional(k) {
                match (&l.ty, v) {
                    (Ty::U8, Some(Val::U8(x))) => ser.write_field(&l.name, &Some(*x))?,
                    (Ty::U8, None) => ser.write_field(&l.name, &None::<u8>)?,
                    (Ty::Str, Some(Val::Str(x))) => ser.write_field(&l.name, &Some(x.clone()))?,
                    (Ty::Str, None) => ser.write_field(&l.name, &None::<String>)?,
                    _ => unreachable!(),
                }
            } else {
                match (&l.ty, v) {
                    (Ty::U8, Some(Val::U8(x))) => ser.write_field(&l.name, x)?,
                    (Ty::Str, Some(Val::Str(x))) => ser.write_field(&l.name, x)?,
                    _ => unreachable!(),
                }
            }
        }
        ser.finish()?;
    }
    // trailing sentinel to detect over/under-reads
    ctx.write_u8(0xEE);
    Ok(ctx.into_output())
}

// decoded value per declared field: Plain(v) or Opt(Option<v>)
#[derive(Debug, PartialEq, Clone)]
enum Dec {
    Plain(Val),
    Opt(Option<Val>),
    TransientDefault,
}

fn decode(lives: &[Life], steps: &[Step], k: usize, bytes: &[u8]) -> Result<(Vec<Dec>, u8)> {
    let md = metadata(steps, k);
    let mut ctx = DeserializationContext::new(bytes);
    let stored = ctx.read_u8()?;
    let mut out = Vec::new();
    {
        let mut de = if stored == 0 {
            AdtDeserializer::new_v0(&md, &mut ctx)?
        } else {
            AdtDeserializer::new(&md, &mut ctx, stored)?
        };
        for l in decl(lives, k) {
            if l.transient(k) {
                out.push(Dec::TransientDefault);
                continue;
            }
            let has_default = l.added > 0;
            if l.optional(k) {
                match l.ty {
                    Ty::U8 => {
                        let d = if has_default {
                            match &l.default {
                                Val::U8(x) => Some(Some(*x)),
                                _ => unreachable!(),
                            }
                        } else {
                            None
                        };
                        let v: Option<u8> = de.read_optional_field(&l.name, d)?;
                        out.push(Dec::Opt(v.map(Val::U8)));
                    }
                    Ty::Str => {
                        let d = if has_default {
                            match &l.default {
                                Val::Str(x) => Some(Some(x.clone())),
                                _ => unreachable!(),
                            }
                        } else {
                            None
                        };
                        let v: Option<String> = de.read_optional_field(&l.name, d)?;
                        out.push(Dec::Opt(v.map(Val::Str)));
                    }
                }
            } else {
                match l.ty {
                    Ty::U8 => {
                        let d = if has_default {
                            match &l.default {
                                Val::U8(x) => Some(*x),
                                _ => unreachable!(),
                            }
                        } else {
                            None
                        };
                        let v: u8 = de.read_field(&l.name, d)?;
                        out.push(Dec::Plain(Val::U8(v)));
                    }
                    Ty::Str => {
                        let d = if has_default {
                            match &l.default {
                                Val::Str(x) => Some(x.clone()),
                                _ => unreachable!(),
                            }
                        } else {
                            None
                        };
                        let v: String = de.read_field(&l.name, d)?;
                        out.push(Dec::Plain(Val::Str(v)));
                    }
                }
            }
        }
    }
    let sentinel = ctx.read_u8()?;
    Ok((out, sentinel))
}

// oracle: None = must be Err
fn expected(lives: &[Life], i: usize, j: usize, values: &[Option<Val>]) -> Option<Vec<Dec>> {
    let mut out = Vec::new();
    for l in decl(lives, j) {
        if l.transient(j) {
            out.push(Dec::TransientDefault);
            continue;
        }
        let idx = lives.iter().position(|x| std::ptr::eq(x, l)).unwrap();
        let serialized_by_writer = l.live(i) && !l.transient(i);
        if !serialized_by_writer {
            if l.added > i {
                // reader is newer
                if l.optional(j) {
                    out.push(Dec::Opt(Some(l.default.clone())));
                } else {
                    out.push(Dec::Plain(l.default.clone()));
                }
            } else {
                // removed / made transient by the writer
                if l.optional(j) {
                    out.push(Dec::Opt(None));
                } else {
                    return None;
                }
            }
        } else {
            let v = values[idx].clone();
            match (l.optional(i), l.optional(j)) {
                (true, true) => out.push(Dec::Opt(v)),
                (false, true) => out.push(Dec::Opt(Some(v.unwrap()))),
                (false, false) => out.push(Dec::Plain(v.unwrap())),
                (true, false) => match v {
                    Some(v) => out.push(Dec::Plain(v)),
                    None => return None,
                },
            }
        }
    }
    Some(out)
}

fn gen_val(rng: &mut Rng, ty: &Ty) -> Val {
    match ty {
        Ty::U8 => Val::U8(rng.below(256) as u8),
        Ty::Str => {
            let n = rng.below(4);
            Val::Str((0..n).map(|_| (b'a' + rng.below(26) as u8) as char).collect())
        }
    }
}

fn run(seed: u64, positional: bool) -> usize {
    let mut rng = Rng(seed.wrapping_mul(0x9E3779B97F4A7C15) | 1);
    let mut lives: Vec<Life> = Vec::new();
    let mut steps = vec![Step::Initial];
    let names = ["a", "b", "c", "d", "e"];
    let n0 = rng.below(4);
    let mut next_pos = 0usize;
    let fresh_name = |lives: &Vec<Life>, k: usize, rng: &mut Rng, next_pos: usize| -> Option<String> {
        if positional {
            // tuple variant: appended element gets the next index among live ones
            let n = lives.iter().filter(|l| l.live(k)).count();
            let _ = next_pos;
            Some(format!("field{n}"))
        } else {
            let cands: Vec<&str> = names
                .iter()
                .copied()
                .filter(|n| !lives.iter().any(|l| l.live(k) && l.name == *n))
                .collect();
            if cands.is_empty() {
                None
            } else {
                Some(cands[rng.below(cands.len())].to_string())
            }
        }
    };
    for _ in 0..n0 {
        let name = fresh_name(&lives, 0, &mut rng, next_pos).unwrap();
        let ty = if rng.below(2) == 0 { Ty::U8 } else { Ty::Str };
        let opt = rng.below(3) == 0;
        let tr = rng.below(6) == 0;
        let default = gen_val(&mut rng, &ty);
        lives.push(Life {
            name,
            ty,
            added: 0,
            optional_since: if opt { Some(0) } else { None },
            removed_at: None,
            transient_at: if tr { Some(0) } else { None },
            default,
            decl_pos: next_pos * 1000,
        });
        next_pos += 1;
    }
    let nsteps = rng.below(7);
    for _ in 0..nsteps {
        let k = steps.len(); // index of the new step
        let cur = k - 1;
        let choice = rng.below(4);
        match choice {
            0 => {
                if let Some(name) = fresh_name(&lives, cur, &mut rng, next_pos) {
                    let ty = if rng.below(2) == 0 { Ty::U8 } else { Ty::Str };
                    let opt = rng.below(3) == 0;
                    let default = gen_val(&mut rng, &ty);
                    lives.push(Life {
                        name: name.clone(),
                        ty,
                        added: k,
                        optional_since: if opt { Some(k) } else { None },
                        removed_at: None,
                        transient_at: None,
                        default,
                        decl_pos: if positional { next_pos * 1000 } else { rng.below(next_pos * 1000 + 1) + 1 },
                    });
                    next_pos += 1;
                    steps.push(Step::Added(name));
                }
            }
            1 => {
                let cands: Vec<usize> = (0..lives.len())
                    .filter(|&x| lives[x].live(cur) && !lives[x].transient(cur) && !lives[x].optional(cur))
                    .collect();
                if !cands.is_empty() {
                    let x = cands[rng.below(cands.len())];
                    lives[x].optional_since = Some(k);
                    steps.push(Step::MadeOptional(lives[x].name.clone()));
                }
            }
            _ => {
                // remove / make transient: only the last serialized field of its chunk; for positional
                // declarations removal additionally has to be the last element of the tuple
                let cands: Vec<usize> = (0..lives.len())
                    .filter(|&x| {
                        let l = &lives[x];
                        if !(l.live(cur) && !l.transient(cur)) {
                            return false;
                        }
                        if l.added > 0 {
                            true
                        } else {
                            // last serialized chunk-0 field
                            !lives.iter().any(|o| {
                                o.added == 0 && o.live(cur) && !o.transient(cur) && o.decl_pos > l.decl_pos
                            })
                        }
                    })
                    .collect();
                if !cands.is_empty() {
                    let x = cands[rng.below(cands.len())];
                    let make_transient = choice == 3;
                    if make_transient {
                        lives[x].transient_at = Some(k);
                        steps.push(Step::MadeTransient(lives[x].name.clone()));
                    } else {
                        if positional {
                            let last = lives.iter().filter(|l| l.live(cur)).map(|l| l.decl_pos).max().unwrap();
                            if lives[x].decl_pos != last {
                                continue;
                            }
                        }
                        lives[x].removed_at = Some(k);
                        steps.push(Step::Removed(lives[x].name.clone()));
                    }
                }
            }
        }
    }
    let nver = steps.len();
    let mut checked = 0;
    for i in 0..nver {
        // values for writer version i
        let values: Vec<Option<Val>> = lives
            .iter()
            .map(|l| {
                if l.optional(i) && rng.below(3) == 0 {
                    None
                } else {
                    Some(gen_val(&mut rng, &l.ty))
                }
            })
            .collect();
        let bytes = match encode(&lives, &steps, i, &values) {
            Ok(b) => b,
            Err(e) => panic!("seed {seed} positional {positional}: encode v{i} failed {e:?}\nsteps {steps:?}\nlives {lives:?}"),
        };
        for j in 0..nver {
            let exp = expected(&lives, i, j, &values);
            let act = decode(&lives, &steps, j, &bytes);
            let ok = match (&exp, &act) {
                (None, Err(_)) => true,
                (Some(e), Ok((a, s))) => e == a && (i == 0 || *s == 0xEE),
                _ => false,
            };
            if !ok {
                panic!(
                    "seed {seed} positional {positional}: writer v{i} reader v{j}\nexpected {exp:?}\nactual {act:?}\nbytes {bytes:?}\nsteps {steps:?}\nlives {lives:?}\nvalues {values:?}"
                );
            }
            checked += 1;
        }
    }
    checked
}

#[test]
fn fuzz_named() {
    let mut n = 0;
    for seed in 1..20000u64 {
        n += run(seed, false);
    }
    println!("checked {n}");
}

#[test]
fn fuzz_positional() {
    let mut n = 0;
    for seed in 1..20000u64 {
        n += run(seed, true);
    }
    println!("checked {n}");
}
