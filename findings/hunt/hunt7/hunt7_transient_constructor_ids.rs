// C04 (wire format, "index-prefixed enum constructors"): in the desert format a transient
// constructor takes no constructor id - the Scala implementation numbers
// `cases.filterNot(isTransient)` - so adding or removing a transient constructor never shifts
// the ids of the serializable ones. The derive macro numbers every variant, transient ones included.
#![allow(dead_code)]

use desert_core::{deserialize, serialize_to_byte_vec};
use desert_macro::BinaryCodec;

mod desert {
    pub use desert_core::*;
}

#[derive(Debug, PartialEq, BinaryCodec)]
enum WithTransientFirst {
    #[transient]
    Cache,
    A,
    B(u8),
}

#[derive(Debug, PartialEq, BinaryCodec)]
enum Plain {
    A,
    B(u8),
}

#[test]
fn transient_constructor_does_not_take_a_constructor_id() {
    // enum version 0, constructor id 0 (first non-transient constructor), case version 0
    assert_eq!(serialize_to_byte_vec(&Plain::A).unwrap(), vec![0, 0, 0]);
    assert_eq!(
        serialize_to_byte_vec(&WithTransientFirst::A).unwrap(),
        vec![0, 0, 0],
        "A is the first serializable constructor: id 0"
    );
    assert_eq!(
        serialize_to_byte_vec(&WithTransientFirst::B(7)).unwrap(),
        vec![0, 1, 0, 7],
        "B is the second serializable constructor: id 1"
    );
}

#[test]
fn data_written_without_the_transient_constructor_still_reads() {
    // what the format prescribes for B(7) (and what `Plain`, the same type without the transient case, writes)
    let bytes = serialize_to_byte_vec(&Plain::B(7)).unwrap();
    assert_eq!(bytes, vec![0, 1, 0, 7]);
    let read: WithTransientFirst = deserialize(&bytes).expect("well-formed encoding of B(7)");
    assert_eq!(read, WithTransientFirst::B(7));
}
