// C17 ("lengths that do not fit the format's 31-bit counts ... are all reported through the
// error type") and C04 ("raw-length byte arrays"): the length of a byte array is a JVM Int in the
// desert format (a variable-length int written with optimizeForPositive = true), so 2^31 - 1 is
// the largest length that can be expressed. Strings, sequences and chunk sizes are checked
// against i32, but the byte-array fast path (Vec<u8>, Bytes, [u8], [u8; L]) converts the length
// to u32 and accepts 2^31 ..= 2^32 - 1: it emits the five-byte group 80 80 80 80 08, which a
// reader of the format takes for the length -2147483648.
//
// The vector is never touched (calloc'ed, and SizeCalculator only looks at lengths), so the test
// costs no memory.

use desert_core::{serialize, Error, SizeCalculator};

const TOO_LONG: usize = 1 << 31; // i32::MAX + 1

#[test]
fn the_same_count_is_refused_for_a_sequence_of_i8() {
    let v: Vec<i8> = vec![0i8; TOO_LONG];
    assert!(matches!(
        serialize(&v, SizeCalculator::new()),
        Err(Error::LengthTooLarge)
    ));
}

#[test]
fn byte_vector_longer_than_i32_max_is_reported() {
    let v: Vec<u8> = vec![0u8; TOO_LONG];
    let result = serialize(&v, SizeCalculator::new());
    assert!(
        matches!(result, Err(Error::LengthTooLarge)),
        "a byte array of 2^31 bytes was encoded ({:?} bytes) instead of being refused",
        result.ok().map(|s| s.size())
    );
}

#[test]
fn bytes_longer_than_i32_max_is_reported() {
    let b = bytes::Bytes::from(vec![0u8; TOO_LONG]);
    let result = serialize(&b, SizeCalculator::new());
    assert!(
        matches!(result, Err(Error::LengthTooLarge)),
        "a Bytes of 2^31 bytes was encoded ({:?} bytes) instead of being refused",
        result.ok().map(|s| s.size())
    );
}

#[test]
fn byte_slice_longer_than_i32_max_is_reported() {
    let v: Vec<u8> = vec![0u8; TOO_LONG];
    let slice: &[u8] = &v;
    let result = serialize(&slice, SizeCalculator::new());
    assert!(
        matches!(result, Err(Error::LengthTooLarge)),
        "a [u8] of 2^31 bytes was encoded ({:?} bytes) instead of being refused",
        result.ok().map(|s| s.size())
    );
}
