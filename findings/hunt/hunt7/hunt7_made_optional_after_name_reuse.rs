// C04 (records with evolution header; serialize(v) == ref_encode(T, v), and the writing definition
// reads its own output). A field name may be reused after the earlier field of that name was
// removed (repaired on the reader side in 96410ac). When the *new* field is later made optional,
// the writer still decides by name only: `removed_fields.contains(name)` is checked before the
// position of the live field is looked up, so the FieldMadeOptional step is emitted as a second
// FieldRemoved("x"). The reader (same definition) then sees a removal (step 3) that comes after
// the addition (step 2), treats the live field as removed and returns None without reading its
// chunk: Some(2) silently becomes None.
#![allow(dead_code)]

use desert_core::{deserialize, serialize_to_byte_vec};
use desert_macro::BinaryCodec;

mod desert {
    pub use desert_core::*;
}

#[derive(Debug, PartialEq, Clone, BinaryCodec)]
#[evolution(FieldRemoved("x"), FieldAdded("x", Some(5u8)), FieldMadeOptional("x"))]
struct Reused {
    a: u8,
    x: Option<u8>,
}

// the same history with a fresh name for the second field, for comparison
#[derive(Debug, PartialEq, Clone, BinaryCodec)]
#[evolution(FieldRemoved("x"), FieldAdded("y", Some(5u8)), FieldMadeOptional("y"))]
struct Fresh {
    a: u8,
    y: Option<u8>,
}

#[test]
fn fresh_name_round_trips_and_shows_the_expected_layout() {
    let bytes = serialize_to_byte_vec(&Fresh { a: 1, y: Some(2) }).unwrap();
    assert_eq!(
        bytes,
        vec![
            3,    // version
            2,    // chunk 0: 1 byte
            3, 2, b'x', // FieldRemoved("x")
            4,    // chunk 2: 2 bytes
            1, 2, // FieldMadeOptional, position = chunk 2
            1,    // chunk 0: a
            1, 2, // chunk 2: Some(2)
        ]
    );
    assert_eq!(deserialize::<Fresh>(&bytes).unwrap(), Fresh { a: 1, y: Some(2) });
}

#[test]
fn reused_name_is_written_as_made_optional() {
    let bytes = serialize_to_byte_vec(&Reused { a: 1, x: Some(2) }).unwrap();
    assert_eq!(
        bytes,
        vec![3, 2, 3, 2, b'x', 4, 1, 2, 1, 1, 2],
        "step 3 must be FieldMadeOptional(chunk 2), not a second FieldRemoved(\"x\")"
    );
}

#[test]
fn reused_name_reads_its_own_output() {
    let value = Reused { a: 1, x: Some(2) };
    let bytes = serialize_to_byte_vec(&value).unwrap();
    assert_eq!(deserialize::<Reused>(&bytes).unwrap(), value);
}
