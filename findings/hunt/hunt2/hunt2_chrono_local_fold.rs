// hunt2 finding F5 (C07: decode(encode(v)) == v for every value of a supported type; C04: "every well-formed
// encoding decodes to the value it denotes").
//
// DateTime<Local> is written as its local wall-clock date and time only (desert_core/src/features/chrono.rs:205-214)
// and read back with `Local.from_local_datetime(&naive).single()` (chrono.rs:216-225). During the hour that is
// repeated when daylight saving time ends, two different instants have the same wall clock: both encode to the
// same bytes (the encoding is not injective) and `.single()` is None for them, so BOTH valid values are rejected
// by the decoder of the very library (and process, and time zone) that wrote them.
//
// This file contains a single test because it sets TZ for the process.
use chrono::{DateTime, Local, TimeZone, Utc};
use desert_core::*;

#[test]
fn datetime_local_in_the_repeated_hour_round_trips() {
    std::env::set_var("TZ", "Europe/Budapest"); // needs /usr/share/zoneinfo; DST ended 2023-10-29 01:00 UTC
    let first: DateTime<Local> = Utc
        .with_ymd_and_hms(2023, 10, 29, 0, 30, 0)
        .unwrap()
        .with_timezone(&Local); // 02:30 +02:00
    let second: DateTime<Local> = Utc
        .with_ymd_and_hms(2023, 10, 29, 1, 30, 0)
        .unwrap()
        .with_timezone(&Local); // 02:30 +01:00
    assert_eq!(first.offset().local_minus_utc(), 7200, "zoneinfo for Europe/Budapest is available");
    assert_eq!(second.offset().local_minus_utc(), 3600);
    assert_ne!(first, second);

    let enc_first = serialize_to_byte_vec(&first).unwrap();
    let enc_second = serialize_to_byte_vec(&second).unwrap();

    // C04/C07: different values must not share an encoding ...
    assert_ne!(enc_first, enc_second, "two different instants have the same encoding");
    // ... and each must decode to itself
    assert_eq!(deserialize::<DateTime<Local>>(&enc_first).unwrap(), first);
    assert_eq!(deserialize::<DateTime<Local>>(&enc_second).unwrap(), second);
}
