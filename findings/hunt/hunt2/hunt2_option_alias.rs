// hunt2 finding F4 (C07: decode(encode(v)) == v for every derived type, read with the writing definition).
//
// The derive decides "is this field an Option" from the spelling of the type (desert_macro/src/lib.rs:471-492,
// is_option: only `Option`, `std::option::Option`, `core::option::Option`). Any other spelling of the same type
// (type alias, `option::Option<T>` after `use std::option`, an associated type, a macro-generated path) gets
// read_field instead of read_optional_field. Combined with FieldMadeOptional the SAME definition can no longer
// read what it wrote: the writer emits Option<T> (tag + value) and a made-optional header entry, the reader
// sees the header entry, consumes the tag as the "is some" flag and then decodes T = Option<u32> again from the
// payload. The result is a silently different value, and the following field is shifted too.
use desert_core::*;
use desert_macro::BinaryCodec;
use std::option;

mod desert {
    pub use desert_core::*;
}

type Opt = Option<u32>;

#[derive(Debug, PartialEq, BinaryCodec)]
#[evolution(FieldMadeOptional("x"))]
struct WithAlias {
    x: Opt,
    y: u8,
}

#[derive(Debug, PartialEq, BinaryCodec)]
#[evolution(FieldMadeOptional("x"))]
struct WithModulePath {
    x: option::Option<u32>,
    y: u8,
}

#[test]
fn alias_of_option_round_trips() {
    let v = WithAlias { x: Some(5), y: 9 };
    let bytes = serialize_to_byte_vec(&v).unwrap();
    assert_eq!(deserialize::<WithAlias>(&bytes).unwrap(), v); // actual: WithAlias { x: None, y: 0 }
}

#[test]
fn module_qualified_option_round_trips() {
    let v = WithModulePath { x: Some(5), y: 9 };
    let bytes = serialize_to_byte_vec(&v).unwrap();
    assert_eq!(deserialize::<WithModulePath>(&bytes).unwrap(), v);
}
