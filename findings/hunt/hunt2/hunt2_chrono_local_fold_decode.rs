// hunt2 finding F5, second half: even ignoring injectivity, the value is not decodable at all.
use chrono::{DateTime, Local, TimeZone, Utc};
use desert_core::*;

#[test]
fn datetime_local_in_the_repeated_hour_is_decodable() {
    std::env::set_var("TZ", "Europe/Budapest");
    let v: DateTime<Local> = Utc
        .with_ymd_and_hms(2023, 10, 29, 0, 30, 0)
        .unwrap()
        .with_timezone(&Local);
    assert_eq!(v.offset().local_minus_utc(), 7200, "zoneinfo for Europe/Budapest is available");
    let bytes = serialize_to_byte_vec(&v).unwrap();
    let back = deserialize::<DateTime<Local>>(&bytes);
    assert!(back.is_ok(), "a value the library encoded is rejected by its decoder: {back:?}");
    assert_eq!(back.unwrap(), v);
}
