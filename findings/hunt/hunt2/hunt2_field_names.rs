// hunt2 findings F8/F9 (lower confidence; C07 for derived types): field identity in the derive is a plain string.
//
// F8: the name of a raw-identifier field is taken with its `r#` prefix (desert_macro/src/lib.rs:380-382,
//     `field_ident.to_string()`), while evolution steps are free-form string literals that are never checked
//     against the fields (lib.rs:8-90). `FieldAdded("type", ..)` on a field spelled `r#type` is accepted and
//     silently has no effect: the field stays in chunk 0, so the new definition cannot read old data any more
//     (top level: Err; embedded: it swallows the byte that follows the record).
// F9: unnamed variant fields are called field0, field1, .. by CURRENT index (lib.rs:380), and the reader refuses
//     any field whose name is in the stored removed-set (desert_core/src/adt/deserializer.rs:91-94). Removing a
//     non-last unnamed field therefore makes the surviving field inherit the removed name, and re-adding a
//     formerly removed name has the same effect: the definition cannot read its own output.
use desert_core::*;
use desert_macro::BinaryCodec;

mod desert {
    pub use desert_core::*;
}

#[derive(Debug, PartialEq, BinaryCodec)]
struct RawV1 {
    a: u8,
}

#[derive(Debug, PartialEq, BinaryCodec)]
#[evolution(FieldAdded("type", 7))]
struct RawV2 {
    a: u8,
    r#type: u8,
}

#[test]
fn field_added_with_raw_identifier_reads_old_data() {
    let old = serialize_to_byte_vec(&RawV1 { a: 1 }).unwrap();
    let new = deserialize::<RawV2>(&old).expect("new definition reads old data using the default");
    assert_eq!(new, RawV2 { a: 1, r#type: 7 });
}

#[test]
fn field_added_with_raw_identifier_does_not_eat_the_following_byte() {
    let mut stream = serialize_to_byte_vec(&RawV1 { a: 1 }).unwrap();
    stream.push(99); // something else that follows the record
    let mut ctx = DeserializationContext::new(&stream);
    let new = RawV2::deserialize(&mut ctx).unwrap();
    assert_eq!(new, RawV2 { a: 1, r#type: 7 }); // actual: r#type == 99
    assert_eq!(ctx.read_u8().unwrap(), 99);
}

// was: enum TupleVariant { B(String, u8) }
#[derive(Debug, PartialEq, BinaryCodec)]
enum TupleVariant {
    #[evolution(FieldRemoved("field0"))]
    B(u8),
}

#[test]
fn removing_first_unnamed_field_keeps_the_type_readable() {
    let v = TupleVariant::B(5);
    let bytes = serialize_to_byte_vec(&v).unwrap();
    assert_eq!(deserialize::<TupleVariant>(&bytes).unwrap(), v); // actual: Err(FieldRemovedInSerializedVersion("field0"))
}

#[derive(Debug, PartialEq, BinaryCodec)]
#[evolution(FieldRemoved("x"), FieldAdded("x", 0))]
struct ReAdded {
    a: u8,
    x: u8,
}

#[test]
fn re_adding_a_removed_name_keeps_the_type_readable() {
    let v = ReAdded { a: 1, x: 2 };
    let bytes = serialize_to_byte_vec(&v).unwrap();
    assert_eq!(deserialize::<ReAdded>(&bytes).unwrap(), v); // actual: Err(FieldRemovedInSerializedVersion("x"))
}
