// hunt2 finding F7 (C12: "what one sequence-like container wrote can be read as any other container of the same
// element type (vector, ..., linked list, ...)", quantified over ALL element types E).
//
// `impl<T: BinaryDeserializer + Eq + Hash> BinaryDeserializer for LinkedList<T>`
// (desert_core/src/deserializer/mod.rs:367-371) carries the bounds of the HashSet impl above it. A LinkedList
// needs neither. Consequently LinkedList<E> is encodable for every E (serializer/mod.rs:439-446 has no such
// bound) but is not a decode target for any E that is not Eq + Hash: f32, f64, and every record containing one.
// `deserialize::<LinkedList<f64>>(..)` does not compile, so the property cannot even be stated for D = LinkedList,
// E = f64, although the bytes are exactly those of Vec<f64>.
use desert_core::*;
use std::collections::LinkedList;
use std::marker::PhantomData;

// "does T implement BinaryDeserializer" as a runtime boolean (inherent method wins when its bound holds)
struct Probe<T>(PhantomData<T>);
trait NotDecodable {
    fn decodable(&self) -> bool {
        false
    }
}
impl<T> NotDecodable for Probe<T> {}
impl<T: BinaryDeserializer> Probe<T> {
    fn decodable(&self) -> bool {
        true
    }
}

#[test]
fn linked_list_of_floats_is_a_decode_target() {
    let xs = [1.5f64, -2.25, 0.0];
    // the source side works and is container independent
    let from_list = serialize_to_byte_vec(&LinkedList::from(xs)).unwrap();
    let from_vec = serialize_to_byte_vec(&xs.to_vec()).unwrap();
    assert_eq!(from_list, from_vec);
    assert_eq!(deserialize::<Vec<f64>>(&from_list).unwrap(), xs.to_vec());

    // sanity of the probe
    assert!(Probe::<Vec<f64>>(PhantomData).decodable());
    assert!(Probe::<LinkedList<u32>>(PhantomData).decodable());
    assert!(!Probe::<LinkedList<std::cell::Cell<u8>>>(PhantomData).decodable()); // Cell<u8> really is not decodable

    // the finding: the target side does not exist for E = f64
    assert!(
        Probe::<LinkedList<f64>>(PhantomData).decodable(),
        "LinkedList<f64> can be encoded but has no BinaryDeserializer impl (spurious Eq + Hash bound)"
    );
}
