// hunt2 finding F6 (C07: decode(encode(v)) == v; C04: the time-of-day layout has nanos < 1_000_000_000).
//
// chrono represents a leap second as `nanosecond() >= 1_000_000_000`. NaiveTime is written as
// hour, minute, second, var_u32(nanosecond) (desert_core/src/features/chrono.rs:157-168) and read back with
// NaiveTime::from_hms_nano_opt (chrono.rs:170-185), which accepts such a nanosecond value only when second == 59.
// chrono itself does not restrict leap seconds to second 59:
//  * `Timelike::with_nanosecond` accepts up to 1_999_999_999 on any second;
//  * a genuine UTC leap second (23:59:60) seen through a FixedOffset whose offset is not a whole minute
//    (FixedOffset::east_opt(30) is legal) lands on local second 29.
// Such values are encoded without complaint and the decoder then rejects the library's own output.
use chrono::{DateTime, FixedOffset, NaiveTime, Timelike, Utc};
use desert_core::*;

#[test]
fn naive_time_with_leap_nanos_round_trips() {
    let t = NaiveTime::from_hms_opt(1, 2, 3)
        .unwrap()
        .with_nanosecond(1_500_000_000)
        .expect("chrono accepts a leap-second fraction on any second");
    let bytes = serialize_to_byte_vec(&t).unwrap();
    let back = deserialize::<NaiveTime>(&bytes);
    assert!(back.is_ok(), "encoded fine, decode fails: {back:?}");
    assert_eq!(back.unwrap(), t);
}

#[test]
fn real_leap_second_at_an_offset_with_seconds_round_trips() {
    // 2016-12-31T23:59:60.5Z, a leap second that really happened
    let utc: DateTime<Utc> = DateTime::from_timestamp(1_483_228_799, 1_500_000_000).unwrap();
    // the same DateTime<Utc> round trips
    let b = serialize_to_byte_vec(&utc).unwrap();
    assert_eq!(deserialize::<DateTime<Utc>>(&b).unwrap(), utc);

    let shifted: DateTime<FixedOffset> = utc.with_timezone(&FixedOffset::east_opt(30).unwrap());
    let bytes = serialize_to_byte_vec(&shifted).unwrap();
    let back = deserialize::<DateTime<FixedOffset>>(&bytes);
    assert!(back.is_ok(), "encoded fine, decode fails: {back:?}");
    assert_eq!(back.unwrap(), shifted);
}
