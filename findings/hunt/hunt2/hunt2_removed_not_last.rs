// hunt2 finding F3 (C07, evolved records, stored version >= 1, newer definition reads older data).
//
// desert_core/src/evolution.rs:24-29 documents FieldRemoved as "New version can read old data by skipping the
// field". Nothing skips it: the derived reader of the new definition simply has no read for the removed /
// transient field (desert_macro/src/lib.rs:456-468 emits only the default for transient fields, and a removed
// field is not in the struct at all), and AdtDeserializer::read_field (desert_core/src/adt/deserializer.rs:86-138)
// reads the next declared field from the start of the chunk. Unless the removed field was the LAST one of its
// chunk, every later field of that chunk is decoded from the wrong bytes - silently when the types line up.
// The stored version here is 1, so this is not the "version 0 has no framing" limitation.
use desert_core::*;
use desert_macro::BinaryCodec;

mod desert {
    pub use desert_core::*;
}

#[derive(Debug, PartialEq, BinaryCodec)]
#[evolution(FieldAdded("c", 0))]
struct V1 {
    a: u32,
    b: u32,
    c: u32,
}

#[derive(Debug, PartialEq, BinaryCodec)]
#[evolution(FieldAdded("c", 0), FieldRemoved("a"))]
struct V2Removed {
    b: u32,
    c: u32,
}

#[derive(Debug, PartialEq, BinaryCodec)]
#[evolution(FieldAdded("c", 0), FieldMadeTransient("a"))]
struct V2Transient {
    #[transient(0)]
    a: u32,
    b: u32,
    c: u32,
}

#[test]
fn new_definition_reads_old_data_after_field_removed() {
    let bytes = serialize_to_byte_vec(&V1 { a: 1, b: 2, c: 3 }).unwrap();
    assert_eq!(bytes[0], 1, "stored version is 1");
    let v2 = deserialize::<V2Removed>(&bytes).unwrap();
    assert_eq!(v2, V2Removed { b: 2, c: 3 }); // actual: b == 1 (the removed field's value)
}

#[test]
fn new_definition_reads_old_data_after_field_made_transient() {
    let bytes = serialize_to_byte_vec(&V1 { a: 1, b: 2, c: 3 }).unwrap();
    let v2 = deserialize::<V2Transient>(&bytes).unwrap();
    assert_eq!(v2, V2Transient { a: 0, b: 2, c: 3 }); // actual: b == 1
}
