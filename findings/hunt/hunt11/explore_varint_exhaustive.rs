use desert_core::*;

fn reference_u(v: u32) -> Vec<u8> {
    let mut out = vec![]; let mut v = v;
    loop { let b = (v & 0x7f) as u8; v >>= 7; if v == 0 { out.push(b); break; } else { out.push(b | 0x80); } }
    out
}

#[test]
fn varint_exhaustive() {
    let mut buf: Vec<u8> = Vec::with_capacity(8);
    let mut v: u32 = 0;
    loop {
        buf.clear();
        buf.write_var_u32(v);
        let r = reference_u(v);
        assert_eq!(buf, r, "u {v}");
        let mut sc = SizeCalculator::new(); sc.write_var_u32(v); assert_eq!(sc.size(), r.len());
        assert_eq!(SliceInput::new(&buf).read_var_u32().unwrap(), v);
        assert_eq!(DeserializationContext::new(&buf).read_var_u32().unwrap(), v);
        let i = v as i32;
        buf.clear();
        buf.write_var_i32(i);
        let zz = ((i as u32) << 1) ^ ((i >> 31) as u32);
        assert_eq!(buf, reference_u(zz), "i {i}");
        assert_eq!(SliceInput::new(&buf).read_var_i32().unwrap(), i);
        assert_eq!(DeserializationContext::new(&buf).read_var_i32().unwrap(), i);
        if v == u32::MAX { break; }
        v += 1;
    }
}
