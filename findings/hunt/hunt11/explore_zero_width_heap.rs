use desert_core::*;
use std::alloc::{GlobalAlloc, Layout, System};
use std::sync::atomic::{AtomicUsize, Ordering};

struct Counting;
static TOTAL: AtomicUsize = AtomicUsize::new(0);
unsafe impl GlobalAlloc for Counting {
    unsafe fn alloc(&self, l: Layout) -> *mut u8 { TOTAL.fetch_add(l.size(), Ordering::Relaxed); System.alloc(l) }
    unsafe fn dealloc(&self, p: *mut u8, l: Layout) { System.dealloc(p, l) }
}
#[global_allocator]
static A: Counting = Counting;

#[test]
fn zero_width_heap() {
    let mut b = Vec::new();
    b.write_var_i32(4_000_000);
    let before = TOTAL.load(Ordering::Relaxed);
    let l = deserialize::<std::collections::LinkedList<()>>(&b).unwrap();
    let after = TOTAL.load(Ordering::Relaxed);
    println!("LinkedList<()>: input {} bytes, {} elements, {} bytes requested", b.len(), l.len(), after - before);
    drop(l);
    let before = TOTAL.load(Ordering::Relaxed);
    let l = deserialize::<Vec<std::rc::Rc<()>>>(&b).unwrap();
    let after = TOTAL.load(Ordering::Relaxed);
    println!("Vec<Rc<()>>: input {} bytes, {} elements, {} bytes requested", b.len(), l.len(), after - before);
}
