use desert_core::*;
use desert_macro::BinaryCodec;
use std::collections::*;

mod desert { pub use desert_core::*; }

#[derive(Debug, Clone, PartialEq, BinaryCodec)]
#[evolution(FieldAdded("b", None), FieldMadeOptional("a"), FieldRemoved("gone"), FieldAdded("c", "dflt".to_string()), FieldMadeTransient("t"))]
struct Inner {
    a: Option<u16>,
    b: Option<String>,
    c: String,
    #[transient(7u8)]
    t: u8,
}

#[derive(Debug, Clone, PartialEq, BinaryCodec)]
enum E {
    Unit,
    #[evolution(FieldAdded("y", 0u8), FieldRemoved("z"))]
    Named { x: Inner, y: u8 },
    Tup(Vec<Inner>, Option<Box<E>>),
    #[transient]
    T(u8),
}

#[derive(Debug, Clone, PartialEq, BinaryCodec)]
#[evolution(FieldAdded("e2", E::Unit), FieldAdded("m", BTreeMap::new()), FieldMadeOptional("s"))]
struct Outer {
    e: E,
    s: Option<String>,
    e2: E,
    m: BTreeMap<String, Inner>,
    tail: (u8, Inner),
}

struct D(String);
impl BinarySerializer for D { fn serialize<O: BinaryOutput>(&self, c: &mut SerializationContext<O>) -> Result<()> { DeduplicatedString(self.0.clone()).serialize(c) } }
impl BinaryDeserializer for D { fn deserialize(c: &mut DeserializationContext<'_>) -> Result<Self> { Ok(D(DeduplicatedString::deserialize(c)?.0)) } }

#[test]
fn mutate() {
    let inner = |i: u16| Inner { a: if i % 2 == 0 { Some(i) } else { None }, b: Some(format!("b{i}")), c: "gone".into(), t: 7 };
    let mut m = BTreeMap::new(); m.insert("k".to_string(), inner(3)); m.insert("gone".to_string(), inner(4));
    let vals = vec![
        Outer { e: E::Unit, s: None, e2: E::Named { x: inner(1), y: 9 }, m: m.clone(), tail: (1, inner(2)) },
        Outer { e: E::Tup(vec![inner(5), inner(6)], Some(Box::new(E::Tup(vec![], None)))), s: Some("s".into()), e2: E::Unit, m: BTreeMap::new(), tail: (0, inner(0)) },
    ];
    let mut seeds: Vec<Vec<u8>> = vals.iter().map(|v| { let b = serialize_to_byte_vec(v).unwrap(); assert_eq!(&deserialize::<Outer>(&b).unwrap(), v); b }).collect();
    seeds.push(serialize_to_byte_vec(&inner(8)).unwrap());
    seeds.push(serialize_to_byte_vec(&E::Named { x: inner(1), y: 2 }).unwrap());
    let mut seed = 0xdeadbeefcafef00du64;
    let mut next = move || { seed ^= seed << 13; seed ^= seed >> 7; seed ^= seed << 17; seed };
    let interesting = [0u8, 1, 2, 3, 4, 5, 0x7f, 0x80, 0x81, 0xfe, 0xff, 0x10, 0x20];
    let mut panics = 0;
    for it in 0..1_500_000u64 {
        let mut b = seeds[(next() % seeds.len() as u64) as usize].clone();
        let nm = 1 + next() % 4;
        for _ in 0..nm {
            if b.is_empty() { b.push(0); }
            let i = (next() % b.len() as u64) as usize;
            match next() % 6 {
                0 => b[i] = interesting[(next() % interesting.len() as u64) as usize],
                1 => b[i] = b[i].wrapping_add((next() % 5) as u8).wrapping_sub(2),
                2 => { b.remove(i); }
                3 => b.insert(i, interesting[(next() % interesting.len() as u64) as usize]),
                4 => b.truncate(i),
                _ => b[i] ^= 1 << (next() % 8),
            }
        }
        let r = std::panic::catch_unwind(|| {
            let _ = deserialize::<Outer>(&b);
            let _ = deserialize::<Inner>(&b);
            let _ = deserialize::<E>(&b);
            let _ = deserialize::<Vec<D>>(&b);
            let _ = deserialize::<(Inner, E)>(&b);
        });
        if r.is_err() { panics += 1; println!("PANIC it={it} {b:?}"); if panics > 5 { break; } }
    }
    assert_eq!(panics, 0);
}
