// Exploratory (PASSES on the tree): SliceInput, OwnedInput, DeserializationContext and a DeserializationContext
// standing inside a chunk region of an evolved record agree result-by-result on 10.3M (bytes, op-sequence) cases.
// Place in desert_core/tests/ and run with --release.
use desert_core::adt::*;
use desert_core::*;
use std::cell::RefCell;

#[derive(Clone, Copy, Debug)]
enum Op { U8, I8, U16, U32, U64, U128, F32, VarU, VarI, Bytes(usize), Skip(usize), Compressed }

fn run<I: BinaryInput>(i: &mut I, ops: &[Op]) -> Vec<String> {
    ops.iter().map(|op| match op {
        Op::U8 => format!("{:?}", i.read_u8().map_err(|e| e.to_string())),
        Op::I8 => format!("{:?}", i.read_i8().map_err(|e| e.to_string())),
        Op::U16 => format!("{:?}", i.read_u16().map_err(|e| e.to_string())),
        Op::U32 => format!("{:?}", i.read_u32().map_err(|e| e.to_string())),
        Op::U64 => format!("{:?}", i.read_u64().map_err(|e| e.to_string())),
        Op::U128 => format!("{:?}", i.read_u128().map_err(|e| e.to_string())),
        Op::F32 => format!("{:?}", i.read_f32().map(|f| f.to_bits()).map_err(|e| e.to_string())),
        Op::VarU => format!("{:?}", i.read_var_u32().map_err(|e| e.to_string())),
        Op::VarI => format!("{:?}", i.read_var_i32().map_err(|e| e.to_string())),
        Op::Bytes(n) => format!("{:?}", i.read_bytes(*n).map(|b| b.to_vec()).map_err(|e| e.to_string())),
        Op::Skip(n) => format!("{:?}", i.skip(*n).map_err(|e| e.to_string())),
        Op::Compressed => format!("{:?}", i.read_compressed().map_err(|e| e.to_string())),
    }).collect()
}

thread_local! {
    static SCRIPT: RefCell<Vec<Op>> = RefCell::new(vec![]);
    static OUT: RefCell<Vec<String>> = RefCell::new(vec![]);
}

struct Probe;
impl BinaryDeserializer for Probe {
    fn deserialize(context: &mut DeserializationContext<'_>) -> Result<Self> {
        let ops = SCRIPT.with(|s| s.borrow().clone());
        let r = run(context, &ops);
        OUT.with(|o| *o.borrow_mut() = r);
        Ok(Probe)
    }
}

#[test]
fn inputs_agree() {
    let meta = AdtMetadata::new(vec![Evolution::InitialVersion, Evolution::FieldAdded { name: "g".into() }]);
    let alphabet = [0x00u8, 0x01, 0x02, 0x03, 0x7f, 0x80, 0x81, 0xff];
    let mut inputs: Vec<Vec<u8>> = vec![vec![]];
    for l in 1..=4 {
        let mut idx = vec![0usize; l];
        'outer: loop {
            inputs.push(idx.iter().map(|i| alphabet[*i]).collect());
            for p in 0..l { idx[p] += 1; if idx[p] < alphabet.len() { continue 'outer; } idx[p] = 0; }
            break;
        }
    }
    for d in [&b""[..], b"a", b"aaaaaaaaaaaaaaaaaaaaaaaaaaaaaaaaaaaaaa"] {
        let mut o = Vec::new(); o.write_compressed(d, Default::default()).unwrap();
        for cut in 0..=o.len() { inputs.push(o[..cut].to_vec()); }
        o.push(7); inputs.push(o);
    }
    let base_ops = [Op::U8, Op::I8, Op::U16, Op::U32, Op::U64, Op::U128, Op::F32, Op::VarU, Op::VarI, Op::Bytes(0), Op::Bytes(1), Op::Bytes(2), Op::Bytes(5), Op::Bytes(usize::MAX), Op::Bytes(usize::MAX - 1), Op::Bytes(1usize << 63), Op::Skip(0), Op::Skip(1), Op::Skip(3), Op::Skip(usize::MAX), Op::Compressed];
    let mut scripts: Vec<Vec<Op>> = vec![];
    for a in base_ops { for b in base_ops { for c in [Op::U8, Op::Bytes(0), Op::Bytes(1), Op::Skip(1), Op::VarU] { scripts.push(vec![a, b, c]); } } }
    for b in &inputs {
        for ops in &scripts {
            let r1 = run(&mut SliceInput::new(b), ops);
            let r2 = run(&mut OwnedInput::new(b.clone()), ops);
            let r3 = run(&mut DeserializationContext::new(b), ops);
            assert_eq!(r1, r2, "slice vs owned {b:?} {ops:?}");
            assert_eq!(r1, r3, "slice vs ctx {b:?} {ops:?}");
            let mut framed = vec![1u8];
            framed.write_var_i32(b.len() as i32);
            framed.write_var_i32(3);
            framed.write_bytes(b);
            framed.write_bytes(&[0xAA, 0xAA, 0xAA, 0xBB, 0xBB]);
            SCRIPT.with(|s| *s.borrow_mut() = ops.clone());
            let mut ctx = DeserializationContext::new(&framed);
            assert_eq!(ctx.read_u8().unwrap(), 1);
            let mut d = AdtDeserializer::new(&meta, &mut ctx, 1).unwrap();
            let _p: Probe = d.read_field("f", None).unwrap();
            let r4 = OUT.with(|o| o.borrow().clone());
            assert_eq!(r1, r4, "slice vs region {b:?} {ops:?}");
            let _p: Probe = d.read_field("g", None).unwrap();
            assert_eq!(ctx.read_bytes(2).unwrap(), &[0xBB, 0xBB]);
        }
    }
}
