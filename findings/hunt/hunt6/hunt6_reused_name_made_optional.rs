// C02 (round-trip fidelity of derived codecs, same definition on both sides).
//
// A field name that was removed (or made transient) earlier and is used again by a later `FieldAdded`
// can not be made optional afterwards: the writer turns *every* `FieldMadeOptional(name)` whose name occurs
// in the set of removed names into a `FieldRemoved(name)` header entry (adt/serializer.rs, `new` and
// `write_evolution_header`), and the reader then believes the live field was removed after it was added
// (adt/deserializer.rs `is_removed`: removed_at (3) > added_at (2)) and returns `None` without reading it.
// The value is on the wire (chunk 2) but is never read back.

use desert_core::*;
use desert_macro::BinaryCodec;

mod desert {
    pub use desert_core::*;
}

// history: v0 { a, x: u32 }  ->  v1 drops x  ->  v2 adds a new `x: u8`  ->  v3 makes the new x optional
#[derive(Debug, PartialEq, BinaryCodec)]
#[evolution(FieldRemoved("x"), FieldAdded("x", Some(0)), FieldMadeOptional("x"))]
struct Reused {
    a: u8,
    x: Option<u8>,
}

// the same with the transient spelling of the removal
#[derive(Debug, PartialEq, BinaryCodec)]
#[evolution(FieldMadeTransient("x"), FieldAdded("x", Some(0)), FieldMadeOptional("x"))]
struct ReusedTransient {
    a: u8,
    x: Option<u8>,
}

// tuple variants name their fields by position, so replacing the only element has to reuse "field0"
#[derive(Debug, PartialEq, BinaryCodec)]
enum ReusedInVariant {
    #[evolution(FieldRemoved("field0"), FieldAdded("field0", None), FieldMadeOptional("field0"))]
    A(Option<String>),
}

#[test]
fn struct_field_with_a_reused_name_made_optional_round_trips() {
    let value = Reused { a: 1, x: Some(5) };
    let bytes = serialize_to_byte_vec(&value).unwrap();
    // the 5 is in the encoding (last byte, chunk 2 = [1, 5]) ...
    assert_eq!(bytes[bytes.len() - 2..], [1, 5]);
    // ... but it is not read back
    let back: Reused = deserialize(&bytes).unwrap();
    assert_eq!(back, value);
}

#[test]
fn struct_field_with_a_reused_transient_name_made_optional_round_trips() {
    let value = ReusedTransient { a: 1, x: Some(5) };
    let bytes = serialize_to_byte_vec(&value).unwrap();
    let back: ReusedTransient = deserialize(&bytes).unwrap();
    assert_eq!(back, value);
}

#[test]
fn variant_element_with_a_reused_name_made_optional_round_trips() {
    let value = ReusedInVariant::A(Some("hi".to_string()));
    let bytes = serialize_to_byte_vec(&value).unwrap();
    let back: ReusedInVariant = deserialize(&bytes).unwrap();
    assert_eq!(back, value);
}
