// exploratory: random evolution histories driven through the public Adt API
use desert_core::adt::{AdtDeserializer, AdtMetadata, AdtSerializer};
use desert_core::*;

struct Rng(u64);
impl Rng {
    fn next(&mut self) -> u64 {
        self.0 ^= self.0 << 13;
        self.0 ^= self.0 >> 7;
        self.0 ^= self.0 << 17;
        self.0
    }
    fn below(&mut self, n: usize) -> usize {
        (self.next() % n as u64) as usize
    }
    fn chance(&mut self, pct: usize) -> bool {
        self.below(100) < pct
    }
}

#[derive(Clone, Debug)]
struct Field {
    uid: usize,
    name: String,
    opt: bool,
    transient: bool,
    default: Option<Option<u16>>, // for added fields: the default (as Option value; for non-opt fields Some(v))
}

#[derive(Clone, Debug)]
enum Step {
    Added(String),
    MadeOptional(String),
    Removed(String),
    MadeTransient(String),
}

#[derive(Clone, Debug)]
struct Version {
    steps: Vec<Step>,
    fields: Vec<Field>, // declaration order
}

fn to_evolution(steps: &[Step]) -> Vec<Evolution> {
    let mut v = vec![Evolution::InitialVersion];
    for s in steps {
        v.push(match s {
            Step::Added(n) => Evolution::FieldAdded { name: n.clone() },
            Step::MadeOptional(n) => Evolution::FieldMadeOptional { name: n.clone() },
            Step::Removed(n) => Evolution::FieldRemoved { name: n.clone() },
            Step::MadeTransient(n) => Evolution::FieldMadeTransient { name: n.clone() },
        });
    }
    v
}

fn gen_history(rng: &mut Rng, allow_reuse: bool) -> Vec<Version> {
    let mut uid = 0;
    let mut fields = Vec::new();
    let n0 = rng.below(4);
    for i in 0..n0 {
        fields.push(Field {
            uid,
            name: format!("f{i}"),
            opt: rng.chance(40),
            transient: false,
            default: None,
        });
        uid += 1;
    }
    let mut versions = vec![Version {
        steps: vec![],
        fields: fields.clone(),
    }];
    let mut steps = Vec::new();
    let mut dead_names: Vec<String> = Vec::new();
    let mut ever_dead: Vec<String> = Vec::new();
    let mut counter = n0;
    let nsteps = 1 + rng.below(6);
    for _ in 0..nsteps {
        let live: Vec<usize> = (0..fields.len()).filter(|i| !fields[*i].transient).collect();
        let choice = rng.below(4);
        // removable: fields living in their own chunk, or the last chunk-0 field of the declaration
        let last_chunk0 = (0..fields.len()).filter(|i| fields[*i].default.is_none()).last();
        let removable: Vec<usize> = live
            .iter()
            .cloned()
            .filter(|i| std::env::var("ANY_REMOVAL").is_ok() || fields[*i].default.is_some() || Some(*i) == last_chunk0)
            .collect();
        match choice {
            0 => {
                let name = if allow_reuse && !dead_names.is_empty() && rng.chance(50) {
                    let i = rng.below(dead_names.len());
                    dead_names.remove(i)
                } else {
                    counter += 1;
                    format!("f{}", counter - 1)
                };
                let opt = rng.chance(40);
                let default = if opt {
                    if rng.chance(50) {
                        None
                    } else {
                        Some(rng.next() as u16)
                    }
                } else {
                    Some(rng.next() as u16)
                };
                let pos = rng.below(fields.len() + 1);
                // a transient field with a reused name must not stay in the struct: drop transient fields of that name
                fields.retain(|f| f.name != name);
                let pos = pos.min(fields.len());
                fields.insert(
                    pos,
                    Field {
                        uid,
                        name: name.clone(),
                        opt,
                        transient: false,
                        default: Some(default),
                    },
                );
                uid += 1;
                steps.push(Step::Added(name));
            }
            1 => {
                let no_mo_reused = std::env::var("NO_MO_REUSED").is_ok();
                let cands: Vec<usize> = live.iter().cloned().filter(|i| !fields[*i].opt && !(no_mo_reused && ever_dead.contains(&fields[*i].name))).collect();
                if cands.is_empty() {
                    continue;
                }
                let i = cands[rng.below(cands.len())];
                fields[i].opt = true;
                if let Some(d) = fields[i].default {
                    fields[i].default = Some(d);
                }
                steps.push(Step::MadeOptional(fields[i].name.clone()));
            }
            2 => {
                if removable.is_empty() {
                    continue;
                }
                let i = removable[rng.below(removable.len())];
                let f = fields.remove(i);
                dead_names.push(f.name.clone());
                ever_dead.push(f.name.clone());
                steps.push(Step::Removed(f.name));
            }
            _ => {
                if removable.is_empty() {
                    continue;
                }
                let i = removable[rng.below(removable.len())];
                fields[i].transient = true;
                dead_names.push(fields[i].name.clone());
                ever_dead.push(fields[i].name.clone());
                steps.push(Step::MadeTransient(fields[i].name.clone()));
            }
        }
        versions.push(Version {
            steps: steps.clone(),
            fields: fields.clone(),
        });
    }
    versions
}

type Values = Vec<(usize, Option<u16>)>; // uid -> value (non-opt fields are Some)

fn write(ver: &Version, meta: &AdtMetadata, values: &Values, prefix_string: bool) -> Result<Vec<u8>> {
    let mut ctx = SerializationContext::new(Vec::new());
    if prefix_string {
        DeduplicatedString("f1".to_string()).serialize(&mut ctx)?;
    }
    {
        let mut ser = if ver.steps.is_empty() {
            AdtSerializer::new_v0(meta, &mut ctx)
        } else {
            AdtSerializer::new(meta, &mut ctx)
        };
        for f in &ver.fields {
            if f.transient {
                continue;
            }
            let v = values.iter().find(|(u, _)| *u == f.uid).unwrap().1;
            if f.opt {
                ser.write_field(&f.name, &v)?;
            } else {
                ser.write_field(&f.name, &v.unwrap())?;
            }
        }
        ser.finish()?;
    }
    if prefix_string {
        DeduplicatedString("f1".to_string()).serialize(&mut ctx)?;
        DeduplicatedString("tail".to_string()).serialize(&mut ctx)?;
    }
    Ok(ctx.into_output())
}

fn read(
    ver: &Version,
    meta: &AdtMetadata,
    bytes: &[u8],
    prefix_string: bool,
) -> Result<(Vec<(usize, Option<u16>)>, Vec<u8>)> {
    let mut ctx = DeserializationContext::new(bytes);
    if prefix_string {
        let s = DeduplicatedString::deserialize(&mut ctx)?;
        assert_eq!(s.0, "f1");
    }
    let stored_version = ctx.read_u8()?;
    let mut out = Vec::new();
    {
        let mut de = if stored_version == 0 {
            AdtDeserializer::new_v0(meta, &mut ctx)?
        } else {
            AdtDeserializer::new(meta, &mut ctx, stored_version)?
        };
        for f in &ver.fields {
            if f.transient {
                out.push((f.uid, Some(7777)));
                continue;
            }
            if f.opt {
                let v: Option<u16> = de.read_optional_field(&f.name, f.default)?;
                out.push((f.uid, v));
            } else {
                let d: Option<u16> = f.default.map(|d| d.unwrap());
                let v: u16 = de.read_field(&f.name, d)?;
                out.push((f.uid, Some(v)));
            }
        }
    }
    let mut rest = Vec::new();
    if prefix_string {
        let s = DeduplicatedString::deserialize(&mut ctx)?;
        if s.0 != "f1" {
            return Err(Error::DeserializationFailure(format!("tail string 1 is {}", s.0)));
        }
        let s = DeduplicatedString::deserialize(&mut ctx)?;
        if s.0 != "tail" {
            return Err(Error::DeserializationFailure(format!("tail string 2 is {}", s.0)));
        }
    }
    while let Ok(b) = ctx.read_u8() {
        rest.push(b);
    }
    Ok((out, rest))
}

fn run(seed: u64, allow_reuse: bool, cross: bool) -> usize {
    let mut rng = Rng(seed);
    let mut problems = 0;
    for iter in 0..20000 {
        let hist = gen_history(&mut rng, allow_reuse);
        let metas: Vec<AdtMetadata> = hist
            .iter()
            .map(|v| AdtMetadata::new(to_evolution(&v.steps)))
            .collect();
        let prefix = rng.chance(50);
        for (wi, w) in hist.iter().enumerate() {
            let values: Values = w
                .fields
                .iter()
                .map(|f| {
                    (
                        f.uid,
                        if f.opt && rng.chance(40) {
                            None
                        } else {
                            Some(rng.next() as u16)
                        },
                    )
                })
                .collect();
            let mut bytes = match write(w, &metas[wi], &values, prefix) {
                Ok(b) => b,
                Err(e) => {
                    if problems < 15 {
                        println!("[{iter}] WRITE ERROR {e:?} for {:?}", w);
                    }
                    problems += 1;
                    continue;
                }
            };
            bytes.extend_from_slice(&[0xAA, 0xBB]);
            let readers: Vec<usize> = if cross { (0..hist.len()).collect() } else { vec![wi] };
            for ri in readers {
                let r = &hist[ri];
                if std::env::var("ANY_REMOVAL").is_ok() && ri > wi {
                    continue;
                }
                if wi == 0 && ri != 0 {
                    // version 0 data has no framing: only readers that still read every initial field qualify
                    let all_initial_live = hist[0].fields.iter().all(|f0| r.fields.iter().any(|f| f.uid == f0.uid && !f.transient));
                    if !all_initial_live {
                        continue;
                    }
                }
                match read(r, &metas[ri], &bytes, prefix) {
                    Ok((vals, rest)) => {
                        if rest != vec![0xAA, 0xBB] {
                            if problems < 15 {
                                println!("[{iter}] CONSUMPTION w={wi} r={ri} rest={rest:?}\n  writer {:?}\n  reader {:?}", w, r);
                            }
                            problems += 1;
                        }
                        if ri == wi {
                            let expected: Values = w
                                .fields
                                .iter()
                                .map(|f| {
                                    if f.transient {
                                        (f.uid, Some(7777))
                                    } else {
                                        *values.iter().find(|(u, _)| *u == f.uid).unwrap()
                                    }
                                })
                                .collect();
                            if vals != expected {
                                if problems < 15 {
                                    println!("[{iter}] MISMATCH v={wi} {:?}\n   wrote {:?}\n   read  {:?}\n   bytes {:?}", w, expected, vals, bytes);
                                }
                                problems += 1;
                            }
                        } else {
                            // cross version: every field the reader shares with the writer (same uid, live on both sides) must carry the written value
                            for (uid, got) in &vals {
                                let rf = r.fields.iter().find(|f| f.uid == *uid).unwrap();
                                if rf.transient {
                                    continue;
                                }
                                if w.fields.iter().all(|f| f.uid != *uid || f.transient) {
                                    // not written: an older reader sees None, a newer reader its default
                                    let expect = if ri < wi { None } else { rf.default.unwrap_or(Some(1)) };
                                    let ok = if ri < wi { got.is_none() } else { rf.default.is_none() || *got == expect };
                                    if !ok {
                                        if problems < 15 {
                                            println!("[{iter}] CROSS ABSENT MISMATCH w={wi} r={ri} field {} expected {:?} got {:?}\n  writer {:?}\n  reader {:?}", rf.name, expect, got, w, r);
                                        }
                                        problems += 1;
                                    }
                                }
                                if let Some(wf) = w.fields.iter().find(|f| f.uid == *uid && !f.transient) {
                                    let wrote = values.iter().find(|(u, _)| u == uid).unwrap().1;
                                    let _ = wf;
                                    if *got != wrote {
                                        if problems < 15 {
                                            println!("[{iter}] CROSS MISMATCH w={wi} r={ri} field {} wrote {:?} got {:?}\n  writer {:?}\n  reader {:?}", rf.name, wrote, got, w, r);
                                        }
                                        problems += 1;
                                    }
                                }
                            }
                        }
                    }
                    Err(e) => {
                        // an older reader may fail when the writer dropped one of its mandatory fields, or wrote None into one
                        let justified = ri < wi
                            && r.fields.iter().any(|rf| {
                                !rf.transient
                                    && !rf.opt
                                    && match w.fields.iter().find(|f| f.uid == rf.uid && !f.transient) {
                                        None => true,
                                        Some(wf) => {
                                            wf.opt && values.iter().find(|(u, _)| *u == rf.uid).unwrap().1.is_none()
                                        }
                                    }
                            });
                        let expected_err = justified
                            && matches!(
                                e,
                                Error::FieldRemovedInSerializedVersion(_)
                                    | Error::NonOptionalFieldSerializedAsNone(_)
                            );
                        if !expected_err {
                            if problems < 15 {
                                println!("[{iter}] READ ERROR w={wi} r={ri} {e:?}\n  writer {:?}\n  reader {:?}\n bytes {:?}", w, r, bytes);
                            }
                            problems += 1;
                        }
                    }
                }
            }
        }
    }
    problems
}

#[test]
fn same_version_no_reuse() {
    let p = run(0x1234_5678_9abc_def1, false, false);
    println!("problems: {p}");
}

#[test]
fn same_version_reuse() {
    let p = run(0x9234_5678_9abc_def1, true, false);
    println!("problems: {p}");
}

#[test]
fn cross_version_no_reuse() {
    let p = run(0x5234_5678_9abc_def1, false, true);
    println!("problems: {p}");
}

#[test]
fn cross_version_reuse() {
    let p = run(0x7234_5678_9abc_def1, true, true);
    println!("problems: {p}");
}
