// C17 (encoding never panics) read literally over the public encode-side API: three public entry points that a
// hand-written BinarySerializer can reach unwind instead of returning Err. LOW certainty that C17 means to cover these
// (its quantifier names values and derived declarations, and each of these is a misuse by the hand-written impl).
use desert_core::adt::{AdtMetadata, AdtSerializer};
use desert_core::*;
use std::panic::{catch_unwind, AssertUnwindSafe};

struct PopsTooMuch;
impl BinarySerializer for PopsTooMuch {
    fn serialize<O: BinaryOutput>(&self, context: &mut SerializationContext<O>) -> Result<()> {
        let _ = context.pop_buffer(); // public; unwraps an empty stack
        Ok(())
    }
}

struct WrongCtor;
impl BinarySerializer for WrongCtor {
    fn serialize<O: BinaryOutput>(&self, context: &mut SerializationContext<O>) -> Result<()> {
        let metadata = AdtMetadata::new(vec![
            Evolution::InitialVersion,
            Evolution::FieldRemoved { name: "x".to_string() },
        ]);
        let serializer = AdtSerializer::new_v0(&metadata, context); // assert_eq!(metadata.version, 0)
        serializer.finish()
    }
}

struct NoSteps;
impl BinarySerializer for NoSteps {
    fn serialize<O: BinaryOutput>(&self, context: &mut SerializationContext<O>) -> Result<()> {
        let metadata = AdtMetadata::new(vec![]); // (0usize - 1) as u8
        let serializer = AdtSerializer::new(&metadata, context);
        serializer.finish()
    }
}

#[test]
fn pop_buffer_on_empty_stack_does_not_unwind() {
    assert!(catch_unwind(AssertUnwindSafe(|| serialize_to_byte_vec(&PopsTooMuch).is_ok())).is_ok());
}

#[test]
fn new_v0_with_evolved_metadata_does_not_unwind() {
    assert!(catch_unwind(AssertUnwindSafe(|| serialize_to_byte_vec(&WrongCtor).is_ok())).is_ok());
}

#[test]
fn metadata_without_steps_does_not_unwind() {
    assert!(catch_unwind(AssertUnwindSafe(|| serialize_to_byte_vec(&NoSteps).is_ok())).is_ok());
}
