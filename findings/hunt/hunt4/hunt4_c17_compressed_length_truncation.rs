// C17: "lengths that do not fit the format's ... counts ... are all reported through the error type"
//
// BinaryOutput::write_compressed stores the uncompressed and the compressed length as 32-bit varints
// using `len as u32` (binary_output.rs:101-102). A block whose compressed form is 4 GiB or longer is
// written with a silently truncated length prefix instead of Error::LengthTooLarge, so the payload that
// follows is longer than what the block header announces and every reader mis-frames the stream.
//
// HEAVY: needs ~10 GiB of RAM and (unoptimised) a few minutes; therefore #[ignore]d.
// Run with:  cargo test --offline --release -p desert_core --test hunt4_c17_compressed_length_truncation -- --ignored

use desert_core::{BinaryInput, BinaryOutput, SliceInput};
use flate2::Compression;

/// Keeps the first bytes only, counts everything.
struct Prefix {
    head: Vec<u8>,
    total: u64,
}

impl BinaryOutput for Prefix {
    fn write_u8(&mut self, value: u8) {
        if self.head.len() < 16 {
            self.head.push(value);
        }
        self.total += 1;
    }
    fn write_bytes(&mut self, bytes: &[u8]) {
        let room = 16 - self.head.len().min(16);
        self.head.extend_from_slice(&bytes[..room.min(bytes.len())]);
        self.total += bytes.len() as u64;
    }
}

#[test]
#[ignore]
fn oversized_compressed_block_is_an_error_or_consistent() {
    let len = (1usize << 32) + 10;
    let data = vec![0u8; len];
    let mut out = Prefix { head: Vec::new(), total: 0 };
    // level 0 = stored blocks: the "compressed" form is slightly longer than the input
    match out.write_compressed(&data, Compression::none()) {
        Err(_) => {} // fine: reported through the error type
        Ok(()) => {
            let mut header = SliceInput::new(&out.head);
            let declared_uncompressed = header.read_var_u32().unwrap() as u64;
            let declared_compressed = header.read_var_u32().unwrap() as u64;
            let header_len = header.pos as u64;
            let payload = out.total - header_len;
            assert_eq!(
                declared_compressed, payload,
                "block header announces {declared_compressed} compressed bytes but {payload} were written"
            );
            assert_eq!(declared_uncompressed, len as u64);
        }
    }
}
