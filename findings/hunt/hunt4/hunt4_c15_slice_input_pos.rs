// C15: "every input implementation decodes the same primitives from the same bytes and reports end of
//       input at the same point" / "SliceInput, OwnedInput and DeserializationContext agree result-by-result"
//
// SliceInput exposes `data` and `pos` as public fields, so safe code can position it anywhere. With
// `pos` beyond the end of `data`, read_bytes / skip / read_u16 ... report Error::InputEndedUnexpectedly
// (as OwnedInput and DeserializationContext do once they are exhausted), but read_u8 - and everything
// built on it: read_i8, read_var_u32, read_var_i32, read_compressed - indexes out of bounds and panics.

use desert_core::{BinaryInput, DeserializationContext, Error, OwnedInput, SliceInput};

#[test]
fn exhausted_inputs_agree_on_end_of_input() {
    let data = [1u8, 2, 3];

    // reference behaviour: the other two implementations, driven past the end
    let mut owned = OwnedInput::new(data.to_vec());
    owned.skip(3).unwrap();
    assert!(owned.skip(1).is_err());
    assert!(matches!(owned.read_u8(), Err(Error::InputEndedUnexpectedly)));

    let mut ctx = DeserializationContext::new(&data);
    ctx.skip(3).unwrap();
    assert!(ctx.skip(1).is_err());
    assert!(matches!(ctx.read_u8(), Err(Error::InputEndedUnexpectedly)));

    // SliceInput positioned past the end through its public field
    let mut slice = SliceInput { data: &data, pos: 4 };
    assert!(matches!(slice.read_bytes(1), Err(Error::InputEndedUnexpectedly)));
    assert!(matches!(slice.skip(1), Err(Error::InputEndedUnexpectedly)));
    assert!(matches!(slice.read_u16(), Err(Error::InputEndedUnexpectedly)));

    let outcome = std::panic::catch_unwind(move || slice.read_u8().map_err(|e| e.to_string()));
    match outcome {
        Ok(result) => assert_eq!(result, Err("Input ended unexpectedly".to_string())),
        Err(_) => panic!("SliceInput::read_u8 panicked instead of reporting end of input"),
    }
}
