// C17: "For every value, encoding returns either the bytes or an error and never panics"
//
// Variant of the known DateTime<FixedOffset> panic, but in a different codec: DateTime<Local> is encoded
// through `self.date_naive()` (features/chrono.rs, impl BinarySerializer for DateTime<Local>), which
// panics inside chrono when the local wall clock leaves NaiveDateTime's range.
// The test fixes the process time zone to one with a positive offset (needs the system tz database).

use chrono::{DateTime, Local, Utc};
use desert_core::serialize_to_byte_vec;

#[test]
fn encoding_the_latest_local_datetime_does_not_panic() {
    std::env::set_var("TZ", "Asia/Tokyo");
    let value: DateTime<Local> = DateTime::<Utc>::MAX_UTC.with_timezone(&Local);
    if value.offset().local_minus_utc() <= 0 {
        eprintln!("no tz database available, scenario not reachable here");
        return;
    }
    let outcome = std::panic::catch_unwind(|| serialize_to_byte_vec(&value).map(|b| b.len()));
    assert!(outcome.is_ok(), "encoding must return Ok or Err, not unwind");
}
