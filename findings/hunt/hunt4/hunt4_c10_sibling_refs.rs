// C10: decoding must rebuild a graph isomorphic to the original.
//
// The codec below is the crate's own reference-tracking example (desert_core/src/lib.rs, `Node`/`Root`
// in the unit tests) generalised from one `next` pointer to a list of children, and using the *node*
// address (`&RefCell<Node>` behind the Rc) as identity on the encoding side.
//
// All back-edges in the graph used here point to an *ancestor* that is still being decoded, so no
// dangling pointer is ever dereferenced (the known store_ref/get_ref_by_id dangling issue is not involved).

use desert_core::{
    deserialize, serialize_to_byte_vec, BinaryDeserializer, BinaryOutput, BinarySerializer,
    DeserializationContext, Result, SerializationContext,
};
use std::cell::RefCell;
use std::rc::Rc;

struct Node {
    label: String,
    children: Vec<Rc<RefCell<Node>>>,
}

type NodeRef = Rc<RefCell<Node>>;

fn node(label: &str) -> NodeRef {
    Rc::new(RefCell::new(Node {
        label: label.to_string(),
        children: Vec::new(),
    }))
}

struct Graph(NodeRef);

fn write_node<O: BinaryOutput>(n: &NodeRef, context: &mut SerializationContext<O>) -> Result<()> {
    // identity = address of the node itself
    let identity: &RefCell<Node> = n;
    if context.store_ref_or_object(identity)? {
        let node = n.borrow();
        node.label.serialize(context)?;
        (node.children.len() as u32).serialize(context)?;
        for child in &node.children {
            write_node(child, context)?;
        }
    }
    Ok(())
}

#[inline(never)]
fn read_node(context: &mut DeserializationContext<'_>) -> Result<NodeRef> {
    match context.try_read_ref()? {
        Some(known) => Ok(known.downcast_ref::<NodeRef>().unwrap().clone()),
        None => {
            let label = String::deserialize(context)?;
            let result = node(&label);
            // exactly what the crate's own example does: register the freshly created handle
            context.state_mut().store_ref(&result);
            let count = u32::deserialize(context)?;
            for _ in 0..count {
                let child = read_node(context)?;
                result.borrow_mut().children.push(child);
            }
            Ok(result)
        }
    }
}

impl BinarySerializer for Graph {
    fn serialize<O: BinaryOutput>(&self, context: &mut SerializationContext<O>) -> Result<()> {
        write_node(&self.0, context)
    }
}

impl BinaryDeserializer for Graph {
    fn deserialize(context: &mut DeserializationContext<'_>) -> Result<Self> {
        Ok(Graph(read_node(context)?))
    }
}

#[test]
fn second_sibling_gets_no_reference_number() {
    // a -> [b, c];  c -> [d];  d -> [c]      (ids in pre-order: a=1 b=2 c=3 d=4)
    let a = node("a");
    let b = node("b");
    let c = node("c");
    let d = node("d");
    a.borrow_mut().children.push(b.clone());
    a.borrow_mut().children.push(c.clone());
    c.borrow_mut().children.push(d.clone());
    d.borrow_mut().children.push(c.clone());

    let bytes = serialize_to_byte_vec(&Graph(a.clone())).unwrap();
    // new a, 2 children: new b (0 children), new c, 1 child: new d, 1 child: ref #3
    assert_eq!(
        bytes,
        vec![0, 2, b'a', 0, 0, 0, 2, 0, 2, b'b', 0, 0, 0, 0, 0, 2, b'c', 0, 0, 0, 1, 0, 2, b'd', 0, 0, 0, 1, 3]
    );

    let decoded = deserialize::<Graph>(&bytes).expect("a stream written by the encoder must decode");
    let a2 = decoded.0;
    let c2 = a2.borrow().children[1].clone();
    let d2 = c2.borrow().children[0].clone();
    let back = d2.borrow().children[0].clone();
    assert_eq!(c2.borrow().label, "c");
    assert_eq!(d2.borrow().label, "d");
    // the edge d -> c must come back as an edge to c (shared with a's second child)
    assert_eq!(back.borrow().label, "c", "edge d -> c was decoded as an edge to another node");
    assert!(Rc::ptr_eq(&back, &c2));
}

#[test]
fn reference_to_second_sibling_is_rejected() {
    // a -> [b, c];  c -> [c]      (ids: a=1 b=2 c=3); the self-loop cites #3
    let a = node("a");
    let b = node("b");
    let c = node("c");
    a.borrow_mut().children.push(b.clone());
    a.borrow_mut().children.push(c.clone());
    c.borrow_mut().children.push(c.clone());

    let bytes = serialize_to_byte_vec(&Graph(a.clone())).unwrap();
    let decoded = deserialize::<Graph>(&bytes);
    assert!(
        decoded.is_ok(),
        "a stream written by the encoder must decode, got {:?}",
        decoded.err()
    );
}
