// C18: "Encoding the same value again yields the same bytes" / "each call's result == the result of the
//       same call in a fresh process" / "its result does not depend on earlier calls"
//
// HashSet / HashMap are encoded in iteration order (serializer/mod.rs:403-428). Two sets that are equal
// (`a == b`), built by the same code in the same thread, have different hasher keys (std's RandomState
// increments its per-thread key on every construction and seeds it randomly per process), so the very same
// call `serialize_to_byte_vec(&build())` produces different bytes depending on how many hash sets were
// created before it, and differs from process to process.

use desert_core::serialize_to_byte_vec;
use std::collections::{BTreeSet, HashSet};

fn build() -> HashSet<u32> {
    (0..64u32).collect()
}

#[test]
fn equal_hash_sets_encode_to_equal_bytes() {
    let first = build();
    let first_bytes = serialize_to_byte_vec(&first).unwrap();
    // same instance again: stable
    assert_eq!(first_bytes, serialize_to_byte_vec(&first).unwrap());

    let second = build();
    assert_eq!(first, second);
    let second_bytes = serialize_to_byte_vec(&second).unwrap();

    // sanity: the ordered equivalent is stable
    let ordered: BTreeSet<u32> = (0..64u32).collect();
    let ordered2: BTreeSet<u32> = (0..64u32).collect();
    assert_eq!(
        serialize_to_byte_vec(&ordered).unwrap(),
        serialize_to_byte_vec(&ordered2).unwrap()
    );

    assert_eq!(
        first_bytes, second_bytes,
        "the same call (encode a freshly built, equal HashSet) gave different bytes the second time"
    );
}
