use bigdecimal::num_bigint::BigInt;
use bigdecimal::BigDecimal;
use chrono::*;
use chrono_tz::Tz;
use desert_core::*;
use std::fmt::Debug;
use std::panic::{catch_unwind, AssertUnwindSafe};

fn rt<T: BinarySerializer + BinaryDeserializer + Debug + PartialEq>(label: &str, v: T) {
    let r = catch_unwind(AssertUnwindSafe(|| {
        let mut bytes = serialize_to_byte_vec(&v).map_err(|e| format!("enc err {e:?}"))?;
        let n = bytes.len();
        bytes.extend_from_slice(&[0xEE; 3]);
        let mut ctx = DeserializationContext::new(&bytes);
        let back = T::deserialize(&mut ctx).map_err(|e| format!("dec err {e:?} (len {n})"))?;
        let mut rest = 0;
        while ctx.read_u8().is_ok() { rest += 1; }
        if back != v { return Err(format!("value differs: {back:?}")); }
        if rest != 3 { return Err(format!("rest {rest}")); }
        Ok::<(), String>(())
    }));
    match r {
        Ok(Ok(())) => println!("ok   {label}"),
        Ok(Err(e)) => println!("FAIL {label}: {v:?}: {e}"),
        Err(_) => println!("PANIC {label}"),
    }
}

#[test]
fn values() {
    rt("bd scale min", BigDecimal::new(BigInt::from(1), i64::MIN));
    rt("bd scale max", BigDecimal::new(BigInt::from(1), i64::MAX));
    rt("bd scale min+1", BigDecimal::new(BigInt::from(1), i64::MIN + 1));
    rt("bd scale -1000", BigDecimal::new(BigInt::from(123), -1000));
    rt("bd scale 1000", BigDecimal::new(BigInt::from(-123), 1000));
    rt("bd 12345 scale max", BigDecimal::new(BigInt::from(12345), i64::MAX));
    rt("bd 12345 scale max-2", BigDecimal::new(BigInt::from(12345), i64::MAX - 2));
    rt("bd 12345 scale min+2", BigDecimal::new(BigInt::from(12345), i64::MIN + 2));
    rt("bd 0 scale 5", BigDecimal::new(BigInt::from(0), 5));
    rt("bd 0 scale -5", BigDecimal::new(BigInt::from(0), -5));
    rt("bd 0 scale max", BigDecimal::new(BigInt::from(0), i64::MAX));
    rt("bd 0 scale min", BigDecimal::new(BigInt::from(0), i64::MIN));
    rt("bigint 0", BigInt::from(0));
    rt("bigint -1", BigInt::from(-1));
    rt("bigint 128", BigInt::from(128));
    rt("bigint -128", BigInt::from(-128));
    rt("bigint -129", BigInt::from(-129));
    rt("bigint -32768", BigInt::from(-32768));
    rt("date min", NaiveDate::MIN);
    rt("date max", NaiveDate::MAX);
    rt("ndt min", NaiveDateTime::MIN);
    rt("ndt max", NaiveDateTime::MAX);
    rt("utc min", DateTime::<Utc>::MIN_UTC);
    rt("utc max", DateTime::<Utc>::MAX_UTC);
    rt("utc neg frac", DateTime::<Utc>::from_timestamp(-1, 999_999_999).unwrap());
    for tz in [Tz::Pacific__Kiritimati, Tz::Etc__GMTPlus12, Tz::America__New_York, Tz::UTC, Tz::Europe__Budapest, Tz::GMT0, Tz::Etc__GMTMinus14] {
        rt(&format!("tz {tz}"), tz);
        rt(&format!("dt tz max {tz}"), tz.from_utc_datetime(&NaiveDateTime::MAX));
        rt(&format!("dt tz min {tz}"), tz.from_utc_datetime(&NaiveDateTime::MIN));
        rt(&format!("dt tz 1800 {tz}"), tz.from_utc_datetime(&NaiveDate::from_ymd_opt(1800,1,1).unwrap().and_hms_opt(0,0,0).unwrap()));
    }
    for tz in chrono_tz::TZ_VARIANTS {
        let bytes = serialize_to_byte_vec(&tz).unwrap();
        let back: Tz = deserialize(&bytes).unwrap();
        if back != tz { println!("FAIL tz {tz:?} -> {back:?}"); }
        let d = tz.from_utc_datetime(&NaiveDate::from_ymd_opt(2024,3,31).unwrap().and_hms_opt(1,30,0).unwrap());
        match serialize_to_byte_vec(&d) {
            Ok(b) => { let back: DateTime<Tz> = deserialize(&b).unwrap(); if back != d || back.timezone() != d.timezone() { println!("FAIL dt tz {tz:?} {back:?} {:?}", back.timezone()); } }
            Err(e) => println!("FAIL enc dt tz {tz:?}: {e:?}"),
        }
    }
    rt("fixed +86399", FixedOffset::east_opt(86399).unwrap());
    rt("fixed -86399", FixedOffset::east_opt(-86399).unwrap());
    rt("dtfixed", FixedOffset::east_opt(-86399).unwrap().from_utc_datetime(&NaiveDate::from_ymd_opt(2024,3,31).unwrap().and_hms_opt(1,30,0).unwrap()));
    rt("duration max", std::time::Duration::MAX);
    rt("time leap :59", NaiveTime::from_hms_nano_opt(23, 59, 59, 1_999_999_999).unwrap());
    rt("weekday", Weekday::Sun);
    rt("month", Month::December);
    rt("char max bmp", '\u{ffff}');
    rt("char d7ff", '\u{d7ff}');
    rt("char e000", '\u{e000}');
    rt("empty array u8", [0u8; 0]);
    rt("empty array u32", [0u32; 0]);
    rt("array unit", [(); 3]);
    rt("nested opt", Some(None::<Option<u8>>));
    rt("result", Ok::<(), ()>(()));
    rt("tuple1", ((),));
    rt("string empty", String::new());
    rt("vec vec u8", vec![vec![1u8], vec![], vec![2, 3]]);
    rt("uuid", uuid::Uuid::max());
    rt("i128 min", i128::MIN);
    let nan = f64::from_bits(0x7ff8_0000_dead_beef);
    let b = serialize_to_byte_vec(&nan).unwrap();
    let back: f64 = deserialize(&b).unwrap();
    println!("nan bits kept: {}", back.to_bits() == nan.to_bits());
    let snan = f32::from_bits(0x7f80_0001);
    let b = serialize_to_byte_vec(&snan).unwrap();
    let back: f32 = deserialize(&b).unwrap();
    println!("snan bits kept: {}", back.to_bits() == snan.to_bits());
}
