#![allow(dead_code)]
use desert_core::*;

mod desert {
    pub use desert_core::*;
}

mod v0 {
    use super::desert;
    use desert_macro::BinaryCodec;
    #[derive(Debug, PartialEq, Clone, BinaryCodec)]
    #[sorted_constructors]
    pub enum E {
        Zed(i32, i32),
        #[transient]
        Mid(std::cell::Cell<u8>),
        Alpha { a: String, b: u8 },
    }
    #[derive(Debug, PartialEq, Clone, BinaryCodec)]
    pub struct S {
        pub pre: u8,
        pub items: Vec<Option<E>>,
        pub post: u16,
    }
}

mod v1 {
    use super::desert;
    use desert_macro::BinaryCodec;
    #[derive(Debug, PartialEq, Clone, BinaryCodec)]
    #[sorted_constructors]
    pub enum E {
        #[evolution(FieldAdded("field2", Some(77u8)), FieldMadeOptional("field1"), FieldMadeOptional("field2"))]
        Zed(#[transient(5)] i32, Option<i32>, Option<u8>, i32),
        #[transient]
        Mid(std::cell::Cell<u8>),
        #[evolution(FieldMadeOptional("b"), FieldAdded("c", vec![1u8]), FieldMadeTransient("b"))]
        Alpha {
            #[transient(None)]
            b: Option<u8>,
            c: Vec<u8>,
            a: String,
        },
        #[evolution(FieldAdded("x", ()))]
        Zzz { x: () },
    }
    #[derive(Debug, PartialEq, Clone, BinaryCodec)]
    #[evolution(FieldAdded("extra", None), FieldMadeOptional("post"))]
    pub struct S {
        pub extra: Option<std::collections::BTreeMap<String, E>>,
        pub pre: u8,
        pub items: Vec<Option<E>>,
        pub post: Option<u16>,
    }
}

#[test]
fn combo() {
    // Zed(i32,i32) in v0 = field0, field1. v1 Zed: field0 transient?? (not legal: field0 was serialized) -> use a legal variant instead below
}

mod w0 {
    use super::desert;
    use desert_macro::BinaryCodec;
    #[derive(Debug, PartialEq, Clone, BinaryCodec)]
    #[sorted_constructors]
    pub enum E {
        Zed(#[transient(5)] i32, i32, i32),
        #[transient]
        Mid(std::cell::Cell<u8>),
        Alpha { a: String, b: u8 },
    }
    #[derive(Debug, PartialEq, Clone, BinaryCodec)]
    pub struct S {
        pub pre: u8,
        pub items: Vec<Option<E>>,
        pub post: u16,
    }
}
mod w1 {
    use super::desert;
    use desert_macro::BinaryCodec;
    #[derive(Debug, PartialEq, Clone, BinaryCodec)]
    #[sorted_constructors]
    pub enum E {
        #[evolution(FieldAdded("field3", Some(77u8)), FieldMadeOptional("field1"), FieldMadeOptional("field3"), FieldMadeOptional("field2"))]
        Zed(#[transient(5)] i32, Option<i32>, Option<i32>, Option<u8>),
        #[transient]
        Mid(std::cell::Cell<u8>),
        #[evolution(FieldMadeOptional("b"), FieldAdded("c", vec![1u8]), FieldMadeTransient("b"))]
        Alpha {
            #[transient(None)]
            b: Option<u8>,
            c: Vec<u8>,
            a: String,
        },
        #[evolution(FieldAdded("x", ()))]
        Zzz { x: () },
    }
    #[derive(Debug, PartialEq, Clone, BinaryCodec)]
    #[evolution(FieldAdded("extra", None), FieldMadeOptional("post"))]
    pub struct S {
        pub extra: Option<std::collections::BTreeMap<String, E>>,
        pub pre: u8,
        pub items: Vec<Option<E>>,
        pub post: Option<u16>,
    }
}

#[test]
fn combo_w() {
    let old = w0::S {
        pre: 1,
        items: vec![Some(w0::E::Zed(9, 10, 11)), None],
        post: 500,
    };
    let mut bytes = serialize_to_byte_vec(&old).unwrap();
    bytes.extend_from_slice(&[0xEE, 0xEE]);
    let mut ctx = DeserializationContext::new(&bytes);
    let new = w1::S::deserialize(&mut ctx).unwrap();
    assert_eq!(
        new,
        w1::S {
            extra: None,
            pre: 1,
            items: vec![
                Some(w1::E::Zed(5, Some(10), Some(11), Some(77))),
                None,
            ],
            post: Some(500)
        }
    );
    assert_eq!(ctx.read_u8().unwrap(), 0xEE);
    assert_eq!(ctx.read_u8().unwrap(), 0xEE);
    assert!(ctx.read_u8().is_err());

    let mut m = std::collections::BTreeMap::new();
    m.insert("k".to_string(), w1::E::Zzz { x: () });
    m.insert("j".to_string(), w1::E::Zed(5, Some(2), Some(3), Some(4)));
    let newv = w1::S {
        extra: Some(m),
        pre: 2,
        items: vec![
            Some(w1::E::Zed(123, Some(10), Some(11), Some(12))),
            Some(w1::E::Alpha { b: Some(200), c: vec![4, 5], a: "y".into() }),
            None,
        ],
        post: Some(7),
    };
    let mut bytes = serialize_to_byte_vec(&newv).unwrap();
    // transient insensitivity
    let mut newv2 = newv.clone();
    newv2.items[0] = Some(w1::E::Zed(-1, Some(10), Some(11), Some(12)));
    newv2.items[1] = Some(w1::E::Alpha { b: None, c: vec![4, 5], a: "y".into() });
    assert_eq!(bytes, serialize_to_byte_vec(&newv2).unwrap());
    let n = bytes.len();
    bytes.extend_from_slice(&[0xEE, 0xEE]);
    let mut ctx = DeserializationContext::new(&bytes);
    let back = w0::S::deserialize(&mut ctx);
    // Alpha.b was removed -> old reader must fail with FieldRemovedInSerializedVersion("b")
    assert!(matches!(back, Err(Error::FieldRemovedInSerializedVersion(ref f)) if f == "b"), "{back:?}");

    let newv3 = w1::S { items: vec![Some(w1::E::Zed(123, Some(10), Some(11), Some(12))), None], ..newv.clone() };
    let mut bytes = serialize_to_byte_vec(&newv3).unwrap();
    bytes.extend_from_slice(&[0xEE, 0xEE]);
    let mut ctx = DeserializationContext::new(&bytes);
    let back = w0::S::deserialize(&mut ctx).unwrap();
    assert_eq!(back, w0::S { pre: 2, items: vec![Some(w0::E::Zed(5, 10, 11)), None], post: 7 });
    assert_eq!(ctx.read_u8().unwrap(), 0xEE);
    assert_eq!(ctx.read_u8().unwrap(), 0xEE);
    assert!(ctx.read_u8().is_err());

    // same-definition round trip + truncation
    let mut ctx = DeserializationContext::new(&bytes);
    let back = w1::S::deserialize(&mut ctx).unwrap();
    assert_eq!(back, w1::S { items: vec![Some(w1::E::Zed(5, Some(10), Some(11), Some(12))), None], ..newv.clone() });
    let n3 = bytes.len() - 2;
    for k in 0..n3 {
        assert!(deserialize::<w1::S>(&bytes[..k]).is_err(), "prefix {k}");
        assert!(deserialize::<w0::S>(&bytes[..k]).is_err(), "old prefix {k}");
    }
    let _ = n;

    // transient constructor
    let t = w1::S { items: vec![Some(w1::E::Mid(std::cell::Cell::new(1)))], ..newv.clone() };
    match serialize_to_byte_vec(&t) {
        Err(Error::SerializingTransientConstructor { type_name, constructor_name }) => {
            assert_eq!(type_name, "E");
            assert_eq!(constructor_name, "Mid");
        }
        other => panic!("{other:?}"),
    }
}
