//! C07 (self-delimiting / round trip) for a hand-written codec built from the public ADT helpers:
//! `AdtSerializer::new` accepts metadata without evolution steps (version 0) and then writes the version byte 0
//! FOLLOWED BY an evolution header (chunk size), while every reader (derived or hand-written) takes version byte 0
//! to mean "no header, fields follow directly" (`AdtDeserializer::new_v0`). `new_v0` asserts version == 0, `new`
//! does not assert version != 0, so the mistake is silent.
use desert_core::adt::{AdtDeserializer, AdtMetadata, AdtSerializer};
use desert_core::*;

#[derive(Debug, PartialEq)]
struct P {
    a: u8,
    b: u8,
}

fn md() -> AdtMetadata {
    AdtMetadata::new(vec![Evolution::InitialVersion])
}

impl BinarySerializer for P {
    fn serialize<O: BinaryOutput>(&self, ctx: &mut SerializationContext<O>) -> Result<()> {
        let md = md();
        let mut s = AdtSerializer::new(&md, ctx);
        s.write_field("a", &self.a)?;
        s.write_field("b", &self.b)?;
        s.finish()
    }
}

impl BinaryDeserializer for P {
    fn deserialize(ctx: &mut DeserializationContext<'_>) -> Result<Self> {
        let md = md();
        let stored = ctx.read_u8()?;
        let mut d = if stored == 0 {
            AdtDeserializer::new_v0(&md, ctx)?
        } else {
            AdtDeserializer::new(&md, ctx, stored)?
        };
        Ok(P {
            a: d.read_field("a", None)?,
            b: d.read_field("b", None)?,
        })
    }
}

#[test]
fn adt_serializer_new_with_version_0_metadata_round_trips() {
    let v = P { a: 10, b: 20 };
    let bytes = serialize_to_byte_vec(&v).unwrap();
    let mut ctx = DeserializationContext::new(&bytes);
    let back = P::deserialize(&mut ctx).unwrap();
    assert_eq!(back, v, "bytes = {bytes:?}");
    assert!(ctx.read_u8().is_err(), "decode must consume the whole encoding");
}
