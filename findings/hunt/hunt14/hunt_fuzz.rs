use desert_core::adt::{AdtDeserializer, AdtMetadata, AdtSerializer};
use desert_core::*;

struct Rng(u64);
impl Rng {
    fn next(&mut self) -> u64 {
        self.0 ^= self.0 << 13;
        self.0 ^= self.0 >> 7;
        self.0 ^= self.0 << 17;
        self.0
    }
    fn below(&mut self, n: u64) -> u64 {
        self.next() % n
    }
}

#[derive(Clone, Debug)]
struct FieldDef {
    name: String,
    key: u64, // declaration order key
    added_at: usize,
    optional_at: Option<usize>, // step at which made optional (0 = from birth)
    removed_at: Option<usize>,
    transient: bool, // removed via MadeTransient
    default: i32,
}

#[derive(Clone, Debug)]
enum Step {
    Added(usize),
    MadeOptional(usize),
    Removed(usize),
    MadeTransient(usize),
}

fn gen_history(rng: &mut Rng, reuse: bool) -> (Vec<FieldDef>, Vec<Step>) {
    let mut fields: Vec<FieldDef> = Vec::new();
    let n0 = 1 + rng.below(4) as usize;
    for i in 0..n0 {
        fields.push(FieldDef {
            name: format!("f{i}"),
            key: (i as u64 + 1) * 1000,
            added_at: 0,
            optional_at: if rng.below(4) == 0 { Some(0) } else { None },
            removed_at: None,
            transient: false,
            default: 0,
        });
    }
    let mut steps = Vec::new();
    let nsteps = rng.below(7) as usize;
    for s in 1..=nsteps {
        let live: Vec<usize> = (0..fields.len()).filter(|&i| fields[i].removed_at.is_none()).collect();
        let choice = rng.below(4);
        match choice {
            0 => {
                // add
                let mut name = format!("f{}", fields.len());
                if reuse {
                    let dead: Vec<usize> = (0..fields.len())
                        .filter(|&i| fields[i].removed_at.is_some() && !fields.iter().any(|g| g.removed_at.is_none() && g.name == fields[i].name))
                        .collect();
                    if !dead.is_empty() && rng.below(2) == 0 {
                        name = fields[dead[rng.below(dead.len() as u64) as usize]].name.clone();
                    }
                }
                let idx = fields.len();
                fields.push(FieldDef {
                    name,
                    key: rng.below(6000),
                    added_at: s,
                    optional_at: if rng.below(3) == 0 { Some(0) } else { None },
                    removed_at: None,
                    transient: false,
                    default: 7000 + s as i32,
                });
                steps.push(Step::Added(idx));
            }
            1 => {
                let cands: Vec<usize> = live.iter().cloned().filter(|&i| fields[i].optional_at.is_none()).collect();
                if cands.is_empty() {
                    // fallback: add
                    let idx = fields.len();
                    fields.push(FieldDef { name: format!("f{}", fields.len()), key: rng.below(6000), added_at: s, optional_at: None, removed_at: None, transient: false, default: 7000 + s as i32 });
                    steps.push(Step::Added(idx));
                } else {
                    let i = cands[rng.below(cands.len() as u64) as usize];
                    fields[i].optional_at = Some(s);
                    steps.push(Step::MadeOptional(i));
                }
            }
            _ => {
                // remove: candidate = last live of chunk 0 (by key), or any live added field
                let mut cands: Vec<usize> = live.iter().cloned().filter(|&i| fields[i].added_at > 0).collect();
                let c0: Vec<usize> = live.iter().cloned().filter(|&i| fields[i].added_at == 0).collect();
                if let Some(&last) = c0.iter().max_by_key(|&&i| fields[i].key) {
                    cands.push(last);
                }
                if cands.is_empty() {
                    let idx = fields.len();
                    fields.push(FieldDef { name: format!("f{}", fields.len()), key: rng.below(6000), added_at: s, optional_at: None, removed_at: None, transient: false, default: 7000 + s as i32 });
                    steps.push(Step::Added(idx));
                } else {
                    let i = cands[rng.below(cands.len() as u64) as usize];
                    fields[i].removed_at = Some(s);
                    if choice == 3 {
                        fields[i].transient = true;
                        steps.push(Step::MadeTransient(i));
                    } else {
                        steps.push(Step::Removed(i));
                    }
                }
            }
        }
    }
    (fields, steps)
}

fn metadata(fields: &[FieldDef], steps: &[Step], v: usize) -> AdtMetadata {
    let mut ev = vec![Evolution::InitialVersion];
    for st in &steps[..v] {
        ev.push(match st {
            Step::Added(i) => Evolution::FieldAdded { name: fields[*i].name.clone() },
            Step::MadeOptional(i) => Evolution::FieldMadeOptional { name: fields[*i].name.clone() },
            Step::Removed(i) => Evolution::FieldRemoved { name: fields[*i].name.clone() },
            Step::MadeTransient(i) => Evolution::FieldMadeTransient { name: fields[*i].name.clone() },
        });
    }
    AdtMetadata::new(ev)
}

// live fields of version v in declaration order, with optionality at v
fn live(fields: &[FieldDef], v: usize) -> Vec<(usize, bool)> {
    let mut l: Vec<usize> = (0..fields.len())
        .filter(|&i| fields[i].added_at <= v && fields[i].removed_at.map(|r| r > v).unwrap_or(true))
        .collect();
    l.sort_by_key(|&i| fields[i].key);
    l.into_iter()
        .map(|i| (i, fields[i].optional_at.map(|o| o <= v).unwrap_or(false)))
        .collect()
}

#[derive(Debug, Clone, PartialEq)]
enum Val {
    Req(i32),
    Opt(Option<i32>),
}

fn write(fields: &[FieldDef], steps: &[Step], w: usize, vals: &[(usize, Val)], ctx: &mut SerializationContext<Vec<u8>>) -> Result<()> {
    let md = metadata(fields, steps, w);
    let mut ser = if w == 0 { AdtSerializer::new_v0(&md, ctx) } else { AdtSerializer::new(&md, ctx) };
    for (i, val) in vals {
        match val {
            Val::Req(x) => ser.write_field(&fields[*i].name, x)?,
            Val::Opt(x) => ser.write_field(&fields[*i].name, x)?,
        }
    }
    ser.finish()
}

fn read(fields: &[FieldDef], steps: &[Step], r: usize, ctx: &mut DeserializationContext) -> Result<Vec<(usize, Val)>> {
    let md = metadata(fields, steps, r);
    let stored = ctx.read_u8()?;
    let mut de = if stored == 0 { AdtDeserializer::new_v0(&md, ctx)? } else { AdtDeserializer::new(&md, ctx, stored)? };
    let mut out = Vec::new();
    for (i, opt) in live(fields, r) {
        let f = &fields[i];
        if opt {
            let d = if f.added_at > 0 { Some(Some(f.default)) } else { None };
            out.push((i, Val::Opt(de.read_optional_field(&f.name, d)?)));
        } else {
            let d = if f.added_at > 0 { Some(f.default) } else { None };
            out.push((i, Val::Req(de.read_field(&f.name, d)?)));
        }
    }
    Ok(out)
}

#[derive(Debug, PartialEq)]
enum Expect {
    Vals(Vec<(usize, Val)>),
    ErrRemoved(String),
    ErrNone(String),
}

fn expected(fields: &[FieldDef], w: usize, r: usize, vals: &[(usize, Val)]) -> Expect {
    let mut out = Vec::new();
    for (i, ropt) in live(fields, r) {
        let f = &fields[i];
        if f.added_at > w {
            out.push((i, if ropt { Val::Opt(Some(f.default)) } else { Val::Req(f.default) }));
        } else if f.removed_at.map(|x| x <= w).unwrap_or(false) {
            if ropt {
                out.push((i, Val::Opt(None)));
            } else {
                return Expect::ErrRemoved(f.name.clone());
            }
        } else {
            let wv = vals.iter().find(|(j, _)| *j == i).unwrap().1.clone();
            let v = match (wv, ropt) {
                (Val::Req(x), false) => Val::Req(x),
                (Val::Req(x), true) => Val::Opt(Some(x)),
                (Val::Opt(x), true) => Val::Opt(x),
                (Val::Opt(Some(x)), false) => Val::Req(x),
                (Val::Opt(None), false) => return Expect::ErrNone(f.name.clone()),
            };
            out.push((i, v));
        }
    }
    Expect::Vals(out)
}

fn run(seed: u64, reuse: bool) -> usize {
    let mut rng = Rng(seed.wrapping_mul(0x9E3779B97F4A7C15) | 1);
    let (fields, steps) = gen_history(&mut rng, reuse);
    let n = steps.len();
    let mut failures = 0;
    for w in 0..=n {
        let vals: Vec<(usize, Val)> = live(&fields, w)
            .into_iter()
            .map(|(i, opt)| {
                let x = rng.below(200) as i32 - 100;
                (i, if opt { Val::Opt(if rng.below(3) == 0 { None } else { Some(x) }) } else { Val::Req(x) })
            })
            .collect();
        let mut ctx = SerializationContext::new(Vec::new());
        0xAABBCCDDu32.serialize(&mut ctx).unwrap();
        if let Err(e) = write(&fields, &steps, w, &vals, &mut ctx) {
            println!("seed {seed} reuse {reuse}: ENCODE FAILED w={w}: {e:?}\n fields={fields:?}\n steps={steps:?}");
            failures += 1;
            continue;
        }
        0x11223344u32.serialize(&mut ctx).unwrap();
        let bytes = ctx.into_output();
        for r in 0..=n {
            // exclusion: stored version 0 + reader dropped a chunk-0 field
            if w == 0 && fields.iter().any(|f| f.added_at == 0 && f.removed_at.map(|x| x <= r).unwrap_or(false)) {
                continue;
            }
            let exp = expected(&fields, w, r, &vals);
            let mut dctx = DeserializationContext::new(&bytes);
            assert_eq!(u32::deserialize(&mut dctx).unwrap(), 0xAABBCCDD);
            let got = read(&fields, &steps, r, &mut dctx);
            let ok = match (&exp, &got) {
                (Expect::Vals(a), Ok(b)) => a == b && u32::deserialize(&mut dctx).ok() == Some(0x11223344),
                (Expect::ErrRemoved(n), Err(Error::FieldRemovedInSerializedVersion(m))) => n == m,
                (Expect::ErrNone(n), Err(Error::NonOptionalFieldSerializedAsNone(m))) => n == m,
                _ => false,
            };
            if !ok {
                println!("seed {seed} reuse {reuse}: MISMATCH w={w} r={r}\n exp={exp:?}\n got={got:?}\n vals={vals:?}\n fields={fields:?}\n steps={steps:?}\n bytes={bytes:?}");
                failures += 1;
            }
            // truncation
            if w >= 1 {
                for k in 4..bytes.len() - 4 {
                    let mut dctx = DeserializationContext::new(&bytes[..k]);
                    u32::deserialize(&mut dctx).unwrap();
                    let got = read(&fields, &steps, r, &mut dctx);
                    if got.is_ok() {
                        println!("seed {seed}: TRUNCATION ACCEPTED w={w} r={r} k={k} of {}", bytes.len());
                        failures += 1;
                    }
                }
            }
        }
    }
    failures
}

#[test]
fn fuzz_histories() {
    let mut total = 0;
    for seed in 1..3000u64 {
        total += run(seed, false);
        if total > 5 { break; }
    }
    assert_eq!(total, 0);
}

#[test]
fn fuzz_histories_reuse() {
    let mut total = 0;
    for seed in 1..3000u64 {
        total += run(seed, true);
        if total > 5 { break; }
    }
    assert_eq!(total, 0);
}

// ---------- nested: the fuzzed record embedded twice in an evolved outer record (chunk 0 and chunk 1) ----------
use std::cell::RefCell;
thread_local! {
    static READER: RefCell<Option<(Vec<FieldDef>, Vec<Step>, usize)>> = RefCell::new(None);
}

struct DynW<'a> {
    fields: &'a [FieldDef],
    steps: &'a [Step],
    w: usize,
    vals: &'a [(usize, Val)],
}
impl<'a> BinarySerializer for DynW<'a> {
    fn serialize<O: BinaryOutput>(&self, ctx: &mut SerializationContext<O>) -> Result<()> {
        let md = metadata(self.fields, self.steps, self.w);
        let mut ser = if self.w == 0 { AdtSerializer::new_v0(&md, ctx) } else { AdtSerializer::new(&md, ctx) };
        for (i, val) in self.vals {
            match val {
                Val::Req(x) => ser.write_field(&self.fields[*i].name, x)?,
                Val::Opt(x) => ser.write_field(&self.fields[*i].name, x)?,
            }
        }
        ser.finish()
    }
}
#[derive(Debug, PartialEq)]
struct DynR(Vec<(usize, Val)>);
impl BinaryDeserializer for DynR {
    fn deserialize(ctx: &mut DeserializationContext<'_>) -> Result<Self> {
        let (fields, steps, r) = READER.with(|c| c.borrow().clone().unwrap());
        read(&fields, &steps, r, ctx).map(DynR)
    }
}

fn run_nested(seed: u64, reuse: bool) -> usize {
    let mut rng = Rng(seed.wrapping_mul(0x9E3779B97F4A7C15) | 1);
    let (fields, steps) = gen_history(&mut rng, reuse);
    let n = steps.len();
    let mut failures = 0;
    let outer_md = AdtMetadata::new(vec![
        Evolution::InitialVersion,
        Evolution::FieldAdded { name: "n".to_string() },
        Evolution::FieldMadeOptional { name: "post".to_string() },
    ]);
    for w in 0..=n {
        let vals: Vec<(usize, Val)> = live(&fields, w)
            .into_iter()
            .map(|(i, opt)| {
                let x = rng.below(200) as i32 - 100;
                (i, if opt { Val::Opt(if rng.below(3) == 0 { None } else { Some(x) }) } else { Val::Req(x) })
            })
            .collect();
        let dynw = DynW { fields: &fields, steps: &steps, w, vals: &vals };
        let mut ctx = SerializationContext::new(Vec::new());
        {
            let mut ser = AdtSerializer::new(&outer_md, &mut ctx);
            ser.write_field("pre", &5i32).unwrap();
            ser.write_field("inner", &vec![&dynw, &dynw]).unwrap();
            ser.write_field("n", &Some(&dynw)).unwrap();
            ser.write_field("post", &Some(9i32)).unwrap();
            ser.finish().unwrap();
        }
        0x11223344u32.serialize(&mut ctx).unwrap();
        let bytes = ctx.into_output();
        for r in 0..=n {
            if w == 0 && fields.iter().any(|f| f.added_at == 0 && f.removed_at.map(|x| x <= r).unwrap_or(false)) {
                continue;
            }
            READER.with(|c| *c.borrow_mut() = Some((fields.clone(), steps.clone(), r)));
            let exp = expected(&fields, w, r, &vals);
            let mut dctx = DeserializationContext::new(&bytes);
            let sv = dctx.read_u8().unwrap();
            let mut de = AdtDeserializer::new(&outer_md, &mut dctx, sv).unwrap();
            let pre: i32 = de.read_field("pre", None).unwrap();
            assert_eq!(pre, 5);
            let inner: Result<Vec<DynR>> = de.read_field("inner", None);
            let nn: Result<Option<DynR>> = de.read_field("n", None);
            let post: Option<i32> = if inner.is_ok() { de.read_optional_field("post", None).unwrap() } else { Some(9) };
            let trailer = u32::deserialize(&mut dctx).ok();
            let ok = match (&exp, &inner, &nn) {
                (Expect::Vals(a), Ok(b), Ok(Some(c))) => b.len() == 2 && &b[0].0 == a && &b[1].0 == a && &c.0 == a,
                (Expect::ErrRemoved(n), Err(Error::FieldRemovedInSerializedVersion(m)), Err(Error::FieldRemovedInSerializedVersion(m2))) => n == m && n == m2,
                (Expect::ErrNone(n), Err(Error::NonOptionalFieldSerializedAsNone(m)), Err(Error::NonOptionalFieldSerializedAsNone(m2))) => n == m && n == m2,
                _ => false,
            } && post == Some(9) && trailer == Some(0x11223344);
            if !ok {
                println!("seed {seed} reuse {reuse}: NESTED MISMATCH w={w} r={r}\n exp={exp:?}\n inner={inner:?}\n n={nn:?} post={post:?} trailer={trailer:?}\n fields={fields:?}\n steps={steps:?}");
                failures += 1;
            }
        }
    }
    failures
}

#[test]
fn fuzz_nested() {
    let mut total = 0;
    for seed in 1..3000u64 {
        total += run_nested(seed, seed % 2 == 0);
        if total > 3 { break; }
    }
    assert_eq!(total, 0);
}
