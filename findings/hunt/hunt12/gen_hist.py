#!/usr/bin/env python3
# Generates a cross-version test for a long, legal history with reused names.
import sys

# field instances
class F:
    def __init__(s, key, name, ty, added, default, sample, opt=None, removed=None, transient=None):
        s.key=key; s.name=name; s.ty=ty; s.added=added; s.default=default; s.sample=sample
        s.opt=opt; s.removed=removed; s.transient=transient

HIST = sys.argv[1] if len(sys.argv) > 1 else "A"

if HIST == "A":
    # declaration order (adversarial: later chunks first)
    fields = [
        F("d2","d","i32",6,"-1","77"),
        F("d1","d","Vec<u8>",2,"vec![9u8]","vec![1u8,2,3]",opt=4,removed=5),
        F("a","a","u8",0,None,"200",opt=7),
        F("b1","b","String",0,None,'"bee".to_string()',opt=1,removed=8),
        F("b2","b","bool",9,"false","true",opt=10),
        F("c","c","u16",0,"0","513",transient=3),
    ]
    steps = {1:("FieldMadeOptional","b"),2:("FieldAdded","d"),3:("FieldMadeTransient","c"),4:("FieldMadeOptional","d"),
             5:("FieldRemoved","d"),6:("FieldAdded","d"),7:("FieldMadeOptional","a"),8:("FieldRemoved","b"),
             9:("FieldAdded","b"),10:("FieldMadeOptional","b")}
    NV = 11
elif HIST == "B":
    # strings everywhere, dedup strings as values, nested evolved record
    fields = [
        F("x3","x","DeduplicatedStr",5,'ds("dx3")','ds("s1")',opt=6),
        F("p","p","DeduplicatedStr",0,None,'ds("s1")'),
        F("n","n","Nested",0,None,'Nested{q: ds("x"), r: 5}',opt=2),
        F("x1","x","DeduplicatedStr",0,None,'ds("x")',opt=1,removed=3),
        F("x2","x","Nested",4,'Nested{q: ds("dflt"), r: 0}','Nested{q: ds("s1"), r: 9}',removed=5) ,
    ]
    # careful: x2 removed at 5 and x3 added at 5 cannot be the same step; fix below
    fields[0].added = 6; fields[0].opt = 7
    steps = {1:("FieldMadeOptional","x"),2:("FieldMadeOptional","n"),3:("FieldRemoved","x"),4:("FieldAdded","x"),
             5:("FieldRemoved","x"),6:("FieldAdded","x"),7:("FieldMadeOptional","x")}
    NV = 8

def alive(f, v):
    return f.added <= v and (f.removed is None or v < f.removed)
def is_opt(f, v):
    return f.opt is not None and f.opt <= v
def is_tr(f, v):
    return f.transient is not None and f.transient <= v

out = []
out.append("""#![allow(dead_code, non_snake_case, unused_imports)]
use desert_core::*;
use desert_macro::BinaryCodec;

mod desert {
    pub use desert_core::*;
}

#[derive(Debug, Clone, PartialEq)]
pub struct DeduplicatedStr(pub String);
impl BinarySerializer for DeduplicatedStr {
    fn serialize<O: BinaryOutput>(&self, c: &mut SerializationContext<O>) -> desert_core::Result<()> {
        DeduplicatedString(self.0.clone()).serialize(c)
    }
}
impl BinaryDeserializer for DeduplicatedStr {
    fn deserialize(c: &mut DeserializationContext<'_>) -> desert_core::Result<Self> {
        Ok(DeduplicatedStr(DeduplicatedString::deserialize(c)?.0))
    }
}
fn ds(s: &str) -> DeduplicatedStr { DeduplicatedStr(s.to_string()) }

#[derive(Debug, Clone, PartialEq, BinaryCodec)]
#[evolution(FieldRemoved("x"), FieldAdded("r", 0u8))]
pub struct Nested { q: DeduplicatedStr, r: u8 }

#[derive(Debug, PartialEq)]
enum Exp<T> { Val(T), Removed(&'static str), NoneForRequired(&'static str) }

fn check<W: BinarySerializer, R: BinaryDeserializer + PartialEq + std::fmt::Debug>(label: &str, w: &W, exp: Exp<R>, embedded: bool, fails: &mut Vec<String>) {
    let bytes = serialize_to_byte_vec(w).unwrap();
    let got = deserialize::<R>(&bytes);
    cmp(label, got, &exp, fails);
    if embedded {
        let bytes = serialize_to_byte_vec(&(7u8, w, "tail".to_string(), ds("s1"), ds("tail2"), ds("s1"))).unwrap();
        let got = deserialize::<(u8, R, String, DeduplicatedStr, DeduplicatedStr, DeduplicatedStr)>(&bytes);
        match got {
            Ok((seven, r, tail, s1, t2, s1b)) => {
                if seven != 7 || tail != "tail" || s1 != ds("s1") || t2 != ds("tail2") || s1b != ds("s1") {
                    fails.push(format!("{label} embedded: siblings disturbed: {seven} {tail:?} {s1:?} {t2:?} {s1b:?}"));
                }
                cmp(&format!("{label} embedded"), Ok(r), &exp, fails);
            }
            Err(e) => cmp::<R>(&format!("{label} embedded"), Err(e), &exp, fails),
        }
    }
}

fn cmp<R: PartialEq + std::fmt::Debug>(label: &str, got: desert_core::Result<R>, exp: &Exp<R>, fails: &mut Vec<String>) {
    let ok = match (&got, exp) {
        (Ok(g), Exp::Val(e)) => g == e,
        (Err(Error::FieldRemovedInSerializedVersion(n)), Exp::Removed(e)) => n == e,
        (Err(Error::NonOptionalFieldSerializedAsNone(n)), Exp::NoneForRequired(e)) => n == e,
        _ => false,
    };
    if !ok {
        fails.push(format!("{label}: expected {exp:?}, got {got:?}"));
    }
}
""")

def struct_def(v):
    s = "#[derive(Debug, Clone, PartialEq, BinaryCodec)]\n"
    if v > 0:
        parts = []
        for k in range(1, v+1):
            kind, name = steps[k]
            if kind == "FieldAdded":
                # find instance added at k
                f = [f for f in fields if f.added == k][0]
                d = f.default
                if is_opt(f, v): d = f"Some({d})"
                if not alive(f, v):
                    # default type must still typecheck? it is unused (field not in struct); but macro keeps expr in map only
                    pass
                parts.append(f'FieldAdded("{name}", {d})')
            else:
                parts.append(f'{kind}("{name}")')
        s += "#[evolution(" + ", ".join(parts) + ")]\n"
    s += f"pub struct V{v} {{\n"
    for f in fields:
        if alive(f, v):
            ty = f.ty
            if is_opt(f, v): ty = f"Option<{ty}>"
            if is_tr(f, v):
                s += f"    #[transient({f.default})]\n"
            s += f"    pub {f.name}: {ty},\n"
    s += "}\n"
    return s

for v in range(NV):
    out.append(struct_def(v))

def wvalue(w, none):
    # returns dict key -> ('some'|'none'|'plain', expr)
    vals = {}
    parts = []
    for f in fields:
        if alive(f, w):
            if is_tr(f, w):
                parts.append(f"{f.name}: {f.default}")
                continue
            if is_opt(f, w):
                if none:
                    vals[f.key] = None; parts.append(f"{f.name}: None")
                else:
                    vals[f.key] = f.sample; parts.append(f"{f.name}: Some({f.sample})")
            else:
                vals[f.key] = f.sample; parts.append(f"{f.name}: {f.sample}")
    return vals, f"V{w} {{ " + ", ".join(parts) + " }"

def expected(w, r, vals):
    parts = []
    for f in fields:
        if not alive(f, r): continue
        if is_tr(f, r):
            parts.append(f"{f.name}: {f.default}"); continue
        ropt = is_opt(f, r)
        if f.removed is not None and f.removed <= w or (f.transient is not None and f.transient <= w):
            # not serialized any more by w
            if ropt: parts.append(f"{f.name}: None"); continue
            return f'Exp::Removed("{f.name}")'
        if f.added > w:
            d = f.default
            if ropt: d = f"Some({d})"
            parts.append(f"{f.name}: {d}"); continue
        # serialized by w
        wopt = is_opt(f, w)
        val = vals[f.key]
        if wopt and val is None:
            if ropt: parts.append(f"{f.name}: None"); continue
            return f'Exp::NoneForRequired("{f.name}")'
        if ropt: parts.append(f"{f.name}: Some({val})")
        else: parts.append(f"{f.name}: {val}")
    return f"Exp::Val(V{r} {{ " + ", ".join(parts) + " })"

out.append("#[test]\nfn all_pairs() {\n    let mut fails: Vec<String> = Vec::new();\n")
for w in range(NV):
    for none in (False, True):
        vals, wexpr = wvalue(w, none)
        out.append(f"    {{ let w = {wexpr};\n")
        for r in range(NV):
            exp = expected(w, r, vals)
            # embedded excluded for stored version 0 when the reader dropped chunk-0 fields
            dropped0 = any(f.added == 0 and alive(f, 0) and ((f.removed is not None and f.removed <= r) or (f.transient is not None and f.transient <= r)) for f in fields)
            emb = "false" if (w == 0 and dropped0) else "true"
            out.append(f'      check::<V{w}, V{r}>("w{w} r{r} none={none}", &w, {exp}, {emb}, &mut fails);\n')
        out.append("    }\n")
out.append('    for f in &fails { println!("{f}"); }\n    assert!(fails.is_empty(), "{} mismatches", fails.len());\n}\n')
print("".join(out))
