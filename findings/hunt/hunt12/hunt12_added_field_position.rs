// C03 / C09: two definitions with the SAME evolution steps that differ only in where the field of a later chunk
// (FieldAdded) is declared.  Chunk-0 order is unchanged, nothing is removed, no chunk is skipped by either side,
// and for fields without string-table entries both definitions produce byte-identical encodings.  As soon as the
// fields carry string-table entries (user DeduplicatedStrings, or merely nested records whose evolution header
// names a removed field) the two definitions cannot read each other: the writer numbers strings in DECLARATION
// order while the bytes are laid out in CHUNK order, so the stream contains a back-reference before the string
// it refers to, and only a reader with the very same declaration order resolves it.
use desert_core::*;
use desert_macro::BinaryCodec;

mod desert {
    pub use desert_core::*;
}

#[derive(Debug, Clone, PartialEq)]
pub struct Dedup(pub String);
impl BinarySerializer for Dedup {
    fn serialize<O: BinaryOutput>(&self, c: &mut SerializationContext<O>) -> desert_core::Result<()> {
        DeduplicatedString(self.0.clone()).serialize(c)
    }
}
impl BinaryDeserializer for Dedup {
    fn deserialize(c: &mut DeserializationContext<'_>) -> desert_core::Result<Self> {
        Ok(Dedup(DeduplicatedString::deserialize(c)?.0))
    }
}

// a record that once lost a field: its header carries the name "old"
#[derive(Debug, Clone, PartialEq, BinaryCodec)]
#[evolution(FieldRemoved("old"))]
pub struct Leaf {
    v: u8,
}

// ---- plain fields: the position of the added field does not matter -------------------------------------------
mod plain_first {
    use super::*;
    #[derive(Debug, Clone, PartialEq, BinaryCodec)]
    #[evolution(FieldAdded("n", 0u16))]
    pub struct S {
        pub n: u16,
        pub a: u8,
    }
}
mod plain_last {
    use super::*;
    #[derive(Debug, Clone, PartialEq, BinaryCodec)]
    #[evolution(FieldAdded("n", 0u16))]
    pub struct S {
        pub a: u8,
        pub n: u16,
    }
}

#[test]
fn sanity_plain_fields_declaration_position_of_added_field_is_irrelevant() {
    let a = serialize_to_byte_vec(&plain_first::S { n: 513, a: 7 }).unwrap();
    let b = serialize_to_byte_vec(&plain_last::S { a: 7, n: 513 }).unwrap();
    assert_eq!(a, b);
    assert_eq!(deserialize::<plain_last::S>(&a).unwrap(), plain_last::S { a: 7, n: 513 });
    assert_eq!(deserialize::<plain_first::S>(&b).unwrap(), plain_first::S { n: 513, a: 7 });
}

// ---- nested evolved records (no user-level deduplicated string anywhere) --------------------------------------
mod rec_first {
    use super::*;
    #[derive(Debug, Clone, PartialEq, BinaryCodec)]
    #[evolution(FieldAdded("n", Leaf { v: 0 }))]
    pub struct S {
        pub n: Leaf,
        pub a: Leaf,
    }
}
mod rec_last {
    use super::*;
    #[derive(Debug, Clone, PartialEq, BinaryCodec)]
    #[evolution(FieldAdded("n", Leaf { v: 0 }))]
    pub struct S {
        pub a: Leaf,
        pub n: Leaf,
    }
}

#[test]
fn nested_records_with_header_names() {
    let bytes = serialize_to_byte_vec(&rec_first::S { n: Leaf { v: 1 }, a: Leaf { v: 2 } }).unwrap();
    // same definition: fine
    assert_eq!(
        deserialize::<rec_first::S>(&bytes).unwrap(),
        rec_first::S { n: Leaf { v: 1 }, a: Leaf { v: 2 } }
    );
    // same steps, same chunk layout, added field declared last
    let got = deserialize::<rec_last::S>(&bytes);
    assert_eq!(
        got.expect("same history, same chunk layout: must decode"),
        rec_last::S { a: Leaf { v: 2 }, n: Leaf { v: 1 } }
    );
}

#[test]
fn nested_records_with_header_names_other_direction() {
    let bytes = serialize_to_byte_vec(&rec_last::S { a: Leaf { v: 2 }, n: Leaf { v: 1 } }).unwrap();
    let got = deserialize::<rec_first::S>(&bytes);
    assert_eq!(
        got.expect("same history, same chunk layout: must decode"),
        rec_first::S { n: Leaf { v: 1 }, a: Leaf { v: 2 } }
    );
}

// ---- user-level deduplicated strings ---------------------------------------------------------------------------
mod ds_first {
    use super::*;
    #[derive(Debug, Clone, PartialEq, BinaryCodec)]
    #[evolution(FieldAdded("n", Dedup(String::new())))]
    pub struct S {
        pub n: Dedup,
        pub a: Dedup,
        pub b: Dedup,
    }
}
mod ds_last {
    use super::*;
    #[derive(Debug, Clone, PartialEq, BinaryCodec)]
    #[evolution(FieldAdded("n", Dedup(String::new())))]
    pub struct S {
        pub a: Dedup,
        pub b: Dedup,
        pub n: Dedup,
    }
}

#[test]
fn deduplicated_strings_silently_swap() {
    // writer ids: n="x" -> 1, a="y" -> 2, b = back-reference to 1 ("x")
    let w = ds_first::S { n: Dedup("x".into()), a: Dedup("y".into()), b: Dedup("x".into()) };
    let bytes = serialize_to_byte_vec(&w).unwrap();
    // reader ids: a="y" -> 1, b = back-reference to 1  => "y"
    let got = deserialize::<ds_last::S>(&bytes);
    assert_eq!(
        got.expect("must decode"),
        ds_last::S { a: Dedup("y".into()), b: Dedup("x".into()), n: Dedup("x".into()) }
    );
}

// ---- C09, single definition: the byte stream holds the back-reference BEFORE the string it refers to ----------
#[test]
fn stream_contains_forward_reference() {
    let w = ds_first::S { n: Dedup("xyz".into()), a: Dedup("q".into()), b: Dedup("xyz".into()) };
    let bytes = serialize_to_byte_vec(&w).unwrap();
    // version 1, chunk sizes, then chunk 0 (a, b) and chunk 1 (n)
    // a strict left-to-right reader of the stream (ids in first-occurrence order of the STREAM) sees "q" first,
    // then a reference to id 1, which would be "q"; the property says a repeat is minus the id in first-occurrence order
    let pos_full = bytes.windows(3).position(|w| w == b"xyz").unwrap();
    let pos_q = bytes.iter().position(|b| *b == b'q').unwrap();
    // the repeat of "xyz" (field b) sits right after "q" and is encoded as -1 (zig-zag 0x01)
    assert_eq!(bytes[pos_q + 1], 0x01);
    assert!(
        pos_full < pos_q,
        "first occurrence of \"xyz\" (offset {pos_full}) must precede its back-reference (offset {})",
        pos_q + 1
    );
}
