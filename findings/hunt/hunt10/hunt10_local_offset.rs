// C01 (round-trip fidelity, chrono types, DateTime<Local>)
//
// A DateTime<Local> carries its own FixedOffset (Local::Offset = FixedOffset). The codec writes only the local
// wall clock (date + time) and drops the offset; the reader re-derives an offset from the *reader's* TZ rules.
// So the decoded instant differs from the encoded one whenever the value's offset is not the one the reader's
// zone would assign to that wall clock - with TZ pinned to UTC and a perfectly unambiguous local time.
//
// Run with TZ=UTC (the tests also set it themselves).

use chrono::{DateTime, FixedOffset, Local, NaiveDate, TimeZone, Utc};
use desert_core::{deserialize, serialize_to_byte_vec};

fn pin_tz(tz: &str) {
    std::env::set_var("TZ", tz);
    // chrono re-reads TZ at most once per second
    std::thread::sleep(std::time::Duration::from_millis(1100));
}

/// A value of type DateTime<Local> built with a safe public constructor; its offset (+01:00) is not what TZ=UTC
/// would assign. The wall clock 2024-01-15 13:00:00 is unambiguous in UTC.
#[test]
fn local_datetime_with_own_offset_round_trips_under_tz_utc() {
    pin_tz("UTC");
    let utc = NaiveDate::from_ymd_opt(2024, 1, 15)
        .unwrap()
        .and_hms_opt(12, 0, 0)
        .unwrap();
    let value: DateTime<Local> =
        DateTime::from_naive_utc_and_offset(utc, FixedOffset::east_opt(3600).unwrap());

    let bytes = serialize_to_byte_vec(&value).unwrap();
    let back: DateTime<Local> = deserialize(&bytes).unwrap();

    // C01: deserialize(serialize(v)) == v
    assert_eq!(
        value,
        back,
        "instant changed: wrote {} ({} UTC), read {} ({} UTC)",
        value,
        value.with_timezone(&Utc),
        back,
        back.with_timezone(&Utc)
    );
}

/// The same through the ordinary constructor: the value is made while the process zone is one thing and
/// encoded/decoded while it is another (a value kept across a TZ change; a writer and a reader on two hosts).
#[test]
fn local_datetime_written_in_one_zone_and_read_in_another() {
    pin_tz("Europe/Budapest");
    let value: DateTime<Local> = Local.with_ymd_and_hms(2024, 1, 15, 13, 0, 0).single().unwrap();
    let bytes = serialize_to_byte_vec(&value).unwrap();

    pin_tz("UTC");
    let back: DateTime<Local> = deserialize(&bytes).unwrap();
    assert_eq!(
        value.with_timezone(&Utc),
        back.with_timezone(&Utc),
        "the decoded DateTime<Local> denotes a different instant"
    );
}
