use desert_core::*;
use desert_macro::BinaryCodec;
use std::collections::*;

mod desert {
    pub use desert_core::*;
}

#[derive(Debug, PartialEq, BinaryCodec)]
#[evolution(FieldAdded("a", 1u8), FieldRemoved("b"))]
struct U;

#[derive(Debug, PartialEq, BinaryCodec)]
enum E0 {
    V0 {},
    V1(),
    #[evolution(FieldAdded("x", None), FieldMadeOptional("y"), FieldRemoved("zz"))]
    V2 { y: Option<u8>, x: Option<Option<u32>>, },
    V3([u8; 4], [(); 3], [u16; 2], std::result::Result<u8, String>),
}

#[derive(Debug, PartialEq, BinaryCodec)]
#[evolution(FieldAdded("e", vec![]), FieldRemoved("q"), FieldAdded("m", BTreeMap::new()))]
struct Outer {
    m: BTreeMap<String, E0>,
    s: String,
    e: Vec<Vec<E0>>,
    u: U,
}

fn rt<T: BinaryCodec + std::fmt::Debug + PartialEq>(v: T) {
    let b = serialize_to_byte_vec(&v).unwrap();
    println!("{:?} -> {:?}", v, b);
    let mut sc = desert_core::SizeCalculator::new();
    let sc = serialize(&v, sc).unwrap();
    assert_eq!(sc.size(), b.len());
    assert_eq!(deserialize::<T>(&b).unwrap(), v);
}

#[test]
fn scratch() {
    rt(U);
    rt(E0::V0 {});
    rt(E0::V1());
    rt(E0::V2 { y: None, x: Some(None) });
    rt(E0::V2 { y: Some(3), x: Some(Some(7)) });
    rt(E0::V2 { y: Some(3), x: None });
    rt(E0::V3([1, 2, 3, 4], [(); 3], [5, 6], Err("x".into())));
    let mut m = BTreeMap::new();
    m.insert("k".to_string(), E0::V2 { y: None, x: None });
    rt(Outer { m, s: "s".into(), e: vec![vec![E0::V1(), E0::V2 { y: Some(1), x: Some(Some(2)) }], vec![]], u: U });
}

#[derive(Debug, PartialEq, BinaryCodec)]
#[sorted_constructors]
enum E1 {
    Zb { y: Option<u8>, t: (u8, String) },
    #[evolution(FieldAdded("x", None), FieldMadeOptional("y"), FieldRemoved("zz"))]
    Ya { y: Option<u8>, x: Option<Option<u32>>, },
    #[transient]
    Xt(u8),
    Wc([u8; 4], [u16; 2], std::result::Result<u8, String>, Vec<u8>, std::time::Duration, char),
}

#[derive(Debug, PartialEq, BinaryCodec)]
#[evolution(FieldAdded("e", vec![]), FieldRemoved("q"), FieldAdded("m", BTreeMap::new()), FieldMadeOptional("s"))]
struct Outer1 {
    m: BTreeMap<String, E1>,
    s: Option<String>,
    e: Vec<LinkedList<E1>>,
    u: U,
    d: (DeduplicatedStringW, DeduplicatedStringW),
}

#[derive(Debug, PartialEq)]
struct DeduplicatedStringW(String);
impl BinarySerializer for DeduplicatedStringW {
    fn serialize<O: BinaryOutput>(&self, c: &mut SerializationContext<O>) -> Result<()> {
        DeduplicatedString(self.0.clone()).serialize(c)
    }
}
impl BinaryDeserializer for DeduplicatedStringW {
    fn deserialize(c: &mut DeserializationContext<'_>) -> Result<Self> {
        Ok(DeduplicatedStringW(DeduplicatedString::deserialize(c)?.0))
    }
}

#[test]
fn fuzz() {
    let mut m = BTreeMap::new();
    m.insert("k".to_string(), E1::Ya { y: None, x: None });
    m.insert("l".to_string(), E1::Wc([1,2,3,4],[5,6],Ok(3),vec![9,9],std::time::Duration::new(5,6),'x'));
    let v = Outer1 { m, s: Some("s".into()), e: vec![[E1::Zb{y:Some(1), t:(2,"zz".into())}, E1::Ya { y: Some(1), x: Some(Some(2)) }].into_iter().collect(), LinkedList::new()], u: U,
      d: (DeduplicatedStringW("zz".into()), DeduplicatedStringW("b".into())) };
    let b = serialize_to_byte_vec(&v).unwrap();
    println!("{:?}", b);
    assert_eq!(deserialize::<Outer1>(&b).unwrap(), v);
    let mut seed: u64 = 0x1234567;
    let mut next = || { seed ^= seed << 13; seed ^= seed >> 7; seed ^= seed << 17; seed };
    let mut oks = 0;
    for i in 0..400000 {
        let mut c = b.clone();
        let n = 1 + next() % 3;
        for _ in 0..n {
            let p = (next() as usize) % c.len();
            match next() % 4 { 0 => c[p] = next() as u8, 1 => c[p] ^= 1 << (next()%8), 2 => { c.insert(p, next() as u8); } _ => { c.remove(p); } }
        }
        let r = std::panic::catch_unwind(|| deserialize::<Outer1>(&c).map(|x| serialize_to_byte_vec(&x)));
        match r { Err(_) => panic!("panic on {:?} (iter {i})", c), Ok(Ok(_)) => oks += 1, _ => {} }
    }
    println!("oks {oks}");
}
