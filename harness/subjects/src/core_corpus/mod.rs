//! A small generated corpus that is always compiled in (also in the sanitizer and Miri lanes).
use desert::BinaryCodec;
use refmodel::evo::{HStep, History};
use refmodel::{EnumSchema, RecordSchema, Step, Ty, Val, VariantKind, VariantSchema};
use sbase::t::*;
use sbase::{FamilyEntry, HistoryEntry, Model, Registry};


pub type MyOpt<T> = Option<T>;

include!("gen.rs");
