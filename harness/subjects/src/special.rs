//! Hand-written declarations for workloads that need a particular shape (deep recursion, dedup strings in evolved
//! records, names equal to payload strings …).  Everything else is generated.

use desert::BinaryCodec;
use refmodel::{EnumSchema, FieldSchema, RecordSchema, Step, Ty, Val, VariantKind, VariantSchema};
use sbase::t::*;
use sbase::{Model, Registry};
use std::sync::Arc;

// ---- unbounded nesting -----------------------------------------------------------------------------

#[derive(BinaryCodec)]
pub struct DeepRec {
    pub v: u8,
    pub next: Option<Box<DeepRec>>,
}

impl Model for DeepRec {
    fn ty() -> Ty {
        Ty::Named("DeepRec".into())
    }
    fn from_val(v: &Val) -> Self {
        // iterative, so that the harness itself does not overflow its stack on deep values
        let mut vals = Vec::new();
        let mut cur = v;
        loop {
            match cur {
                Val::Rec(f) if f.len() == 2 => {
                    vals.push(u8::from_val(&f[0]));
                    match &f[1] {
                        Val::Some(inner) => cur = inner,
                        _ => break,
                    }
                }
                _ => panic!("harness: from_val::<DeepRec>"),
            }
        }
        let mut node: Option<Box<DeepRec>> = None;
        for x in vals.into_iter().rev() {
            node = Some(Box::new(DeepRec { v: x, next: node }));
        }
        *node.unwrap()
    }
    fn to_val(&self) -> Val {
        let mut vals = Vec::new();
        let mut cur = Some(self);
        while let Some(n) = cur {
            vals.push(n.v);
            cur = n.next.as_deref();
        }
        let mut v = Val::None;
        for x in vals.into_iter().rev() {
            v = Val::some(Val::Rec(vec![Val::U(x as u128), v]));
        }
        match v {
            Val::Some(b) => *b,
            _ => unreachable!(),
        }
    }
}

impl Drop for DeepRec {
    fn drop(&mut self) {
        // iterative drop: deep values must not overflow the harness's stack when they are released
        let mut next = self.next.take();
        while let Some(mut n) = next {
            next = n.next.take();
        }
    }
}

#[derive(BinaryCodec)]
pub struct DeepVec {
    pub kids: Vec<DeepVec>,
}

impl Model for DeepVec {
    fn ty() -> Ty {
        Ty::Named("DeepVec".into())
    }
    fn from_val(v: &Val) -> Self {
        match v {
            Val::Rec(f) if f.len() == 1 => DeepVec { kids: <Vec<DeepVec>>::from_val(&f[0]) },
            _ => panic!("harness: from_val::<DeepVec>"),
        }
    }
    fn to_val(&self) -> Val {
        Val::Rec(vec![self.kids.to_val()])
    }
}

#[derive(BinaryCodec)]
pub enum DeepEnum {
    Leaf(u16),
    Node(Box<DeepEnum>),
}

impl Model for DeepEnum {
    fn ty() -> Ty {
        Ty::Named("DeepEnum".into())
    }
    fn from_val(v: &Val) -> Self {
        match v {
            Val::Ctor(0, f) => DeepEnum::Leaf(u16::from_val(&f[0])),
            Val::Ctor(1, f) => DeepEnum::Node(Box::new(DeepEnum::from_val(&f[0]))),
            _ => panic!("harness: from_val::<DeepEnum>"),
        }
    }
    fn to_val(&self) -> Val {
        match self {
            DeepEnum::Leaf(x) => Val::Ctor(0, vec![x.to_val()]),
            DeepEnum::Node(n) => Val::Ctor(1, vec![n.to_val()]),
        }
    }
}

fn f<T: Model>(name: &str, opt: bool) -> FieldSchema {
    sbase::fs::<T>(name, opt, false, None)
}

// ---- deduplicated strings inside records with evolution headers (C09) ------------------------------

/// header carries a removed name ("gone")
#[derive(BinaryCodec)]
#[evolution(FieldRemoved("gone"))]
pub struct DedupRemoved {
    pub s: DeduplicatedString,
    pub t: DeduplicatedString,
}

/// header carries two names, one of them made transient; a payload string may equal a name
#[derive(BinaryCodec)]
#[evolution(FieldAdded("t", DeduplicatedString("dflt".to_string())), FieldRemoved("p"), FieldMadeTransient("cache"))]
pub struct DedupMixed {
    pub s: DeduplicatedString,
    pub t: DeduplicatedString,
    #[transient(7u8)]
    pub cache: u8,
    pub u: String,
}

/// evolved, but no names in the header
#[derive(BinaryCodec)]
#[evolution(FieldAdded("t", DeduplicatedString("x".to_string())), FieldMadeOptional("o"))]
pub struct DedupNoNames {
    pub s: DeduplicatedString,
    pub o: Option<DeduplicatedString>,
    pub t: DeduplicatedString,
}

/// version 0 record with dedup strings
#[derive(BinaryCodec)]
pub struct DedupV0 {
    pub a: DeduplicatedString,
    pub b: String,
    pub c: DeduplicatedString,
}

include!("special_gen.rs");

/// evolution metadata that references a field the record does not have: every encode must fail with the dedicated error
#[derive(BinaryCodec)]
#[evolution(FieldMadeOptional("nope"))]
pub struct BadEvolution {
    pub a: u8,
}

macro_rules! rec_model {
    ($t:ident { $($f:ident : $ft:ty),+ }) => {
        impl Model for $t {
            fn ty() -> Ty { Ty::Named(stringify!($t).into()) }
            fn from_val(v: &Val) -> Self {
                match v {
                    Val::Rec(fs) => { let mut i = 0; $( let $f = <$ft as Model>::from_val(&fs[i]); i += 1; )+ let _ = i; $t { $($f),+ } }
                    _ => panic!("harness: from_val::<{}>", stringify!($t)),
                }
            }
            fn to_val(&self) -> Val { Val::Rec(vec![$(self.$f.to_val()),+]) }
        }
    };
}
rec_model!(DedupRemoved { s: DeduplicatedString, t: DeduplicatedString });
rec_model!(DedupMixed { s: DeduplicatedString, t: DeduplicatedString, cache: u8, u: String });
rec_model!(DedupNoNames { s: DeduplicatedString, o: Option<DeduplicatedString>, t: DeduplicatedString });
rec_model!(DedupV0 { a: DeduplicatedString, b: String, c: DeduplicatedString });
rec_model!(MaxSteps { a: u8, b: String });
rec_model!(BadEvolution { a: u8 });

pub fn register(reg: &mut Registry) {
    refmodel::register(
        "DeepRec",
        Ty::Record(Arc::new(RecordSchema {
            name: "DeepRec".into(),
            fields: vec![f::<u8>("v", false), f::<Option<Box<DeepRec>>>("next", true)],
            steps: vec![],
        })),
    );
    refmodel::register(
        "DeepVec",
        Ty::Record(Arc::new(RecordSchema { name: "DeepVec".into(), fields: vec![f::<Vec<DeepVec>>("kids", false)], steps: vec![] })),
    );
    refmodel::register(
        "DeepEnum",
        Ty::Enum(Arc::new(EnumSchema {
            name: "DeepEnum".into(),
            sorted: false,
            variants: vec![
                VariantSchema {
                    name: "Leaf".into(),
                    kind: VariantKind::Tuple,
                    transient: false,
                    record: RecordSchema { name: "Leaf".into(), fields: vec![f::<u16>("field0", false)], steps: vec![] },
                },
                VariantSchema {
                    name: "Node".into(),
                    kind: VariantKind::Tuple,
                    transient: false,
                    record: RecordSchema { name: "Node".into(), fields: vec![f::<Box<DeepEnum>>("field0", false)], steps: vec![] },
                },
            ],
        })),
    );
    refmodel::register(
        "DedupRemoved",
        Ty::Record(Arc::new(RecordSchema {
            name: "DedupRemoved".into(),
            fields: vec![f::<DeduplicatedString>("s", false), f::<DeduplicatedString>("t", false)],
            steps: vec![Step::Removed("gone".into())],
        })),
    );
    refmodel::register(
        "DedupMixed",
        Ty::Record(Arc::new(RecordSchema {
            name: "DedupMixed".into(),
            fields: vec![
                f::<DeduplicatedString>("s", false),
                sbase::fs::<DeduplicatedString>("t", false, false, Some(Val::Str("dflt".into()))),
                sbase::fs::<u8>("cache", false, true, Some(Val::U(7))),
                f::<String>("u", false),
            ],
            steps: vec![Step::Added("t".into()), Step::Removed("p".into()), Step::MadeTransient("cache".into())],
        })),
    );
    refmodel::register(
        "DedupNoNames",
        Ty::Record(Arc::new(RecordSchema {
            name: "DedupNoNames".into(),
            fields: vec![
                f::<DeduplicatedString>("s", false),
                f::<Option<DeduplicatedString>>("o", true),
                sbase::fs::<DeduplicatedString>("t", false, false, Some(Val::Str("x".into()))),
            ],
            steps: vec![Step::Added("t".into()), Step::MadeOptional("o".into())],
        })),
    );
    refmodel::register(
        "DedupV0",
        Ty::Record(Arc::new(RecordSchema {
            name: "DedupV0".into(),
            fields: vec![f::<DeduplicatedString>("a", false), f::<String>("b", false), f::<DeduplicatedString>("c", false)],
            steps: vec![],
        })),
    );
    refmodel::register(
        "MaxSteps",
        Ty::Record(Arc::new(RecordSchema {
            name: "MaxSteps".into(),
            fields: vec![f::<u8>("a", false), f::<String>("b", false)],
            steps: (0..254).map(|i| Step::Removed(format!("old{i}"))).collect(),
        })),
    );
    refmodel::register(
        "BadEvolution",
        Ty::Record(Arc::new(RecordSchema { name: "BadEvolution".into(), fields: vec![f::<u8>("a", false)], steps: vec![Step::MadeOptional("nope".into())] })),
    );
    reg.add_tagged::<MaxSteps>("MaxSteps", &["special:limits"]);
    // not registered as an ordinary subject (it can never be encoded): C17 addresses it by name
    reg.add_tagged::<BadEvolution>("BadEvolution", &["special:unencodable"]);
    reg.add_tagged::<DeepRec>("DeepRec", &["special:recursive", "recursive"]);
    reg.add_tagged::<DeepVec>("DeepVec", &["special:recursive", "recursive"]);
    reg.add_tagged::<DeepEnum>("DeepEnum", &["special:recursive", "recursive"]);
    reg.add_tagged::<DedupRemoved>("DedupRemoved", &["special:dedup", "dedup_header_names"]);
    reg.add_tagged::<DedupMixed>("DedupMixed", &["special:dedup", "dedup_header_names"]);
    reg.add_tagged::<DedupNoNames>("DedupNoNames", &["special:dedup"]);
    reg.add_tagged::<DedupV0>("DedupV0", &["special:dedup"]);
    // containers of them: the string table spans the whole stream
    reg.add_tagged::<Vec<DedupRemoved>>("Vec<DedupRemoved>", &["special:dedup", "dedup_header_names"]);
    reg.add_tagged::<(DeduplicatedString, DedupRemoved, DeduplicatedString)>("(DeduplicatedString, DedupRemoved, DeduplicatedString)", &["special:dedup", "dedup_header_names"]);
    reg.add_tagged::<(DedupMixed, DeduplicatedString, DedupV0)>("(DedupMixed, DeduplicatedString, DedupV0)", &["special:dedup", "dedup_header_names"]);
    reg.add_tagged::<Vec<DedupNoNames>>("Vec<DedupNoNames>", &["special:dedup"]);
}
