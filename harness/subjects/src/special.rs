//! Hand-written declarations for workloads that need a particular shape (deep recursion, dedup strings in evolved
//! records, names equal to payload strings …).  Everything else is generated.

use desert::BinaryCodec;
use refmodel::{EnumSchema, FieldSchema, RecordSchema, Step, Ty, Val, VariantKind, VariantSchema};
use sbase::t::*;
use sbase::{Model, Registry};
use std::sync::Arc;

// ---- unbounded nesting -----------------------------------------------------------------------------

#[derive(BinaryCodec)]
pub struct DeepRec {
    pub v: u8,
    pub next: Option<Box<DeepRec>>,
}

impl Model for DeepRec {
    fn ty() -> Ty {
        Ty::Named("DeepRec".into())
    }
    fn from_val(v: &Val) -> Self {
        // iterative, so that the harness itself does not overflow its stack on deep values
        let mut vals = Vec::new();
        let mut cur = v;
        loop {
            match cur {
                Val::Rec(f) if f.len() == 2 => {
                    vals.push(u8::from_val(&f[0]));
                    match &f[1] {
                        Val::Some(inner) => cur = inner,
                        _ => break,
                    }
                }
                _ => panic!("harness: from_val::<DeepRec>"),
            }
        }
        let mut node: Option<Box<DeepRec>> = None;
        for x in vals.into_iter().rev() {
            node = Some(Box::new(DeepRec { v: x, next: node }));
        }
        *node.unwrap()
    }
    fn to_val(&self) -> Val {
        let mut vals = Vec::new();
        let mut cur = Some(self);
        while let Some(n) = cur {
            vals.push(n.v);
            cur = n.next.as_deref();
        }
        let mut v = Val::None;
        for x in vals.into_iter().rev() {
            v = Val::some(Val::Rec(vec![Val::U(x as u128), v]));
        }
        match v {
            Val::Some(b) => *b,
            _ => unreachable!(),
        }
    }
}

impl Drop for DeepRec {
    fn drop(&mut self) {
        // iterative drop: deep values must not overflow the harness's stack when they are released
        let mut next = self.next.take();
        while let Some(mut n) = next {
            next = n.next.take();
        }
    }
}

/// the same chain with an evolution header at every level (region and buffer stacks as deep as the value)
#[derive(BinaryCodec)]
#[evolution(FieldAdded("tag", 0u8))]
pub struct DeepEvolved {
    pub v: u8,
    pub next: Option<Box<DeepEvolved>>,
    pub tag: u8,
}

impl Model for DeepEvolved {
    fn ty() -> Ty {
        Ty::Named("DeepEvolved".into())
    }
    fn from_val(v: &Val) -> Self {
        let mut vals = Vec::new();
        let mut cur = v;
        loop {
            match cur {
                Val::Rec(f) if f.len() == 3 => {
                    vals.push((u8::from_val(&f[0]), u8::from_val(&f[2])));
                    match &f[1] {
                        Val::Some(inner) => cur = inner,
                        _ => break,
                    }
                }
                _ => panic!("harness: from_val::<DeepEvolved>"),
            }
        }
        let mut node: Option<Box<DeepEvolved>> = None;
        for (x, t) in vals.into_iter().rev() {
            node = Some(Box::new(DeepEvolved { v: x, next: node, tag: t }));
        }
        *node.unwrap()
    }
    fn to_val(&self) -> Val {
        let mut vals = Vec::new();
        let mut cur = Some(self);
        while let Some(n) = cur {
            vals.push((n.v, n.tag));
            cur = n.next.as_deref();
        }
        let mut v = Val::None;
        for (x, t) in vals.into_iter().rev() {
            v = Val::some(Val::Rec(vec![Val::U(x as u128), v, Val::U(t as u128)]));
        }
        match v {
            Val::Some(b) => *b,
            _ => unreachable!(),
        }
    }
}

impl Drop for DeepEvolved {
    fn drop(&mut self) {
        let mut next = self.next.take();
        while let Some(mut n) = next {
            next = n.next.take();
        }
    }
}

#[derive(BinaryCodec)]
pub struct DeepVec {
    pub kids: Vec<DeepVec>,
}

impl Model for DeepVec {
    fn ty() -> Ty {
        Ty::Named("DeepVec".into())
    }
    fn from_val(v: &Val) -> Self {
        match v {
            Val::Rec(f) if f.len() == 1 => DeepVec { kids: <Vec<DeepVec>>::from_val(&f[0]) },
            _ => panic!("harness: from_val::<DeepVec>"),
        }
    }
    fn to_val(&self) -> Val {
        Val::Rec(vec![self.kids.to_val()])
    }
}

#[derive(BinaryCodec)]
pub enum DeepEnum {
    Leaf(u16),
    Node(Box<DeepEnum>),
}

impl Model for DeepEnum {
    fn ty() -> Ty {
        Ty::Named("DeepEnum".into())
    }
    fn from_val(v: &Val) -> Self {
        match v {
            Val::Ctor(0, f) => DeepEnum::Leaf(u16::from_val(&f[0])),
            Val::Ctor(1, f) => DeepEnum::Node(Box::new(DeepEnum::from_val(&f[0]))),
            _ => panic!("harness: from_val::<DeepEnum>"),
        }
    }
    fn to_val(&self) -> Val {
        match self {
            DeepEnum::Leaf(x) => Val::Ctor(0, vec![x.to_val()]),
            DeepEnum::Node(n) => Val::Ctor(1, vec![n.to_val()]),
        }
    }
}

fn f<T: Model>(name: &str, opt: bool) -> FieldSchema {
    sbase::fs::<T>(name, opt, false, None)
}

// ---- deduplicated strings inside records with evolution headers (C09) ------------------------------

/// header carries a removed name ("gone")
#[derive(BinaryCodec)]
#[evolution(FieldRemoved("gone"))]
pub struct DedupRemoved {
    pub s: DeduplicatedString,
    pub t: DeduplicatedString,
}

/// header carries two names, one of them made transient; a payload string may equal a name
#[derive(BinaryCodec)]
#[evolution(FieldAdded("t", DeduplicatedString("dflt".to_string())), FieldRemoved("p"), FieldMadeTransient("cache"))]
pub struct DedupMixed {
    pub s: DeduplicatedString,
    pub t: DeduplicatedString,
    #[transient(7u8)]
    pub cache: u8,
    pub u: String,
}

/// evolved, but no names in the header
#[derive(BinaryCodec)]
#[evolution(FieldAdded("t", DeduplicatedString("x".to_string())), FieldMadeOptional("o"))]
pub struct DedupNoNames {
    pub s: DeduplicatedString,
    pub o: Option<DeduplicatedString>,
    pub t: DeduplicatedString,
}

/// the added field is declared *before* the fields of chunk 0: strings are numbered in the order the fields are written
/// (declaration order), the chunks are laid out in chunk order
#[derive(BinaryCodec)]
#[evolution(FieldAdded("t", DeduplicatedString("dflt".to_string())))]
pub struct DedupAddedFirst {
    pub t: DeduplicatedString,
    pub s: DeduplicatedString,
    pub u: DeduplicatedString,
}

/// version 0 record with dedup strings
#[derive(BinaryCodec)]
pub struct DedupV0 {
    pub a: DeduplicatedString,
    pub b: String,
    pub c: DeduplicatedString,
}

include!("special_gen.rs");

/// evolution metadata that references a field the record does not have: every encode must fail with the dedicated error
#[derive(BinaryCodec)]
#[evolution(FieldMadeOptional("nope"))]
pub struct BadEvolution {
    pub a: u8,
}

/// a field name removed and later re-added: the removal concerns the earlier field of that name (before repair 6th of the
/// bug hunt such a type could not read its own data). Data from the version in between reads with the default.
#[derive(BinaryCodec)]
#[evolution(FieldRemoved("x"), FieldAdded("x", 7777u32))]
pub struct ReusedName {
    pub a: u32,
    pub x: u32,
}

/// the same with an optional field: the format assigns None
#[derive(BinaryCodec)]
#[evolution(FieldRemoved("x"), FieldAdded("x", Some(7777u32)))]
pub struct ReusedNameOpt {
    pub a: u32,
    pub x: Option<u32>,
}

/// … and the re-added field made optional afterwards
#[derive(BinaryCodec)]
#[evolution(FieldRemoved("x"), FieldAdded("x", Some(5u8)), FieldMadeOptional("x"))]
pub struct ReusedThenOptional {
    pub a: u8,
    pub x: Option<u8>,
}

macro_rules! rec_model {
    ($t:ident { $($f:ident : $ft:ty),+ }) => {
        impl Model for $t {
            fn ty() -> Ty { Ty::Named(stringify!($t).into()) }
            fn from_val(v: &Val) -> Self {
                match v {
                    Val::Rec(fs) => { let mut i = 0; $( let $f = <$ft as Model>::from_val(&fs[i]); i += 1; )+ let _ = i; $t { $($f),+ } }
                    _ => panic!("harness: from_val::<{}>", stringify!($t)),
                }
            }
            fn to_val(&self) -> Val { Val::Rec(vec![$(self.$f.to_val()),+]) }
        }
    };
}
rec_model!(DedupRemoved { s: DeduplicatedString, t: DeduplicatedString });
rec_model!(DedupMixed { s: DeduplicatedString, t: DeduplicatedString, cache: u8, u: String });
rec_model!(DedupNoNames { s: DeduplicatedString, o: Option<DeduplicatedString>, t: DeduplicatedString });
rec_model!(DedupV0 { a: DeduplicatedString, b: String, c: DeduplicatedString });
rec_model!(DedupAddedFirst { t: DeduplicatedString, s: DeduplicatedString, u: DeduplicatedString });
rec_model!(MaxSteps { a: u8, b: String });
rec_model!(BadEvolution { a: u8 });
include!("special_wide.rs");
rec_model!(ReusedName { a: u32, x: u32 });
rec_model!(ReusedNameOpt { a: u32, x: Option<u32> });
rec_model!(ReusedThenOptional { a: u8, x: Option<u8> });

// ---- twelve levels of records that all carry an evolution header (region / buffer stacks deeper than any generated nesting) ----

macro_rules! nest_level {
    ($name:ident, $next:ident) => {
        #[derive(BinaryCodec)]
        #[evolution(FieldAdded("tail", 0u32))]
        pub struct $name {
            pub head: u8,
            pub kids: Vec<$next>,
            pub tail: u32,
        }
        rec_model!($name { head: u8, kids: Vec<$next>, tail: u32 });
    };
}
nest_level!(Nest0, Nest1);
nest_level!(Nest1, Nest2);
nest_level!(Nest2, Nest3);
nest_level!(Nest3, Nest4);
nest_level!(Nest4, Nest5);
nest_level!(Nest5, Nest6);
nest_level!(Nest6, Nest7);
nest_level!(Nest7, Nest8);
nest_level!(Nest8, Nest9);
nest_level!(Nest9, Nest10);
nest_level!(Nest10, Nest11);
#[derive(BinaryCodec)]
#[evolution(FieldAdded("tail", 0u32))]
pub struct Nest11 {
    pub head: u8,
    pub tail: u32,
}
rec_model!(Nest11 { head: u8, tail: u32 });
pub const NEST_LEVELS: usize = 12;


// ---- the Scala golden data set (desert_macro/golden/dataset1.bin): same declarations as the repository's golden test ----

pub mod golden {
    use super::*;
    use desert::{BinaryDeserializer, BinaryInput, BinaryOutput, BinarySerializer, DeserializationContext, SerializationContext};

    #[derive(BinaryCodec)]
    #[evolution(FieldMadeOptional("option"), FieldAdded("string", "default string".to_string()), FieldAdded("set", HashSet::new()))]
    pub struct TestModel1 {
        pub byte: i8,
        pub short: i16,
        pub int: i32,
        pub long: i64,
        pub float: f32,
        pub double: f64,
        pub boolean: bool,
        pub unit: (),
        pub string: String,
        pub uuid: Uuid,
        pub exception: Throwable,
        pub list: Vec<ListElement1>,
        pub array: Vec<i64>,
        pub vector: Vec<ListElement1>,
        pub set: HashSet<String>,
        pub either: Result<bool, String>,
        pub tried: Result<ListElement2, Throwable>,
        pub option: Option<HashMap<String, ListElement2>>,
    }

    #[derive(BinaryCodec)]
    pub struct ListElement1 {
        pub id: String,
    }

    #[derive(BinaryCodec)]
    #[sorted_constructors]
    pub enum ListElement2 {
        First {
            elem: ListElement1,
        },
        #[evolution(FieldMadeTransient("cached"))]
        Second {
            uuid: Uuid,
            desc: Option<String>,
            #[transient(None)]
            _cached: Option<String>,
        },
        #[transient]
        Third {
            _file: u8,
        },
    }

    #[derive(BinaryCodec)]
    pub struct Throwable {
        pub class_name: String,
        pub message: String,
        pub stack_trace: Vec<StackTraceElement>,
        pub cause: Option<Box<Throwable>>,
    }

    pub struct StackTraceElement {
        pub class_name: Option<String>,
        pub method_name: Option<String>,
        pub file_name: Option<String>,
        pub line_number: u32,
    }

    impl BinarySerializer for StackTraceElement {
        fn serialize<Output: BinaryOutput>(&self, context: &mut SerializationContext<Output>) -> desert::Result<()> {
            context.write_u8(0);
            self.class_name.serialize(context)?;
            self.method_name.serialize(context)?;
            self.file_name.serialize(context)?;
            context.write_var_u32(self.line_number);
            Ok(())
        }
    }

    impl BinaryDeserializer for StackTraceElement {
        fn deserialize(context: &mut DeserializationContext<'_>) -> desert::Result<Self> {
            let hdr = context.read_u8()?;
            if hdr != 0 {
                return Err(desert::Error::DeserializationFailure("stack trace element header".into()));
            }
            Ok(StackTraceElement {
                class_name: Option::<String>::deserialize(context)?,
                method_name: Option::<String>::deserialize(context)?,
                file_name: Option::<String>::deserialize(context)?,
                line_number: context.read_var_u32()?,
            })
        }
    }

    impl Model for StackTraceElement {
        fn ty() -> Ty {
            Ty::Named("StackTraceElement".into())
        }
        fn from_val(v: &Val) -> Self {
            match v {
                Val::Rec(f) if f.len() == 4 => StackTraceElement {
                    class_name: Model::from_val(&f[0]),
                    method_name: Model::from_val(&f[1]),
                    file_name: Model::from_val(&f[2]),
                    line_number: match &f[3] {
                        Val::U(x) => *x as u32,
                        _ => panic!("harness: line number"),
                    },
                },
                _ => panic!("harness: from_val::<StackTraceElement>"),
            }
        }
        fn to_val(&self) -> Val {
            Val::Rec(vec![self.class_name.to_val(), self.method_name.to_val(), self.file_name.to_val(), Val::U(self.line_number as u128)])
        }
    }

    rec_model!(ListElement1 { id: String });
    rec_model!(Throwable { class_name: String, message: String, stack_trace: Vec<StackTraceElement>, cause: Option<Box<Throwable>> });
    rec_model!(TestModel1 {
        byte: i8, short: i16, int: i32, long: i64, float: f32, double: f64, boolean: bool, unit: (), string: String, uuid: Uuid,
        exception: Throwable, list: Vec<ListElement1>, array: Vec<i64>, vector: Vec<ListElement1>, set: HashSet<String>,
        either: Result<bool, String>, tried: Result<ListElement2, Throwable>, option: Option<HashMap<String, ListElement2>>
    });

    impl Model for ListElement2 {
        fn ty() -> Ty {
            Ty::Named("ListElement2".into())
        }
        fn from_val(v: &Val) -> Self {
            match v {
                Val::Ctor(0, f) => ListElement2::First { elem: Model::from_val(&f[0]) },
                Val::Ctor(1, f) => ListElement2::Second { uuid: Model::from_val(&f[0]), desc: Model::from_val(&f[1]), _cached: Model::from_val(&f[2]) },
                Val::Ctor(2, f) => ListElement2::Third { _file: Model::from_val(&f[0]) },
                _ => panic!("harness: from_val::<ListElement2>"),
            }
        }
        fn to_val(&self) -> Val {
            match self {
                ListElement2::First { elem } => Val::Ctor(0, vec![elem.to_val()]),
                ListElement2::Second { uuid, desc, _cached } => Val::Ctor(1, vec![uuid.to_val(), desc.to_val(), _cached.to_val()]),
                ListElement2::Third { _file } => Val::Ctor(2, vec![_file.to_val()]),
            }
        }
    }

    pub fn register(reg: &mut Registry) {
        let rec = |name: &str, fields: Vec<FieldSchema>, steps: Vec<Step>| RecordSchema { name: name.into(), fields, steps };
        refmodel::register(
            "StackTraceElement",
            Ty::Record(Arc::new(rec(
                "StackTraceElement",
                vec![
                    f::<Option<String>>("class_name", true),
                    f::<Option<String>>("method_name", true),
                    f::<Option<String>>("file_name", true),
                    FieldSchema { name: "line_number".into(), ty: Ty::VarU32, opt_by_name: false, transient: false, default: None },
                ],
                vec![],
            ))),
        );
        refmodel::register("ListElement1", Ty::Record(Arc::new(rec("ListElement1", vec![f::<String>("id", false)], vec![]))));
        refmodel::register(
            "Throwable",
            Ty::Record(Arc::new(rec(
                "Throwable",
                vec![f::<String>("class_name", false), f::<String>("message", false), f::<Vec<StackTraceElement>>("stack_trace", false), f::<Option<Box<Throwable>>>("cause", true)],
                vec![],
            ))),
        );
        refmodel::register(
            "ListElement2",
            Ty::Enum(Arc::new(EnumSchema {
                name: "ListElement2".into(),
                sorted: true,
                variants: vec![
                    VariantSchema { name: "First".into(), kind: VariantKind::Struct, transient: false, record: rec("First", vec![f::<ListElement1>("elem", false)], vec![]) },
                    VariantSchema {
                        name: "Second".into(),
                        kind: VariantKind::Struct,
                        transient: false,
                        record: rec(
                            "Second",
                            vec![f::<Uuid>("uuid", false), f::<Option<String>>("desc", true), sbase::fs::<Option<String>>("_cached", true, true, Some(Val::None))],
                            vec![Step::MadeTransient("cached".into())],
                        ),
                    },
                    VariantSchema { name: "Third".into(), kind: VariantKind::Struct, transient: true, record: rec("Third", vec![f::<u8>("_file", false)], vec![]) },
                ],
            })),
        );
        refmodel::register(
            "TestModel1",
            Ty::Record(Arc::new(rec(
                "TestModel1",
                vec![
                    f::<i8>("byte", false),
                    f::<i16>("short", false),
                    f::<i32>("int", false),
                    f::<i64>("long", false),
                    f::<f32>("float", false),
                    f::<f64>("double", false),
                    f::<bool>("boolean", false),
                    f::<()>("unit", false),
                    sbase::fs::<String>("string", false, false, Some(Val::Str("default string".into()))),
                    f::<Uuid>("uuid", false),
                    f::<Throwable>("exception", false),
                    f::<Vec<ListElement1>>("list", false),
                    f::<Vec<i64>>("array", false),
                    f::<Vec<ListElement1>>("vector", false),
                    sbase::fs::<HashSet<String>>("set", false, false, Some(Val::Seq(vec![]))),
                    f::<Result<bool, String>>("either", false),
                    f::<Result<ListElement2, Throwable>>("tried", false),
                    f::<Option<HashMap<String, ListElement2>>>("option", true),
                ],
                vec![Step::MadeOptional("option".into()), Step::Added("string".into()), Step::Added("set".into())],
            ))),
        );
        reg.add_tagged::<TestModel1>("TestModel1", &["special:golden"]);
        reg.add_tagged::<Throwable>("Throwable", &["special:golden", "recursive"]);
        reg.add_tagged::<ListElement2>("ListElement2", &["special:golden"]);
    }
}

pub fn register(reg: &mut Registry) {
    golden::register(reg);
    refmodel::register(
        "DeepRec",
        Ty::Record(Arc::new(RecordSchema {
            name: "DeepRec".into(),
            fields: vec![f::<u8>("v", false), f::<Option<Box<DeepRec>>>("next", true)],
            steps: vec![],
        })),
    );
    refmodel::register(
        "DeepEvolved",
        Ty::Record(Arc::new(RecordSchema {
            name: "DeepEvolved".into(),
            fields: vec![f::<u8>("v", false), f::<Option<Box<DeepEvolved>>>("next", true), sbase::fs::<u8>("tag", false, false, Some(Val::U(0)))],
            steps: vec![Step::Added("tag".into())],
        })),
    );
    reg.add_tagged::<DeepEvolved>("DeepEvolved", &["special:recursive", "recursive"]);
    refmodel::register(
        "DeepVec",
        Ty::Record(Arc::new(RecordSchema { name: "DeepVec".into(), fields: vec![f::<Vec<DeepVec>>("kids", false)], steps: vec![] })),
    );
    refmodel::register(
        "DeepEnum",
        Ty::Enum(Arc::new(EnumSchema {
            name: "DeepEnum".into(),
            sorted: false,
            variants: vec![
                VariantSchema {
                    name: "Leaf".into(),
                    kind: VariantKind::Tuple,
                    transient: false,
                    record: RecordSchema { name: "Leaf".into(), fields: vec![f::<u16>("field0", false)], steps: vec![] },
                },
                VariantSchema {
                    name: "Node".into(),
                    kind: VariantKind::Tuple,
                    transient: false,
                    record: RecordSchema { name: "Node".into(), fields: vec![f::<Box<DeepEnum>>("field0", false)], steps: vec![] },
                },
            ],
        })),
    );
    refmodel::register(
        "DedupRemoved",
        Ty::Record(Arc::new(RecordSchema {
            name: "DedupRemoved".into(),
            fields: vec![f::<DeduplicatedString>("s", false), f::<DeduplicatedString>("t", false)],
            steps: vec![Step::Removed("gone".into())],
        })),
    );
    refmodel::register(
        "DedupMixed",
        Ty::Record(Arc::new(RecordSchema {
            name: "DedupMixed".into(),
            fields: vec![
                f::<DeduplicatedString>("s", false),
                sbase::fs::<DeduplicatedString>("t", false, false, Some(Val::Str("dflt".into()))),
                sbase::fs::<u8>("cache", false, true, Some(Val::U(7))),
                f::<String>("u", false),
            ],
            steps: vec![Step::Added("t".into()), Step::Removed("p".into()), Step::MadeTransient("cache".into())],
        })),
    );
    refmodel::register(
        "DedupNoNames",
        Ty::Record(Arc::new(RecordSchema {
            name: "DedupNoNames".into(),
            fields: vec![
                f::<DeduplicatedString>("s", false),
                f::<Option<DeduplicatedString>>("o", true),
                sbase::fs::<DeduplicatedString>("t", false, false, Some(Val::Str("x".into()))),
            ],
            steps: vec![Step::Added("t".into()), Step::MadeOptional("o".into())],
        })),
    );
    refmodel::register(
        "DedupV0",
        Ty::Record(Arc::new(RecordSchema {
            name: "DedupV0".into(),
            fields: vec![f::<DeduplicatedString>("a", false), f::<String>("b", false), f::<DeduplicatedString>("c", false)],
            steps: vec![],
        })),
    );
    refmodel::register(
        "MaxSteps",
        Ty::Record(Arc::new(RecordSchema {
            name: "MaxSteps".into(),
            fields: vec![f::<u8>("a", false), f::<String>("b", false)],
            steps: (0..254).map(|i| Step::Removed(format!("old{i}"))).collect(),
        })),
    );
    refmodel::register(
        "BadEvolution",
        Ty::Record(Arc::new(RecordSchema { name: "BadEvolution".into(), fields: vec![f::<u8>("a", false)], steps: vec![Step::MadeOptional("nope".into())] })),
    );
    refmodel::register(
        "ReusedName",
        Ty::Record(Arc::new(RecordSchema {
            name: "ReusedName".into(),
            fields: vec![f::<u32>("a", false), sbase::fs::<u32>("x", false, false, Some(Val::U(7777)))],
            steps: vec![Step::Removed("x".into()), Step::Added("x".into())],
        })),
    );
    refmodel::register(
        "ReusedNameOpt",
        Ty::Record(Arc::new(RecordSchema {
            name: "ReusedNameOpt".into(),
            fields: vec![f::<u32>("a", false), sbase::fs::<Option<u32>>("x", true, false, Some(Val::some(Val::U(7777))))],
            steps: vec![Step::Removed("x".into()), Step::Added("x".into())],
        })),
    );
    refmodel::register(
        "ReusedThenOptional",
        Ty::Record(Arc::new(RecordSchema {
            name: "ReusedThenOptional".into(),
            fields: vec![f::<u8>("a", false), sbase::fs::<Option<u8>>("x", true, false, Some(Val::some(Val::U(5))))],
            steps: vec![Step::Removed("x".into()), Step::Added("x".into()), Step::MadeOptional("x".into())],
        })),
    );
    reg.add_tagged::<ReusedThenOptional>("ReusedThenOptional", &["special:name_reused"]);
    reg.add_tagged::<ReusedName>("ReusedName", &["special:name_reused"]);
    reg.add_tagged::<ReusedNameOpt>("ReusedNameOpt", &["special:name_reused"]);
    // the nesting chain
    refmodel::register("Nest0", Ty::Record(Arc::new(RecordSchema { name: "Nest0".into(), fields: vec![f::<u8>("head", false), f::<Vec<Nest1>>("kids", false), sbase::fs::<u32>("tail", false, false, Some(Val::U(0)))], steps: vec![Step::Added("tail".into())] })));
    refmodel::register("Nest1", Ty::Record(Arc::new(RecordSchema { name: "Nest1".into(), fields: vec![f::<u8>("head", false), f::<Vec<Nest2>>("kids", false), sbase::fs::<u32>("tail", false, false, Some(Val::U(0)))], steps: vec![Step::Added("tail".into())] })));
    refmodel::register("Nest2", Ty::Record(Arc::new(RecordSchema { name: "Nest2".into(), fields: vec![f::<u8>("head", false), f::<Vec<Nest3>>("kids", false), sbase::fs::<u32>("tail", false, false, Some(Val::U(0)))], steps: vec![Step::Added("tail".into())] })));
    refmodel::register("Nest3", Ty::Record(Arc::new(RecordSchema { name: "Nest3".into(), fields: vec![f::<u8>("head", false), f::<Vec<Nest4>>("kids", false), sbase::fs::<u32>("tail", false, false, Some(Val::U(0)))], steps: vec![Step::Added("tail".into())] })));
    refmodel::register("Nest4", Ty::Record(Arc::new(RecordSchema { name: "Nest4".into(), fields: vec![f::<u8>("head", false), f::<Vec<Nest5>>("kids", false), sbase::fs::<u32>("tail", false, false, Some(Val::U(0)))], steps: vec![Step::Added("tail".into())] })));
    refmodel::register("Nest5", Ty::Record(Arc::new(RecordSchema { name: "Nest5".into(), fields: vec![f::<u8>("head", false), f::<Vec<Nest6>>("kids", false), sbase::fs::<u32>("tail", false, false, Some(Val::U(0)))], steps: vec![Step::Added("tail".into())] })));
    refmodel::register("Nest6", Ty::Record(Arc::new(RecordSchema { name: "Nest6".into(), fields: vec![f::<u8>("head", false), f::<Vec<Nest7>>("kids", false), sbase::fs::<u32>("tail", false, false, Some(Val::U(0)))], steps: vec![Step::Added("tail".into())] })));
    refmodel::register("Nest7", Ty::Record(Arc::new(RecordSchema { name: "Nest7".into(), fields: vec![f::<u8>("head", false), f::<Vec<Nest8>>("kids", false), sbase::fs::<u32>("tail", false, false, Some(Val::U(0)))], steps: vec![Step::Added("tail".into())] })));
    refmodel::register("Nest8", Ty::Record(Arc::new(RecordSchema { name: "Nest8".into(), fields: vec![f::<u8>("head", false), f::<Vec<Nest9>>("kids", false), sbase::fs::<u32>("tail", false, false, Some(Val::U(0)))], steps: vec![Step::Added("tail".into())] })));
    refmodel::register("Nest9", Ty::Record(Arc::new(RecordSchema { name: "Nest9".into(), fields: vec![f::<u8>("head", false), f::<Vec<Nest10>>("kids", false), sbase::fs::<u32>("tail", false, false, Some(Val::U(0)))], steps: vec![Step::Added("tail".into())] })));
    refmodel::register("Nest10", Ty::Record(Arc::new(RecordSchema { name: "Nest10".into(), fields: vec![f::<u8>("head", false), f::<Vec<Nest11>>("kids", false), sbase::fs::<u32>("tail", false, false, Some(Val::U(0)))], steps: vec![Step::Added("tail".into())] })));
    refmodel::register("Nest11", Ty::Record(Arc::new(RecordSchema { name: "Nest11".into(), fields: vec![f::<u8>("head", false), sbase::fs::<u32>("tail", false, false, Some(Val::U(0)))], steps: vec![Step::Added("tail".into())] })));
    reg.add_tagged::<Nest0>("Nest0", &["special:deep_nesting"]);
    reg.add_tagged::<Nest8>("Nest8", &["special:deep_nesting"]);
    register_wide(reg);
    // hash containers keyed by big decimals: hashing one costs 10^|exponent| (the dependency writes the number out)
    reg.add_probe_only::<HashSet<BigDecimal>>("HashSet<BigDecimal>");
    reg.add_probe_only::<HashMap<BigDecimal, u8>>("HashMap<BigDecimal, u8>");
    reg.add_probe_only::<BTreeSet<BigDecimal>>("BTreeSet<BigDecimal>");
    refmodel::register("BigEnum", Ty::Enum(Arc::new(schema_bigenum())));
    refmodel::register("BigEnumSorted", Ty::Enum(Arc::new(schema_bigenumsorted())));
    reg.add_tagged::<BigEnum>("BigEnum", &["special:limits", "enum"]);
    reg.add_tagged::<BigEnumSorted>("BigEnumSorted", &["special:limits", "enum", "sorted_constructors"]);
    reg.add_tagged::<MaxSteps>("MaxSteps", &["special:limits"]);
    // not registered as an ordinary subject (it can never be encoded): C17 addresses it by name
    reg.add_tagged::<BadEvolution>("BadEvolution", &["special:unencodable"]);
    reg.add_tagged::<DeepRec>("DeepRec", &["special:recursive", "recursive"]);
    reg.add_tagged::<DeepVec>("DeepVec", &["special:recursive", "recursive"]);
    reg.add_tagged::<DeepEnum>("DeepEnum", &["special:recursive", "recursive"]);
    reg.add_tagged::<DedupRemoved>("DedupRemoved", &["special:dedup", "dedup_header_names"]);
    reg.add_tagged::<DedupMixed>("DedupMixed", &["special:dedup", "dedup_header_names"]);
    reg.add_tagged::<DedupNoNames>("DedupNoNames", &["special:dedup"]);
    reg.add_tagged::<DedupV0>("DedupV0", &["special:dedup"]);
    refmodel::register(
        "DedupAddedFirst",
        Ty::Record(Arc::new(RecordSchema {
            name: "DedupAddedFirst".into(),
            fields: vec![
                sbase::fs::<DeduplicatedString>("t", false, false, Some(Val::Str("dflt".into()))),
                f::<DeduplicatedString>("s", false),
                f::<DeduplicatedString>("u", false),
            ],
            steps: vec![Step::Added("t".into())],
        })),
    );
    reg.add_tagged::<DedupAddedFirst>("DedupAddedFirst", &["special:dedup"]);
    reg.add_tagged::<Vec<DedupAddedFirst>>("Vec<DedupAddedFirst>", &["special:dedup"]);
    reg.add_tagged::<(DedupAddedFirst, DeduplicatedString, DedupAddedFirst)>("(DedupAddedFirst, DeduplicatedString, DedupAddedFirst)", &["special:dedup"]);
    // containers of them: the string table spans the whole stream
    reg.add_tagged::<Vec<DedupRemoved>>("Vec<DedupRemoved>", &["special:dedup", "dedup_header_names"]);
    reg.add_tagged::<(DeduplicatedString, DedupRemoved, DeduplicatedString)>("(DeduplicatedString, DedupRemoved, DeduplicatedString)", &["special:dedup", "dedup_header_names"]);
    reg.add_tagged::<(DedupMixed, DeduplicatedString, DedupV0)>("(DedupMixed, DeduplicatedString, DedupV0)", &["special:dedup", "dedup_header_names"]);
    reg.add_tagged::<Vec<DedupNoNames>>("Vec<DedupNoNames>", &["special:dedup"]);
}
