//! Client types whose hand-written codec survives a failing nested decode (a "lenient" field): `Tolerant<T>` tries to
//! read a `T` and yields `None` when that fails.  Where the cursor stands afterwards is the client's business, not the
//! format's, so these readers are judged for totality and memory safety only (C05, C19) — never for content — and
//! are kept out of the ordinary subject list.  Each reader comes with writer declarations (same wire shape, or an
//! older / newer version of the lenient field) whose valid encodings seed the hostile inputs.

use desert::{BinaryCodec, BinaryDeserializer, BinaryOutput, BinarySerializer, DeserializationContext, SerializationContext};
use refmodel::{EnumSchema, FieldSchema, RecordSchema, Step, Ty, Val, VariantKind, VariantSchema};
use sbase::{Model, Registry};
use std::sync::Arc;

pub struct Tolerant<T>(pub Option<T>);

impl<T: BinarySerializer> BinarySerializer for Tolerant<T> {
    fn serialize<Output: BinaryOutput>(&self, context: &mut SerializationContext<Output>) -> desert::Result<()> {
        match &self.0 {
            Some(v) => v.serialize(context),
            None => Ok(()),
        }
    }
}

impl<T: BinaryDeserializer> BinaryDeserializer for Tolerant<T> {
    fn deserialize(context: &mut DeserializationContext<'_>) -> desert::Result<Self> {
        Ok(Tolerant(T::deserialize(context).ok()))
    }
}

impl<T: Model> Model for Tolerant<T> {
    fn ty() -> Ty {
        Ty::Lenient(Box::new(T::ty()))
    }
    fn from_val(v: &Val) -> Self {
        Tolerant(Some(T::from_val(v)))
    }
    fn to_val(&self) -> Val {
        match &self.0 {
            Some(v) => v.to_val(),
            None => Val::Str("<lenient:failed>".into()),
        }
    }
}

#[derive(BinaryCodec)]
pub enum TolKind {
    Plain,
    Tagged(char),
    Named { n: String },
}

impl Model for TolKind {
    fn ty() -> Ty {
        Ty::Named("TolKind".into())
    }
    fn from_val(v: &Val) -> Self {
        match v {
            Val::Ctor(0, _) => TolKind::Plain,
            Val::Ctor(1, f) => TolKind::Tagged(Model::from_val(&f[0])),
            Val::Ctor(2, f) => TolKind::Named { n: Model::from_val(&f[0]) },
            _ => panic!("harness: from_val::<TolKind>"),
        }
    }
    fn to_val(&self) -> Val {
        match self {
            TolKind::Plain => Val::Ctor(0, vec![]),
            TolKind::Tagged(c) => Val::Ctor(1, vec![c.to_val()]),
            TolKind::Named { n } => Val::Ctor(2, vec![n.to_val()]),
        }
    }
}

/// the lenient field's type as an older program knows it
#[derive(BinaryCodec)]
#[evolution(FieldAdded("x", 0u8))]
pub struct TolInnerV1 {
    pub name: String,
    pub kind: TolKind,
    pub x: u8,
}

/// … and as the current program knows it
#[derive(BinaryCodec)]
#[evolution(FieldAdded("x", 0u8), FieldMadeOptional("name"), FieldMadeOptional("kind"))]
pub struct TolInnerV2 {
    pub name: Option<String>,
    pub kind: Option<TolKind>,
    pub x: u8,
}

macro_rules! outer {
    ($name:ident, $mid:ty) => {
        #[derive(BinaryCodec)]
        #[evolution(FieldAdded("tail", 0u32), FieldAdded("last", String::new()))]
        pub struct $name {
            pub head: u8,
            pub mid: $mid,
            pub tail: u32,
            pub last: String,
        }
        impl Model for $name {
            fn ty() -> Ty {
                Ty::Named(stringify!($name).into())
            }
            fn from_val(v: &Val) -> Self {
                match v {
                    Val::Rec(f) if f.len() == 4 => {
                        $name { head: Model::from_val(&f[0]), mid: Model::from_val(&f[1]), tail: Model::from_val(&f[2]), last: Model::from_val(&f[3]) }
                    }
                    _ => panic!("harness: from_val::<{}>", stringify!($name)),
                }
            }
            fn to_val(&self) -> Val {
                Val::Rec(vec![self.head.to_val(), self.mid.to_val(), self.tail.to_val(), self.last.to_val()])
            }
        }
    };
}
outer!(TolOuterW1, TolInnerV1);
outer!(TolOuterW2, TolInnerV2);
outer!(TolOuterR1, Tolerant<TolInnerV1>);
outer!(TolOuterR2, Tolerant<TolInnerV2>);

macro_rules! holder {
    ($name:ident, $mid:ty) => {
        #[derive(BinaryCodec)]
        pub enum $name {
            Other(u8),
            #[evolution(FieldAdded("tail", String::new()))]
            Holder { mid: $mid, tail: String },
        }
        impl Model for $name {
            fn ty() -> Ty {
                Ty::Named(stringify!($name).into())
            }
            fn from_val(v: &Val) -> Self {
                match v {
                    Val::Ctor(0, f) => $name::Other(Model::from_val(&f[0])),
                    Val::Ctor(1, f) => $name::Holder { mid: Model::from_val(&f[0]), tail: Model::from_val(&f[1]) },
                    _ => panic!("harness: from_val::<{}>", stringify!($name)),
                }
            }
            fn to_val(&self) -> Val {
                match self {
                    $name::Other(x) => Val::Ctor(0, vec![x.to_val()]),
                    $name::Holder { mid, tail } => Val::Ctor(1, vec![mid.to_val(), tail.to_val()]),
                }
            }
        }
    };
}
holder!(TolHolderW1, TolInnerV1);
holder!(TolHolderW2, TolInnerV2);
holder!(TolHolderR1, Tolerant<TolInnerV1>);
holder!(TolHolderR2, Tolerant<TolInnerV2>);

macro_rules! inner_model {
    ($t:ident { $($f:ident : $ft:ty),+ }) => {
        impl Model for $t {
            fn ty() -> Ty { Ty::Named(stringify!($t).into()) }
            fn from_val(v: &Val) -> Self {
                match v {
                    Val::Rec(fs) => { let mut i = 0; $( let $f = <$ft as Model>::from_val(&fs[i]); i += 1; )+ let _ = i; $t { $($f),+ } }
                    _ => panic!("harness: from_val::<{}>", stringify!($t)),
                }
            }
            fn to_val(&self) -> Val { Val::Rec(vec![$(self.$f.to_val()),+]) }
        }
    };
}
inner_model!(TolInnerV1 { name: String, kind: TolKind, x: u8 });
inner_model!(TolInnerV2 { name: Option<String>, kind: Option<TolKind>, x: u8 });

fn f<T: Model>(name: &str, opt: bool) -> FieldSchema {
    sbase::fs::<T>(name, opt, false, None)
}

fn fd<T: Model>(name: &str, default: Val) -> FieldSchema {
    sbase::fs::<T>(name, false, false, Some(default))
}

pub fn register(reg: &mut Registry) {
    let rec = |name: &str, fields: Vec<FieldSchema>, steps: Vec<Step>| RecordSchema { name: name.into(), fields, steps };
    let variant = |name: &str, kind: VariantKind, record: RecordSchema| VariantSchema { name: name.into(), kind, transient: false, record };
    refmodel::register(
        "TolKind",
        Ty::Enum(Arc::new(EnumSchema {
            name: "TolKind".into(),
            sorted: false,
            variants: vec![
                variant("Plain", VariantKind::Unit, rec("Plain", vec![], vec![])),
                variant("Tagged", VariantKind::Tuple, rec("Tagged", vec![f::<char>("field0", false)], vec![])),
                variant("Named", VariantKind::Struct, rec("Named", vec![f::<String>("n", false)], vec![])),
            ],
        })),
    );
    refmodel::register(
        "TolInnerV1",
        Ty::Record(Arc::new(rec("TolInnerV1", vec![f::<String>("name", false), f::<TolKind>("kind", false), fd::<u8>("x", Val::U(0))], vec![Step::Added("x".into())]))),
    );
    refmodel::register(
        "TolInnerV2",
        Ty::Record(Arc::new(rec(
            "TolInnerV2",
            vec![f::<Option<String>>("name", true), f::<Option<TolKind>>("kind", true), fd::<u8>("x", Val::U(0))],
            vec![Step::Added("x".into()), Step::MadeOptional("name".into()), Step::MadeOptional("kind".into())],
        ))),
    );
    fn outer_schema<M: Model>(name: &str) -> Ty {
        Ty::Record(Arc::new(RecordSchema {
            name: name.into(),
            fields: vec![f::<u8>("head", false), f::<M>("mid", false), fd::<u32>("tail", Val::U(0)), fd::<String>("last", Val::Str(String::new()))],
            steps: vec![Step::Added("tail".into()), Step::Added("last".into())],
        }))
    }
    fn holder_schema<M: Model>(name: &str) -> Ty {
        Ty::Enum(Arc::new(EnumSchema {
            name: name.into(),
            sorted: false,
            variants: vec![
                VariantSchema {
                    name: "Other".into(),
                    kind: VariantKind::Tuple,
                    transient: false,
                    record: RecordSchema { name: "Other".into(), fields: vec![f::<u8>("field0", false)], steps: vec![] },
                },
                VariantSchema {
                    name: "Holder".into(),
                    kind: VariantKind::Struct,
                    transient: false,
                    record: RecordSchema {
                        name: "Holder".into(),
                        fields: vec![f::<M>("mid", false), fd::<String>("tail", Val::Str(String::new()))],
                        steps: vec![Step::Added("tail".into())],
                    },
                },
            ],
        }))
    }
    refmodel::register("TolOuterW1", outer_schema::<TolInnerV1>("TolOuterW1"));
    refmodel::register("TolOuterW2", outer_schema::<TolInnerV2>("TolOuterW2"));
    refmodel::register("TolOuterR1", outer_schema::<Tolerant<TolInnerV1>>("TolOuterR1"));
    refmodel::register("TolOuterR2", outer_schema::<Tolerant<TolInnerV2>>("TolOuterR2"));
    refmodel::register("TolHolderW1", holder_schema::<TolInnerV1>("TolHolderW1"));
    refmodel::register("TolHolderW2", holder_schema::<TolInnerV2>("TolHolderW2"));
    refmodel::register("TolHolderR1", holder_schema::<Tolerant<TolInnerV1>>("TolHolderR1"));
    refmodel::register("TolHolderR2", holder_schema::<Tolerant<TolInnerV2>>("TolHolderR2"));

    // the writers are ordinary subjects
    let wtags = ["special:tolerant_writer"];
    reg.add_tagged::<TolKind>("TolKind", &wtags);
    reg.add_tagged::<TolInnerV1>("TolInnerV1", &wtags);
    reg.add_tagged::<TolInnerV2>("TolInnerV2", &wtags);
    reg.add_tagged::<TolOuterW1>("TolOuterW1", &wtags);
    reg.add_tagged::<TolOuterW2>("TolOuterW2", &wtags);
    reg.add_tagged::<TolHolderW1>("TolHolderW1", &wtags);
    reg.add_tagged::<TolHolderW2>("TolHolderW2", &wtags);
    reg.add_tagged::<Vec<TolOuterW1>>("Vec<TolOuterW1>", &wtags);

    // the lenient readers: (writer whose encodings seed the inputs, reader)
    reg.add_tolerant::<TolOuterR1>("TolOuterW1", "TolOuterR1");
    reg.add_tolerant::<TolOuterR2>("TolOuterW1", "TolOuterR2"); // older data: fields not yet optional
    reg.add_tolerant::<TolOuterR1>("TolOuterW2", "TolOuterR1"); // newer data: fields made optional since
    reg.add_tolerant::<TolOuterR2>("TolOuterW2", "TolOuterR2");
    reg.add_tolerant::<TolHolderR1>("TolHolderW1", "TolHolderR1");
    reg.add_tolerant::<TolHolderR2>("TolHolderW1", "TolHolderR2");
    reg.add_tolerant::<TolHolderR1>("TolHolderW2", "TolHolderR1");
    reg.add_tolerant::<TolHolderR2>("TolHolderW2", "TolHolderR2");
    reg.add_tolerant::<Vec<TolOuterR2>>("Vec<TolOuterW1>", "Vec<TolOuterR2>");
    reg.add_tolerant::<(Tolerant<TolInnerV2>, u32, Tolerant<TolOuterR2>)>("TolOuterW1", "(Tolerant<TolInnerV2>, u32, Tolerant<TolOuterR2>)");
}
