//! The subject registry: catalogue of built-in type expressions + generated corpus of derived declarations.
#![allow(warnings)]

pub mod catalogue {
    use sbase::t::*;
    include!("catalogue_gen.rs");
}

pub mod core_corpus;
pub mod special;
pub mod tolerant;

use sbase::Registry;

/// build the registry (also registers every generated schema with the reference model)
pub fn registry() -> Registry {
    let mut reg = Registry::new();
    catalogue::register(&mut reg);
    core_corpus::register(&mut reg);
    special::register(&mut reg);
    tolerant::register(&mut reg);
    #[cfg(feature = "corpus")]
    {
        c0::register(&mut reg);
        c1::register(&mut reg);
        c2::register(&mut reg);
        c3::register(&mut reg);
        c4::register(&mut reg);
        c5::register(&mut reg);
        c6::register(&mut reg);
        c7::register(&mut reg);
    }
    #[cfg(feature = "fresh")]
    fresh::register(&mut reg);
    reg
}
