//! One slice of the generated corpus of derived declarations (see gen/). `gen.rs` is generated and committed.
#![allow(warnings)]

use desert::BinaryCodec;
use refmodel::evo::{HStep, History};
use refmodel::{EnumSchema, RecordSchema, Step, Ty, Val, VariantKind, VariantSchema};
use sbase::t::*;
use sbase::{FamilyEntry, HistoryEntry, Model, Registry};

pub type MyOpt<T> = Option<T>;

include!("gen.rs");
