//! W09: a slice returned by read_bytes kept across another read — must be rejected (E0499).
#![forbid(unsafe_code)]
use desert::*;

fn main() {
    let data = [1u8, 2, 3, 4];
    let mut ctx = DeserializationContext::new(&data);
    let a = ctx.read_bytes(2).unwrap();
    let b = ctx.read_u8().unwrap();
    println!("W09 {a:?} {b}");
}
