//! W17: the writer-side table through the `desert::` re-exports, value dropped between two offers.
#![forbid(unsafe_code)]
use desert::{RefId, SerializationContext};

fn main() {
    let mut ctx = SerializationContext::new(Vec::<u8>::new());
    let first = Box::new([1u64; 8]);
    ctx.store_ref_or_object(&*first).unwrap();
    drop(first);
    let second = Box::new([2u64; 8]);
    let r = ctx.state_mut().get_ref_by_id(RefId(1)).unwrap();
    println!("W17 {:?} {}", r.downcast_ref::<[u64; 8]>().map(|a| a[0]), second[0]);
}
