//! W01: a reference to a boxed value is stored in the reader-side table inside a scope; after the scope the box is
//! gone, the table still hands the reference back.  Expected on a sound API: rejected by the borrow checker.
#![forbid(unsafe_code)]
use desert::*;

fn main() {
    let data = [1u8]; // object number 1
    let mut ctx = DeserializationContext::new(&data);
    {
        let boxed = Box::new(0xDEAD_BEEFu32);
        ctx.state_mut().store_ref(&*boxed);
    }
    let noise = Box::new(0x1111_1111u32); // likely to reuse the allocation
    let r = ctx.try_read_ref().unwrap().unwrap();
    println!("W01 read {:?} (noise {noise})", r.downcast_ref::<u32>());
}
