//! W18 (no undefined behaviour allowed, a panic or an error is fine): `SliceInput` has public fields, so a safe client can
//! build one whose cursor lies beyond its data.  Reads must stay inside the slice.
#![forbid(unsafe_code)]
use desert::*;

fn main() {
    let heap = vec![1u8, 2, 3, 4];
    let neighbour = vec![0x45u8; 64];
    for pos in [5usize, 6, 64, usize::MAX] {
        let r = std::panic::catch_unwind(|| {
            let mut input = SliceInput { data: &heap, pos };
            (input.read_u8().ok(), input.read_var_u32().ok(), input.read_bytes(1).map(|b| b.to_vec()).ok(), input.skip(0).is_ok())
        });
        println!("W18 pos={pos}: {:?} (neighbour {})", r.ok(), neighbour[0]);
    }
    let r = std::panic::catch_unwind(|| {
        let mut input = SliceInput { data: &heap, pos: 3 };
        (input.read_u16().ok(), input.read_u8().ok(), input.read_u8().ok())
    });
    println!("W18 straddling read: {:?}", r.ok());
}
