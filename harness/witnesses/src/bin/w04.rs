//! W04: a helper stores a reference to its own local and returns the context.
#![forbid(unsafe_code)]
use desert::*;

fn make(data: &[u8]) -> DeserializationContext<'_> {
    let mut c = DeserializationContext::new(data);
    let local = [7u8; 64];
    c.state_mut().store_ref(&local);
    c
}

fn clobber() -> u64 {
    let a = [0xAAu8; 256];
    a.iter().map(|x| *x as u64).sum()
}

fn main() {
    let data = [1u8];
    let mut ctx = make(&data);
    let n = clobber();
    let r = ctx.try_read_ref().unwrap().unwrap();
    println!("W04 read {:?} ({n})", r.downcast_ref::<[u8; 64]>().map(|a| a[0]));
}
