//! W08: a context whose table holds references is used from another thread — must be rejected (raw pointers are !Send / !Sync).
#![forbid(unsafe_code)]
use desert::*;

fn main() {
    let data = [1u8];
    let mut ctx = DeserializationContext::new(&data);
    let x = 5u32;
    ctx.state_mut().store_ref(&x);
    std::thread::scope(|s| {
        s.spawn(|| {
            let r = ctx.try_read_ref().unwrap().unwrap();
            println!("W08 {:?}", r.downcast_ref::<u32>());
        });
    });
}
