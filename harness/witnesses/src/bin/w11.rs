//! W11: a slice of an OwnedInput escaping the input — must be rejected (E0597 / E0505).
#![forbid(unsafe_code)]
use desert::*;

fn main() {
    let slice;
    {
        let mut input = OwnedInput::new(vec![1u8, 2, 3]);
        slice = input.read_bytes(2).unwrap();
    }
    println!("W11 {slice:?}");
}
