//! W15: an Rc whose last strong reference is dropped before the lookup (the table does not keep it alive).
#![forbid(unsafe_code)]
use desert::*;
use std::rc::Rc;

fn main() {
    let data = [1u8];
    let mut ctx = DeserializationContext::new(&data);
    let rc = Rc::new(vec![1u32, 2, 3]);
    ctx.state_mut().store_ref(&*rc);
    drop(rc);
    let noise = vec![9u32; 3];
    let r = ctx.try_read_ref().unwrap().unwrap();
    println!("W15 {:?} {noise:?}", r.downcast_ref::<Vec<u32>>());
}
