//! W20 (must be rejected by the compiler): the contexts and the per-stream state hold raw pointers and `Rc`-like client
//! objects; they must not be `Send`.  If this compiles, the body moves a decoding context — with an `Rc` registered in its
//! object table — to another thread and clones the `Rc` there while the owner clones it here: a data race on a
//! non-atomic reference count, from 100 % safe code.
#![forbid(unsafe_code)]
use desert::*;
use std::rc::Rc;

fn main() {
    let owner: Rc<u64> = Rc::new(7);
    let bytes = vec![0u8; 4];
    let mut ctx = DeserializationContext::new(&bytes);
    ctx.state_mut().store_ref(&owner);
    std::thread::scope(|s| {
        let h = s.spawn(move || {
            // needs DeserializationContext: Send
            let mut ctx = ctx;
            let got = ctx.state_mut().get_ref_by_id(RefId(1)).and_then(|any| any.downcast_ref::<Rc<u64>>().cloned());
            for _ in 0..1000 {
                let c = got.clone();
                drop(c);
            }
        });
        for _ in 0..1000 {
            let c = owner.clone();
            drop(c);
        }
        h.join().unwrap();
    });
    println!("W20 ran: strong count {}", Rc::strong_count(&owner));
}
