//! W12 (negative control): decoded values own their data — using them after the input buffer is gone is fine.
#![forbid(unsafe_code)]
use desert::*;

fn main() {
    let (a, b, c, d);
    {
        let buf = serialize_to_byte_vec(&(["x".to_string(), "yy".to_string(), "zzz".to_string()], vec![1u8, 2, 3], bytes::Bytes::from_static(b"abc"), [9u8; 20])).unwrap();
        let v: ([String; 3], Vec<u8>, bytes::Bytes, [u8; 20]) = deserialize(&buf).unwrap();
        (a, b, c, d) = v;
    }
    println!("W12 {a:?} {b:?} {c:?} {}", d[19]);
}
