//! W16: inside a user BinaryDeserializer impl, written the obvious way: register `&self_being_built` (a local), return
//! the value (moved), and let a later sibling look it up.
#![forbid(unsafe_code)]
use desert::*;

#[derive(Debug, Clone)]
struct Item {
    name: String,
}

impl BinaryDeserializer for Item {
    fn deserialize(ctx: &mut DeserializationContext<'_>) -> Result<Self> {
        match ctx.try_read_ref()? {
            Some(r) => Ok(r.downcast_ref::<Item>().unwrap().clone()),
            None => {
                let item = Item { name: String::deserialize(ctx)? };
                ctx.state_mut().store_ref(&item);
                Ok(item) // moved out: the registered address is a dead stack slot
            }
        }
    }
}

fn main() {
    // [new, "abc"], [ref 1]
    let data = [0u8, 6, b'a', b'b', b'c', 1];
    let mut ctx = DeserializationContext::new(&data);
    let first = Item::deserialize(&mut ctx).unwrap();
    let clobber = [0x55u8; 128];
    let second = Item::deserialize(&mut ctx).unwrap();
    println!("W16 {first:?} {second:?} {}", clobber[0]);
}
