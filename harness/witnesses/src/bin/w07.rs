//! W07: returning the looked-up reference from a function that owns the context — must be rejected (E0515 / E0597).
#![forbid(unsafe_code)]
use desert::*;
use std::any::Any;

fn lookup<'a>(data: &'a [u8], x: &'a u32) -> &'a dyn Any {
    let mut ctx = DeserializationContext::new(data);
    ctx.state_mut().store_ref(x);
    ctx.try_read_ref().unwrap().unwrap()
}

fn main() {
    let data = [1u8];
    let x = 5u32;
    println!("W07 {:?}", lookup(&data, &x).downcast_ref::<u32>());
}
