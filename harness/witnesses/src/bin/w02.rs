//! W02: the same through the writer-side table and `get_ref_by_id`.
#![forbid(unsafe_code)]
use desert::*;

fn main() {
    let mut ctx = SerializationContext::new(Vec::new());
    {
        let s = String::from("short lived");
        ctx.state_mut().store_ref(&s);
    }
    let other = String::from("another string!!");
    let r = ctx.state_mut().get_ref_by_id(RefId(1)).unwrap();
    println!("W02 read {:?} ({other})", r.downcast_ref::<String>());
}
