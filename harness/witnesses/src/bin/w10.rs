//! W10: a SliceInput outliving its buffer — must be rejected (E0597).
#![forbid(unsafe_code)]
use desert::*;

fn main() {
    let mut input;
    {
        let data = vec![1u8, 2, 3];
        input = SliceInput::new(&data);
    }
    println!("W10 {:?}", input.read_u8());
}
