//! W03: a reference to a vector element is stored, then the vector reallocates.
#![forbid(unsafe_code)]
use desert::*;

fn main() {
    let data = [1u8];
    let mut ctx = DeserializationContext::new(&data);
    let mut v: Vec<u64> = vec![42];
    ctx.state_mut().store_ref(&v[0]);
    for i in 0..1000 {
        v.push(i);
    }
    let r = ctx.try_read_ref().unwrap().unwrap();
    println!("W03 read {:?} (len {})", r.downcast_ref::<u64>(), v.len());
}
