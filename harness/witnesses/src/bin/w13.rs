//! W13 (negative control): looking a live object up and downcasting to the wrong type gives None.
#![forbid(unsafe_code)]
use desert::*;

fn main() {
    let data = [1u8, 1u8];
    let mut ctx = DeserializationContext::new(&data);
    let x = 5u32;
    ctx.state_mut().store_ref(&x);
    let wrong = ctx.try_read_ref().unwrap().unwrap().downcast_ref::<u64>().copied();
    let right = ctx.try_read_ref().unwrap().unwrap().downcast_ref::<u32>().copied();
    println!("W13 {wrong:?} {right:?}");
    assert_eq!(wrong, None);
    assert_eq!(right, Some(5));
}
