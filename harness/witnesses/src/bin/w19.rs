//! W19 (no undefined behaviour allowed, an error is fine): `BinaryInput` is a public safe trait, so a client may
//! implement it — e.g. over a reader that returns what it has at the end of the data (a short read).  The provided
//! fixed-width readers are built on `read_bytes`; they must not take the slice's length on trust.
#![forbid(unsafe_code)]
use desert::*;

/// hands out at most `window` bytes per request, whatever was asked for
struct ShortReads {
    data: Vec<u8>,
    pos: usize,
    window: usize,
}

impl BinaryInput for ShortReads {
    fn read_u8(&mut self) -> Result<u8> {
        match self.data.get(self.pos) {
            Some(b) => {
                self.pos += 1;
                Ok(*b)
            }
            None => Err(Error::InputEndedUnexpectedly),
        }
    }

    fn read_bytes(&mut self, count: usize) -> Result<&[u8]> {
        let n = count.min(self.window).min(self.data.len() - self.pos);
        let s = &self.data[self.pos..self.pos + n];
        self.pos += n;
        Ok(s)
    }

    fn skip(&mut self, count: usize) -> Result<()> {
        self.pos = (self.pos + count).min(self.data.len());
        Ok(())
    }
}

fn main() {
    // the two bytes handed out are the last of their allocation; a neighbour follows on the heap
    let neighbour = vec![0xDEu8; 64];
    for window in [0usize, 1, 2, 3, 7, 15] {
        let mut i = ShortReads { data: vec![1u8, 2], pos: 0, window };
        let r = (
            i.read_u16().map_err(|e| e.to_string()),
            i.read_u32().map_err(|e| e.to_string()),
            i.read_u64().map_err(|e| e.to_string()),
            i.read_u128().map_err(|e| e.to_string()),
            i.read_f64().map(|x| x.to_bits()).map_err(|e| e.to_string()),
        );
        println!("W19 window={window}: {r:?} (neighbour {})", neighbour[0]);
        let mut i = ShortReads { data: vec![1u8, 2, 3, 4, 5, 6, 7, 8, 9], pos: 0, window };
        let r = (i.read_i16().ok(), i.read_i32().ok(), i.read_i64().ok(), i.read_i128().ok(), i.read_f32().map(|x| x.to_bits()).ok());
        println!("W19 window={window} longer data: {r:?}");
    }
}
