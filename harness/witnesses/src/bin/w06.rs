//! W06: a looked-up reference kept alive across a mutable use of the context — must be rejected (E0502).
#![forbid(unsafe_code)]
use desert::*;

fn main() {
    let data = [1u8];
    let mut ctx = DeserializationContext::new(&data);
    let x = 5u32;
    ctx.state_mut().store_ref(&x);
    let r = ctx.try_read_ref().unwrap().unwrap();
    ctx.state_mut();
    println!("W06 {:?}", r.downcast_ref::<u32>());
}
