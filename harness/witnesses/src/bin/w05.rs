//! W05: a reference to a temporary.
#![forbid(unsafe_code)]
use desert::*;

fn main() {
    let data = [1u8];
    let mut ctx = DeserializationContext::new(&data);
    ctx.state_mut().store_ref(&String::from("temporary value"));
    let r = ctx.try_read_ref().unwrap().unwrap();
    println!("W05 read {:?}", r.downcast_ref::<String>());
}
