//! C16 — compressed blocks: round trip, framing, self-delimitation, truncation, corruption under the allocation monitor.

use crate::common::*;
use bytes::BytesMut;
use desert::{BinaryInput, BinaryOutput, BinarySerializer, DeserializationContext, OwnedInput, SliceInput};
use flate2::read::DeflateDecoder;
use flate2::Compression;
use monitors::json::J;
use monitors::{guarded, Outcome};
use refmodel::enc::vu_bytes;
use refmodel::{hex, Rng};
use std::io::Read;

// compressed blocks written by a user codec through a context: as field of a version-0 record (straight to the sink), as
// field of an evolved record (into a chunk buffer on the way out, from inside an input region on the way back), and
// through a size-calculating context
mod blob_types {
    use desert::{BinaryCodec, BinaryDeserializer, BinaryInput, BinaryOutput, BinarySerializer, DeserializationContext, SerializationContext};
    use flate2::Compression;

    #[derive(Debug, Clone, PartialEq)]
    pub struct Blob(pub Vec<u8>, pub u32);

    impl BinarySerializer for Blob {
        fn serialize<O: BinaryOutput>(&self, c: &mut SerializationContext<O>) -> desert::Result<()> {
            c.write_compressed(&self.0, Compression::new(self.1))
        }
    }
    impl BinaryDeserializer for Blob {
        fn deserialize(c: &mut DeserializationContext<'_>) -> desert::Result<Self> {
            Ok(Blob(c.read_compressed()?, 0))
        }
    }

    #[derive(Debug, Clone, PartialEq, BinaryCodec)]
    pub struct BlobV0 {
        pub a: u8,
        pub b: Blob,
        pub c: String,
    }

    #[derive(Debug, Clone, PartialEq, BinaryCodec)]
    #[evolution(FieldAdded("b", Blob(Vec::new(), 0)))]
    pub struct BlobEvolved {
        pub a: u8,
        pub b: Blob,
        pub c: String,
    }

    // the block two and three evolved records deep: several chunk buffers are open while it is written
    #[derive(Debug, Clone, PartialEq, BinaryCodec)]
    #[evolution(FieldAdded("inner", BlobEvolved { a: 0, b: Blob(Vec::new(), 0), c: String::new() }))]
    pub struct BlobNest {
        pub x: u16,
        pub inner: BlobEvolved,
        pub y: String,
    }

    /// a block the reader can live without: a damaged one reads as None
    #[derive(Debug, Clone, PartialEq)]
    pub struct MaybeBlob(pub Option<Vec<u8>>, pub u32);
    impl BinarySerializer for MaybeBlob {
        fn serialize<O: BinaryOutput>(&self, c: &mut SerializationContext<O>) -> desert::Result<()> {
            match &self.0 {
                Some(d) => c.write_compressed(d, Compression::new(self.1)),
                None => Ok(()),
            }
        }
    }
    impl BinaryDeserializer for MaybeBlob {
        fn deserialize(c: &mut DeserializationContext<'_>) -> desert::Result<Self> {
            Ok(MaybeBlob(c.read_compressed().ok(), 0))
        }
    }

    /// two blocks in chunks of their own: whatever happens to the first, the second is framed by its chunk
    #[derive(Debug, Clone, PartialEq, BinaryCodec)]
    #[evolution(FieldAdded("a", MaybeBlob(None, 0)), FieldAdded("b", Blob(Vec::new(), 0)))]
    pub struct BlobPair {
        pub x: u8,
        pub a: MaybeBlob,
        pub b: Blob,
    }

    #[derive(Debug, Clone, PartialEq, BinaryCodec)]
    pub enum BlobHolder {
        Empty,
        #[evolution(FieldAdded("n", None))]
        Full { k: u8, n: Option<BlobNest> },
    }
}

/// A client sink that stores what it receives as compressed pages — using the library's own `write_compressed` from
/// inside its `write_bytes`.  Writing a compressed block to such a sink re-enters `write_compressed` on the same
/// thread while the outer frame is being written; the pages must add up to exactly the outer frame.
fn block_into_a_compressing_sink(acc: &mut Acc, data: &[u8], level: u32, frame: &[u8]) {
    struct Paged {
        pages: Vec<u8>,
        pending: Vec<u8>,
    }
    impl Paged {
        fn flush(&mut self, all: bool) {
            while self.pending.len() >= 64 || (all && !self.pending.is_empty()) {
                let n = self.pending.len().min(64);
                let page: Vec<u8> = self.pending.drain(..n).collect();
                self.pages.write_compressed(&page, Compression::new(1)).expect("page");
            }
        }
    }
    impl BinaryOutput for Paged {
        fn write_u8(&mut self, v: u8) {
            self.pending.push(v);
            self.flush(false);
        }
        fn write_bytes(&mut self, b: &[u8]) {
            self.pending.extend_from_slice(b);
            self.flush(false);
        }
    }
    let r = guarded(
        || -> Result<Vec<u8>, String> {
            let mut sink = Paged { pages: Vec::new(), pending: Vec::new() };
            sink.write_compressed(data, Compression::new(level)).map_err(|e| e.to_string())?;
            sink.write_u8(0x77);
            sink.flush(true);
            // unpack the pages again
            let mut input = SliceInput::new(&sink.pages);
            let mut out = Vec::new();
            while input.pos < sink.pages.len() {
                out.extend_from_slice(&input.read_compressed().map_err(|e| format!("page: {e}"))?);
            }
            Ok(out)
        },
        |_| None,
    );
    let want: Vec<u8> = [frame, &[0x77u8][..]].concat();
    match r {
        Outcome::Done(Ok(got)) if got == want => acc.count("blocks_into_a_compressing_sink_ok"),
        Outcome::Done(Ok(got)) => acc.violation(
            "C16|compressing_sink|other_bytes".to_string(),
            J::obj().with("check", J::s("C16")).with("mode", J::s("content")).with("size", J::u(data.len() as u64)).with("level", J::u(level)).with("got", J::s(short(&got))).with("expected", J::s(short(&want))),
        ),
        Outcome::Done(Err(e)) => acc.violation("C16|compressing_sink|error".to_string(), J::obj().with("check", J::s("C16")).with("mode", J::s("content")).with("size", J::u(data.len() as u64)).with("what", J::s(e))),
        Outcome::Panicked(p) => acc.violation(
            "C16|compressing_sink|panic".to_string(),
            J::obj().with("check", J::s("C16")).with("mode", J::s("content")).with("size", J::u(data.len() as u64)).with("level", J::u(level)).with("what", J::s(format!("{}: {}", monitors::normalise_site(&p.site), p.msg))),
        ),
        Outcome::StepBudget(_) => {}
    }
}

/// number of deflate bytes of a frame (what follows its two length fields)
fn payload_len(frame: &[u8]) -> usize {
    let mut i = SliceInput::new(frame);
    let _ = i.read_var_u32();
    i.read_var_u32().map(|n| n as usize).unwrap_or(0)
}

/// the frame must be the same bytes wherever the block is written, and the size calculator must count exactly them
fn through_contexts(acc: &mut Acc, data: &[u8], level: u32, frame: &[u8]) {
    use blob_types::*;
    use desert::{SerializationContext, SizeCalculator};
    let fail = |acc: &mut Acc, what: &str, detail: String| {
        acc.violation(
            format!("C16|context|{what}"),
            J::obj().with("check", J::s("C16")).with("mode", J::s("content")).with("size", J::u(data.len() as u64)).with("level", J::u(level)).with("what", J::s(what)).with("detail", J::s(detail)),
        );
    };
    let r = guarded(
        || -> Result<(), String> {
            // the primitive on the size calculator
            let mut sc = SizeCalculator::new();
            sc.write_compressed(data, Compression::new(level)).map_err(|e| e.to_string())?;
            if sc.size() != frame.len() {
                return Err(format!("SizeCalculator::write_compressed counted {} bytes, the frame has {}", sc.size(), frame.len()));
            }
            let blob = Blob(data.to_vec(), level);
            let v0 = BlobV0 { a: 7, b: blob.clone(), c: "tail".into() };
            let ev = BlobEvolved { a: 7, b: blob.clone(), c: "tail".into() };
            let b0 = desert::serialize_to_byte_vec(&v0).map_err(|e| e.to_string())?;
            let b1 = desert::serialize_to_byte_vec(&ev).map_err(|e| e.to_string())?;
            // layout: the frame sits between the neighbouring fields / in its own chunk, byte for byte
            let exp0: Vec<u8> = [&[0u8, 7][..], frame, &[8u8, b't', b'a', b'i', b'l'][..]].concat();
            if b0 != exp0 {
                return Err(format!("version-0 record: {} expected {}", short(&b0), short(&exp0)));
            }
            let c0 = [7u8, 8, b't', b'a', b'i', b'l'];
            let exp1: Vec<u8> = [&[1u8][..], &refmodel::enc::vi_bytes(c0.len() as i32)[..], &refmodel::enc::vi_bytes(frame.len() as i32)[..], &c0[..], frame].concat();
            if b1 != exp1 {
                return Err(format!("evolved record: {} expected {}", short(&b1), short(&exp1)));
            }
            for (name, bytes) in [("v0", &b0), ("evolved", &b1)] {
                let mut ctx = SerializationContext::new(SizeCalculator::new());
                if name == "v0" { v0.serialize(&mut ctx) } else { ev.serialize(&mut ctx) }.map_err(|e| e.to_string())?;
                let n = ctx.into_output().size();
                if n != bytes.len() {
                    return Err(format!("size calculator through a context ({name} record): {n} vs {} bytes written", bytes.len()));
                }
            }
            let back0: BlobV0 = desert::deserialize(&b0).map_err(|e| format!("v0 decode: {e}"))?;
            let back1: BlobEvolved = desert::deserialize(&b1).map_err(|e| format!("evolved decode: {e}"))?;
            if back0.b.0 != data || back0.c != "tail" || back1.b.0 != data || back1.c != "tail" || back1.a != 7 {
                return Err("content or neighbouring fields differ after the round trip through records".into());
            }
            // nested: evolved record inside an evolved record inside an evolved enum constructor
            let vi = |n: usize| refmodel::enc::vi_bytes(n as i32);
            let nest = BlobNest { x: 0x0102, inner: ev.clone(), y: "yy".into() };
            let n0 = [1u8, 2, 4, b'y', b'y'];
            let exp_nest: Vec<u8> = [&[1u8][..], &vi(n0.len())[..], &vi(exp1.len())[..], &n0[..], &exp1[..]].concat();
            let b2 = desert::serialize_to_byte_vec(&nest).map_err(|e| e.to_string())?;
            if b2 != exp_nest {
                return Err(format!("evolved record in an evolved record: {} expected {}", short(&b2), short(&exp_nest)));
            }
            let holder = BlobHolder::Full { k: 9, n: Some(nest.clone()) };
            let h1: Vec<u8> = [&[1u8][..], &exp_nest[..]].concat(); // Some(..)
            let exp_holder: Vec<u8> = [&[0u8, 1, 1][..], &vi(1)[..], &vi(h1.len())[..], &[9u8][..], &h1[..]].concat();
            let b3 = desert::serialize_to_byte_vec(&holder).map_err(|e| e.to_string())?;
            if b3 != exp_holder {
                return Err(format!("evolved constructor holding the nested records: {} expected {}", short(&b3), short(&exp_holder)));
            }
            // a valid block read after a damaged one in the same context: the first block's payload is flipped at several
            // places (its two length fields stay intact), the second block sits in the next chunk
            let pair = BlobPair { x: 5, a: MaybeBlob(Some(data.to_vec()), level), b: Blob(data.iter().rev().cloned().collect(), level) };
            let want_b: Vec<u8> = data.iter().rev().cloned().collect();
            let pb = desert::serialize_to_byte_vec(&pair).map_err(|e| e.to_string())?;
            let frame_a_payload = 1 + vi(1).len() + vi(frame.len()).len() + {
                let fb = desert::serialize_to_byte_vec(&Blob(want_b.clone(), level)).map_err(|e| e.to_string())?;
                vi(fb.len()).len()
            } + 1 + (frame.len() - payload_len(frame));
            let z = payload_len(frame);
            for k in 0..z.min(6) {
                let at = frame_a_payload + (k * 7919) % z;
                let mut damaged = pb.clone();
                damaged[at] ^= 0x5a;
                match desert::deserialize::<BlobPair>(&damaged) {
                    Ok(p) if p.x == 5 && p.b.0 == want_b => {}
                    Ok(p) => return Err(format!("block after a damaged block: second block read back as {} bytes (x = {})", p.b.0.len(), p.x)),
                    Err(e) => return Err(format!("block after a damaged block: {e}")),
                }
            }
            let mut ctx = SerializationContext::new(SizeCalculator::new());
            holder.serialize(&mut ctx).map_err(|e| e.to_string())?;
            let n = ctx.into_output().size();
            if n != b3.len() {
                return Err(format!("size calculator through nested contexts: {n} vs {} bytes written", b3.len()));
            }
            let back2: BlobNest = desert::deserialize(&b2).map_err(|e| format!("nested decode: {e}"))?;
            let back3: BlobHolder = desert::deserialize(&b3).map_err(|e| format!("holder decode: {e}"))?;
            let same = |n: &BlobNest| n.x == 0x0102 && n.y == "yy" && n.inner.a == 7 && n.inner.b.0 == data && n.inner.c == "tail";
            let ok3 = matches!(&back3, BlobHolder::Full { k: 9, n: Some(n) } if same(n));
            if !same(&back2) || !ok3 {
                return Err("content or neighbouring fields differ after the round trip through nested records".into());
            }
            Ok(())
        },
        |_| None,
    );
    match r {
        Outcome::Done(Ok(())) => acc.count("frames_identical_through_contexts_and_size_exact"),
        Outcome::Done(Err(w)) => fail(acc, "mismatch", w),
        Outcome::Panicked(p) => fail(acc, "panic", monitors::normalise_site(&p.site)),
        Outcome::StepBudget(_) => {}
    }
}

fn content(rng: &mut Rng, kind: u64, size: usize) -> Vec<u8> {
    match kind {
        0 => vec![0u8; size],
        1 => rng.bytes(size),
        2 => (0..size).map(|i| (i % 7) as u8 * 31).collect(),
        3 => {
            let words = ["the ", "quick ", "brown ", "fox ", "desert ", "binary ", "codec ", "\n"];
            let mut v = Vec::with_capacity(size + 8);
            while v.len() < size {
                v.extend_from_slice(rng.pick(&words).as_bytes());
            }
            v.truncate(size);
            v
        }
        _ => {
            // half compressible, half not
            let mut v = vec![0xaau8; size / 2];
            v.extend(rng.bytes(size - size / 2));
            v
        }
    }
}

#[derive(Debug, PartialEq)]
enum Read3 {
    Ok(Vec<u8>, usize),
    Err(&'static str),
    Panic(String),
}

fn read_with<I: BinaryInput>(mut input: I, total: usize) -> (Read3, monitors::alloc::AllocStats) {
    monitors::alloc::begin();
    let r = guarded(|| input.read_compressed(), |_| None);
    let st = monitors::alloc::end();
    let out = match r {
        Outcome::Done(Ok(v)) => {
            let mut rest = 0;
            while rest <= total && input.read_u8().is_ok() {
                rest += 1;
            }
            Read3::Ok(v, rest)
        }
        Outcome::Done(Err(e)) => Read3::Err(sbase::classify(&e).variant),
        Outcome::Panicked(p) => Read3::Panic(monitors::normalise_site(&p.site)),
        Outcome::StepBudget(_) => Read3::Panic("step budget".into()),
    };
    (out, st)
}

/// how many bytes the deflate stream inside a (possibly corrupted) frame really yields
fn really_produces(frame: &[u8]) -> usize {
    let mut s = SliceInput::new(frame);
    let Ok(_ulen) = s.read_var_u32() else { return 0 };
    let Ok(clen) = s.read_var_u32() else { return 0 };
    let Ok(z) = s.read_bytes(clen as usize) else { return 0 };
    let mut d = DeflateDecoder::new(z);
    let mut buf = [0u8; 8192];
    let mut n = 0usize;
    loop {
        match d.read(&mut buf) {
            Ok(0) => break,
            Ok(k) => n += k,
            Err(_) => break,
        }
        if n > (1 << 30) {
            break;
        }
    }
    n
}

fn judge_corrupted(acc: &mut Acc, class: &str, frame: &[u8]) {
    let (r, st) = read_with(SliceInput::new(frame), frame.len());
    acc.case(Some(sig(&[class.as_bytes(), frame])));
    let produced = match &r {
        Read3::Ok(v, _) => v.len(),
        _ => really_produces(frame),
    };
    let budget = (64 * 1024).max(2 * produced);
    acc.max("max_single_allocation_on_corrupted_frame", st.max_single as u64);
    match &r {
        Read3::Panic(site) => acc.violation(
            format!("C16|corrupted|panic:{site}"),
            J::obj().with("check", J::s("C16")).with("mode", J::s("frame")).with("class", J::s(class)).with("hex", J::s(hex(&frame[..frame.len().min(4096)]))),
        ),
        Read3::Ok(..) => acc.count(&format!("corrupted_ok:{class}")),
        Read3::Err(_) => acc.count(&format!("corrupted_err:{class}")),
    }
    if st.max_single > budget {
        acc.violation(
            "C16|corrupted|allocation".to_string(),
            J::obj()
                .with("check", J::s("C16"))
                .with("mode", J::s("frame"))
                .with("class", J::s(class))
                .with("hex", J::s(hex(&frame[..frame.len().min(4096)])))
                .with("largest_single_request", J::u(st.max_single as u64))
                .with("bytes_actually_produced", J::u(produced as u64)),
        );
    }
}

/// A block whose length does not fit the frame's 32-bit length field (2^32 + 5 zero bytes; the buffer is never written,
/// so it costs address space, not memory): the frame cannot record the true length, so only an error is acceptable.
/// Release lane only (4 GiB through the deflater: under two seconds optimised, far longer in a debug build).
fn block_beyond_the_length_field(acc: &mut Acc) {
    let n = (1usize << 32) + 5;
    let Some(big) = sbase::zeroed(n) else {
        acc.count("skipped_for_lack_of_address_space");
        return;
    };
    acc.case(Some(n as u64));
    let r = guarded(
        || {
            let mut v: Vec<u8> = Vec::new();
            v.write_compressed(&big, Compression::new(1)).map(|_| v)
        },
        |_| None,
    );
    let detail = |got: String| J::obj().with("check", J::s("C16")).with("mode", J::s("content")).with("what", J::s("block of 2^32 + 5 bytes")).with("got", J::s(got));
    match r {
        Outcome::Done(Err(e)) if sbase::classify(&e).variant == "LengthTooLarge" => acc.count("block_beyond_the_length_field_rejected"),
        Outcome::Done(Err(e)) => acc.violation("C16|length_field|other_error".to_string(), detail(sbase::classify(&e).variant.to_string())),
        Outcome::Done(Ok(frame)) => {
            let mut input = SliceInput::new(&frame);
            let announced = input.read_var_u32().unwrap_or(0);
            acc.violation("C16|length_field|frame_written_with_a_truncated_length".to_string(), detail(format!("Ok, frame of {} bytes announcing {announced} uncompressed bytes", frame.len())))
        }
        Outcome::Panicked(p) => acc.violation("C16|length_field|panic".to_string(), detail(monitors::normalise_site(&p.site))),
        Outcome::StepBudget(_) => {}
    }
}

/// Frames whose *compressed* length sits exactly on a width boundary of its varint (2^7, 2^14, 2^21 and one either
/// side): stored blocks (level 0) grow by a known amount, so the content size is searched for, not guessed.
fn compressed_length_at_width_boundaries(acc: &mut Acc) {
    use desert::SizeCalculator;
    for boundary in [1usize << 7, 1 << 14, 1 << 21] {
        for target in [boundary - 1, boundary, boundary + 1] {
            // level 0: compressed length = n + 5 per stored block (the deflater cuts blocks of about 32 KiB)
            let mut found = None;
            for n in target.saturating_sub(5 * (target / 30_000 + 3))..=target {
                let data = vec![0x5au8; n];
                let mut v: Vec<u8> = Vec::new();
                if v.write_compressed(&data, Compression::new(0)).is_err() {
                    continue;
                }
                if payload_len(&v) == target {
                    found = Some((data, v));
                    break;
                }
            }
            let Some((data, frame)) = found else {
                acc.count("compressed_length_boundary_not_reachable_at_level_0");
                continue;
            };
            acc.case(Some((target as u64) << 8 | 0xC1));
            let r = guarded(
                || -> Result<(), String> {
                    let mut sc = SizeCalculator::new();
                    sc.write_compressed(&data, Compression::new(0)).map_err(|e| e.to_string())?;
                    if sc.size() != frame.len() {
                        return Err(format!("SizeCalculator counted {} bytes for a frame of {}", sc.size(), frame.len()));
                    }
                    let mut b = BytesMut::new();
                    b.write_compressed(&data, Compression::new(0)).map_err(|e| e.to_string())?;
                    if b[..] != frame[..] {
                        return Err("BytesMut frame differs from the Vec frame".into());
                    }
                    let want: Vec<u8> = [&vu_bytes(data.len() as u32)[..], &vu_bytes(target as u32)[..]].concat();
                    if frame[..want.len()] != want[..] {
                        return Err(format!("frame header {} expected {}", hex(&frame[..want.len()]), hex(&want)));
                    }
                    for (name, back) in [
                        ("SliceInput", SliceInput::new(&frame).read_compressed()),
                        ("OwnedInput", OwnedInput::new(frame.clone()).read_compressed()),
                        ("DeserializationContext", DeserializationContext::new(&frame).read_compressed()),
                    ] {
                        match back {
                            Ok(d) if d == data => {}
                            other => return Err(format!("{name} read back {:?}", other.map(|d| d.len()).map_err(|e| e.to_string()))),
                        }
                    }
                    Ok(())
                },
                |_| None,
            );
            match r {
                Outcome::Done(Ok(())) => acc.count("compressed_lengths_at_width_boundaries_ok"),
                Outcome::Done(Err(w)) => acc.violation(
                    "C16|compressed_length_boundary|mismatch".to_string(),
                    J::obj().with("check", J::s("C16")).with("mode", J::s("content")).with("compressed_length", J::u(target as u64)).with("content_length", J::u(data.len() as u64)).with("what", J::s(w)),
                ),
                Outcome::Panicked(p) => acc.violation(
                    "C16|compressed_length_boundary|panic".to_string(),
                    J::obj().with("check", J::s("C16")).with("mode", J::s("content")).with("compressed_length", J::u(target as u64)).with("what", J::s(monitors::normalise_site(&p.site))),
                ),
                Outcome::StepBudget(_) => {}
            }
        }
    }
}

pub fn c16(ctx: &mut Ctx, acc: &mut Acc) -> i32 {
    if ctx.shard == 1 % ctx.shards {
        compressed_length_at_width_boundaries(acc);
    }
    if !cfg!(debug_assertions) && ctx.shard == 0 {
        block_beyond_the_length_field(acc);
    }
    let sizes: Vec<usize> = if ctx.thorough() {
        vec![0, 1, 2, 17, 100, 1000, 4096, 65_535, 65_536, 100_000, 1 << 20, 16 << 20]
    } else {
        vec![0, 1, 2, 17, 100, 1000, 4096, 65_535, 65_536, 100_000, 1 << 20]
    };
    let mut case_no = 0usize;
    let reps = ctx.n(1, 4);
    for (si, size) in sizes.iter().enumerate() {
        for kind in 0..5u64 {
            for level in 0..=9u32 {
                for rep in 0..reps {
                    case_no += 1;
                    if case_no % ctx.shards != ctx.shard {
                        continue;
                    }
                    if *size >= (1 << 20) && (level % 3 != 0 || rep > 0) {
                        continue; // the big ones at levels 0, 3, 6, 9 once
                    }
                    let mut rng = ctx.rng_for(0xC16, "content", (si as u64) << 32 | kind << 16 | (level as u64) << 8 | rep);
                    let data = content(&mut rng, kind, *size);
                    let tl = rng_len(&mut rng);
                    let trailing = rng.bytes(tl);
                    // write through both sinks
                    let w = guarded(
                        || {
                            let mut v: Vec<u8> = Vec::new();
                            v.write_compressed(&data, Compression::new(level))?;
                            let mut b = BytesMut::new();
                            b.write_compressed(&data, Compression::new(level))?;
                            Ok::<_, desert::Error>((v, b.to_vec()))
                        },
                        |_| None,
                    );
                    let (frame, frame_b) = match w {
                        Outcome::Done(Ok(x)) => x,
                        other => {
                            acc.violation(
                                "C16|write".to_string(),
                                J::obj().with("check", J::s("C16")).with("mode", J::s("content")).with("size", J::u(*size as u64)).with("kind", J::u(kind)).with("level", J::u(level)).with("got", J::s(format!("{:?}", matches!(other, Outcome::Panicked(_))))),
                            );
                            continue;
                        }
                    };
                    acc.case(Some(sig(&[&frame])));
                    let mut ok = frame == frame_b;
                    // frame == varint(len d) ++ varint(len z) ++ z, and z inflates to d
                    let mut s = SliceInput::new(&frame);
                    let ulen = s.read_var_u32().unwrap_or(u32::MAX) as usize;
                    let clen = s.read_var_u32().unwrap_or(u32::MAX) as usize;
                    let header = [vu_bytes(data.len() as u32), vu_bytes(clen as u32)].concat();
                    let z_ok = frame.len() == header.len() + clen && frame.starts_with(&header) && ulen == data.len() && {
                        let mut out = Vec::new();
                        DeflateDecoder::new(&frame[header.len()..]).read_to_end(&mut out).is_ok() && out == data
                    };
                    ok &= z_ok;
                    // read back through all three sources, with trailing data
                    let mut buf = frame.clone();
                    buf.extend_from_slice(&trailing);
                    let (a, sa) = read_with(SliceInput::new(&buf), buf.len());
                    let (b, _) = read_with(OwnedInput::new(buf.clone()), buf.len());
                    let (c, _) = read_with(DeserializationContext::new(&buf), buf.len());
                    let want = Read3::Ok(data.clone(), trailing.len());
                    ok &= a == want && b == want && c == want;
                    // reading a valid frame must not reserve out of proportion either
                    let alloc_ok = sa.max_single <= (64 * 1024).max(2 * data.len());
                    acc.max("max_single_allocation_over_twice_produced_permille", if data.len() > 32768 { (sa.max_single as u64 * 1000) / (2 * data.len() as u64) } else { 0 });
                    if *size <= (1 << 20) {
                        through_contexts(acc, &data, level, &frame);
                        block_into_a_compressing_sink(acc, &data, level, &frame);
                    }
                    if ok && alloc_ok {
                        acc.count("frames_round_trip");
                        acc.count(&format!("level:{level}"));
                    } else {
                        acc.violation(
                            format!("C16|roundtrip|{}", if !z_ok { "frame_layout" } else if !alloc_ok { "allocation" } else { "content_or_following_bytes" }),
                            J::obj()
                                .with("check", J::s("C16"))
                                .with("mode", J::s("content"))
                                .with("seed", J::u(ctx.seed))
                                .with("size", J::u(*size as u64))
                                .with("kind", J::u(kind))
                                .with("level", J::u(level))
                                .with("rep", J::u(rep))
                                .with("frame_head", J::s(hex(&frame[..frame.len().min(64)])))
                                .with("stored_uncompressed_len", J::u(ulen as u64))
                                .with("stored_compressed_len", J::u(clen as u64))
                                .with("largest_single_request", J::u(sa.max_single as u64)),
                        );
                    }
                    if acc.samples.len() < 4 && *size == 100 {
                        acc.sample(J::obj().with("content_kind", J::u(kind)).with("level", J::u(level)).with("size", J::u(*size as u64)).with("frame", J::s(short(&frame))));
                    }
                    // every truncation of small frames is an error
                    if frame.len() <= 4096 {
                        for k in 0..frame.len() {
                            let (r, _) = read_with(SliceInput::new(&frame[..k]), k);
                            acc.case(Some(sig(&[b"trunc", &frame[..k]])));
                            match r {
                                Read3::Err(_) => acc.count("truncations_rejected"),
                                other => acc.violation(
                                    format!("C16|truncation|{}", if matches!(other, Read3::Ok(..)) { "decoded_ok" } else { "panic" }),
                                    J::obj().with("check", J::s("C16")).with("mode", J::s("frame")).with("hex", J::s(hex(&frame[..k]))).with("full_len", J::u(frame.len() as u64)),
                                ),
                            }
                        }
                    }
                    // corruption: bit flips (every position of small frames, random positions of large ones)
                    let flips: Vec<usize> = if frame.len() <= 300 { (0..frame.len() * 8).collect() } else { (0..400).map(|_| rng.below(frame.len() as u64 * 8) as usize).collect() };
                    for f in flips {
                        let mut t = frame.clone();
                        t[f / 8] ^= 1 << (f % 8);
                        judge_corrupted(acc, "bitflip", &t);
                    }
                    // the first bytes of the deflate stream (block header / stored-block length): corruption that stops inflation early
                    for bit in 0..(32.min((frame.len() - header.len()) * 8)) {
                        let mut t = frame.clone();
                        t[header.len() + bit / 8] ^= 1 << (bit % 8);
                        judge_corrupted(acc, "deflate_header_flip", &t);
                    }
                    // header rewrites
                    for (which, old) in [(0usize, data.len() as u64), (1usize, clen as u64)] {
                        for new in [0u64, old.saturating_sub(1), old + 1, old * 2, u32::MAX as u64, 1 << 31, 4_000_000_000] {
                            if new == old || new > u32::MAX as u64 {
                                continue;
                            }
                            let (u, c) = if which == 0 { (new, clen as u64) } else { (data.len() as u64, new) };
                            let mut t = [vu_bytes(u as u32), vu_bytes(c as u32)].concat();
                            t.extend_from_slice(&frame[header.len()..]);
                            judge_corrupted(acc, if which == 0 { "rewrite_uncompressed_len" } else { "rewrite_compressed_len" }, &t);
                        }
                    }
                }
            }
        }
    }
    // pinned: the smallest frame that claims 4 GiB
    if ctx.shard == 0 {
        let mut t = vu_bytes(u32::MAX);
        t.extend_from_slice(&vu_bytes(0));
        judge_corrupted(acc, "pinned_4GiB_claim", &t);
        let mut t = vu_bytes(u32::MAX);
        t.extend_from_slice(&vu_bytes(2));
        t.extend_from_slice(&[0x03, 0x00]); // an empty final deflate block
        judge_corrupted(acc, "pinned_4GiB_claim", &t);
    }
    0
}

fn rng_len(rng: &mut Rng) -> usize {
    match rng.below(3) {
        0 => 0,
        1 => 1,
        _ => rng.below(40) as usize,
    }
}
