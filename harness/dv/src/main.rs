//! dv — the worker binary: one sub-command per check (DESIGN §3.3).
//!
//!   dv <check> --tier quick|thorough --seed N --shard i/n --out FILE [--crumb FILE] [--lane NAME] [--scale F] [--set k=v]
//!   dv replay FILE
//!   dv list

mod canary;
mod common;
mod compress;
mod containers;
mod encx;
mod enumx;
mod evo;
mod graph;
mod hostile;
mod inputs;
mod prims;
mod replay;
mod rt;
mod streams;
mod threads;

use common::*;
use monitors::json::J;
use monitors::Breadcrumb;
use refmodel::GenCtx;

fn main() {
    let args: Vec<String> = std::env::args().collect();
    if args.len() < 2 {
        eprintln!("usage: dv <check> [options] | dv replay FILE | dv list");
        std::process::exit(2);
    }
    if args[1] == "canary" {
        std::process::exit(canary::run(args.get(2).map(|s| s.as_str()).unwrap_or("")));
    }
    monitors::install_panic_hook();
    let check = args[1].clone();
    let mut tier = match std::env::var("VERIF_TIER").ok().as_deref() {
        Some("thorough") => Tier::Thorough,
        _ => Tier::Quick,
    };
    let mut seed: u64 = std::env::var("VERIF_SEED").ok().and_then(|s| s.parse().ok()).unwrap_or(1);
    let mut shard = 0usize;
    let mut shards = 1usize;
    let mut out = None;
    let mut crumb = None;
    let mut lane = "dbg".to_string();
    let mut scale = 1.0f64;
    let mut resume_after = None;
    let mut extra = std::collections::BTreeMap::new();
    let mut positional = Vec::new();
    let mut i = 2;
    while i < args.len() {
        let a = args[i].as_str();
        let mut val = || {
            i += 1;
            args.get(i).cloned().unwrap_or_else(|| {
                eprintln!("missing value for {a}");
                std::process::exit(2)
            })
        };
        match a {
            "--tier" => tier = if val() == "thorough" { Tier::Thorough } else { Tier::Quick },
            "--seed" => seed = val().parse().expect("seed"),
            "--shard" => {
                let v = val();
                let (a, b) = v.split_once('/').expect("i/n");
                shard = a.parse().expect("shard");
                shards = b.parse().expect("shards");
            }
            "--out" => out = Some(val()),
            "--crumb" => crumb = Some(val()),
            "--lane" => lane = val(),
            "--scale" => scale = val().parse().expect("scale"),
            "--resume-after" => resume_after = Some(val().parse().expect("resume")),
            "--set" => {
                let v = val();
                let (k, x) = v.split_once('=').expect("k=v");
                extra.insert(k.to_string(), x.to_string());
            }
            other => positional.push(other.to_string()),
        }
        i += 1;
    }

    // all real work happens on a thread with a large (virtual) stack, so that incidental nesting cannot kill the worker
    let stack = if cfg!(miri) { 64 << 20 } else { 1 << 30 };
    let handle = std::thread::Builder::new()
        .stack_size(stack)
        .spawn(move || {
            // checks that do not touch generated subjects skip the registry (it matters under Miri, where building it takes minutes)
            let reg = if matches!(check.as_str(), "C10" | "C11" | "C16" | "C18probe") { sbase::Registry::new() } else { subjects::registry() };
            // the race detector's lane of C18 is about schedules, not sizes: no 70 000-element lists under a 10x slowdown
            let allow_large = !(check == "C18" && lane == "tsan");
            let gen = GenCtx { tz_names: sbase::tz_names(), dst_edges: true, allow_large, ..GenCtx::default() };
            let mut ctx = Ctx {
                check: check.clone(),
                tier,
                seed,
                shard,
                shards,
                out,
                lane,
                scale,
                reg,
                crumb: Breadcrumb::open(crumb.as_deref()),
                gen,
                resume_after,
                extra,
            };
            let started = std::time::Instant::now();
            let mut acc = Acc::new();
            let code = match check.as_str() {
                "list" => {
                    for s in &ctx.reg.subjects {
                        println!("{}\t{}", s.id(), s.ty().render());
                    }
                    println!("{} subjects, {} histories, {} families", ctx.reg.subjects.len(), ctx.reg.histories.len(), ctx.reg.families.len());
                    return 0;
                }
                "replay" => return replay::run(&mut ctx, &positional),
                "C01" => rt::c01(&mut ctx, &mut acc),
                "C02" => rt::c02(&mut ctx, &mut acc),
                "C03" => evo::c03(&mut ctx, &mut acc),
                "C04" => rt::c04(&mut ctx, &mut acc),
                "C05" => hostile::c05(&mut ctx, &mut acc),
                "C06" => hostile::c06(&mut ctx, &mut acc),
                "C07" => rt::c07(&mut ctx, &mut acc),
                "C09" => streams::c09(&mut ctx, &mut acc),
                "C10" => graph::c10(&mut ctx, &mut acc),
                "C11" => prims::c11(&mut ctx, &mut acc),
                "C12" => containers::c12(&mut ctx, &mut acc),
                "C13" => enumx::c13(&mut ctx, &mut acc),
                "C14" => enumx::c14(&mut ctx, &mut acc),
                "C15" => prims::c15(&mut ctx, &mut acc),
                "C16" => compress::c16(&mut ctx, &mut acc),
                "C17" => encx::c17(&mut ctx, &mut acc),
                "C18" => threads::c18(&mut ctx, &mut acc),
                "C19" => hostile::c19(&mut ctx, &mut acc),
                "depthprobe" => return hostile::depthprobe(&mut ctx),
                "oneshot" => return hostile::oneshot(&mut ctx),
                "C18probe" => return threads::probe(),
                "C08" => rt::c08(&mut ctx, &mut acc),
                other => {
                    eprintln!("unknown check {other}");
                    return 2;
                }
            };
            ctx.crumb.clear();
            let mut j = acc.to_json();
            j.set("check", J::s(ctx.check.clone()));
            j.set("shard", J::u(ctx.shard as u64));
            j.set("shards", J::u(ctx.shards as u64));
            j.set("lane", J::s(ctx.lane.clone()));
            j.set("seed", J::u(ctx.seed));
            j.set("wall_s", J::Float(started.elapsed().as_secs_f64()));
            j.set("alloc_monitor", J::Bool(monitors::alloc::installed()));
            let text = j.to_string();
            match &ctx.out {
                Some(p) => std::fs::write(p, text).expect("write result"),
                None => println!("{text}"),
            }
            code
        })
        .expect("spawn worker thread");
    let code = handle.join().unwrap_or(3);
    std::process::exit(code);
}
