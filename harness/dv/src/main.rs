fn main(){}
