//! C09 — string deduplication: flat streams of (dedup | plain) string writes against a reference string table,
//! plus every subject whose type contains a deduplicated string (tuples, sequences, v0 and evolved records).

use crate::common::*;
use crate::rt::{check_emitted, encode_case, expected};
use desert::{BinaryDeserializer, BinarySerializer, DeduplicatedString, DeserializationContext, SerializationContext};
use monitors::json::J;
use refmodel::enc::vi_bytes;
use refmodel::{canon, gen_val, hex};
use sbase::{classify, monitored, Call};

fn alphabet() -> Vec<String> {
    vec![String::new(), "a".into(), "é".into(), "日本語".into(), "x".repeat(200), "gone".into(), "p".into()]
}

#[derive(Clone, Copy, Debug, PartialEq)]
struct Op {
    dedup: bool,
    s: usize,
}

fn plain_bytes(s: &str) -> Vec<u8> {
    let mut v = vi_bytes(s.len() as i32);
    v.extend_from_slice(s.as_bytes());
    v
}

/// reference string table: ids from 1 in first-occurrence order, only deduplicated writes take part
fn expected_stream(ops: &[Op], alpha: &[String]) -> (Vec<u8>, usize, usize) {
    let mut table: std::collections::HashMap<usize, usize> = std::collections::HashMap::new();
    let mut out = Vec::new();
    let mut repeats = 0;
    for op in ops {
        if op.dedup {
            if let Some(pos) = table.get(&op.s).copied() {
                out.extend_from_slice(&vi_bytes(-((pos + 1) as i32)));
                repeats += 1;
            } else {
                table.insert(op.s, table.len());
                out.extend_from_slice(&plain_bytes(&alpha[op.s]));
            }
        } else {
            out.extend_from_slice(&plain_bytes(&alpha[op.s]));
        }
    }
    (out, table.len(), repeats)
}

fn write_stream(ops: &[Op], alpha: &[String]) -> Call<Vec<u8>> {
    monitored(None, || {
        let mut sc = SerializationContext::new(Vec::new());
        for op in ops {
            let r = if op.dedup { DeduplicatedString(alpha[op.s].clone()).serialize(&mut sc) } else { alpha[op.s].serialize(&mut sc) };
            r.map_err(|e| classify(&e))?;
        }
        Ok(sc.into_output())
    })
    .0
}

fn read_stream(bytes: &[u8], kinds: &[bool]) -> Call<Vec<String>> {
    monitored(None, || {
        let mut dc = DeserializationContext::new(bytes);
        let mut out = Vec::new();
        for dedup in kinds {
            let s = if *dedup {
                DeduplicatedString::deserialize(&mut dc).map(|d| d.0)
            } else {
                String::deserialize(&mut dc)
            };
            out.push(s.map_err(|e| classify(&e))?);
        }
        Ok(out)
    })
    .0
}

fn one_stream(acc: &mut Acc, ops: &[Op], alpha: &[String], how: &str) {
    let (exp, ids, repeats) = expected_stream(ops, alpha);
    let detail = |what: &str, got: String| {
        J::obj()
            .with("check", J::s("C09"))
            .with("mode", J::s("dedup_stream"))
            .with("ops", J::s(format!("{ops:?}")))
            .with("expected_bytes", J::s(short(&exp)))
            .with("got", J::s(got))
            .with("what", J::s(what))
    };
    acc.case(if repeats > 0 { Some(sig(&[format!("{ops:?}").as_bytes()])) } else { None });
    acc.count(&format!("streams:{how}"));
    let written = write_stream(ops, alpha);
    let Call::Ok(bytes) = written else {
        acc.violation(format!("C09|write|{}", written.class()), detail("writing the stream failed", written.class()));
        return;
    };
    if bytes != exp {
        let class = if repeats == 0 { "no_repeat_stream_differs_from_plain_stream" } else { "back_reference_bytes" };
        acc.violation(format!("C09|bytes|{class}"), detail("bytes differ from the reference string table", short(&bytes)));
    } else {
        acc.add("back_references_checked", repeats as u64);
        if repeats == 0 {
            acc.count("no_repeat_streams_identical_to_plain");
        }
    }
    let kinds: Vec<bool> = ops.iter().map(|o| o.dedup).collect();
    let read = read_stream(&bytes, &kinds);
    let want: Vec<String> = ops.iter().map(|o| alpha[o.s].clone()).collect();
    match &read {
        Call::Ok(got) if *got == want => acc.count("streams_read_back"),
        other => acc.violation(
            format!("C09|read|{}", if other.is_ok() { "other_strings".to_string() } else { other.class() }),
            detail("decoded strings differ from those written", format!("{:?}", other.class())).with("hex", J::s(hex(&bytes))),
        ),
    }
    // the same stream from a foreign writer that sends every other repeat in full again instead of citing it (the format
    // allows that, the Scala writer does it): a string that is known keeps its id, later citations mean what they meant
    if repeats >= 2 {
        let mut table: std::collections::HashMap<usize, usize> = std::collections::HashMap::new();
        let mut foreign = Vec::new();
        let mut nth = 0;
        for op in ops {
            if op.dedup {
                if let Some(pos) = table.get(&op.s).copied() {
                    nth += 1;
                    if nth % 2 == 1 {
                        foreign.extend_from_slice(&plain_bytes(&alpha[op.s]));
                    } else {
                        foreign.extend_from_slice(&vi_bytes(-((pos + 1) as i32)));
                    }
                    continue;
                }
                table.insert(op.s, table.len());
            }
            foreign.extend_from_slice(&plain_bytes(&alpha[op.s]));
        }
        match read_stream(&foreign, &kinds) {
            Call::Ok(got) if got == want => acc.count("streams_with_known_strings_sent_in_full_read_back"),
            other => acc.violation(
                format!("C09|read_foreign|{}", if other.is_ok() { "other_strings".to_string() } else { other.class() }),
                detail("a stream in which known strings are sent in full again decodes to other strings", other.class()).with("hex", J::s(hex(&foreign))),
            ),
        }
    }
    // ids never introduced must be errors
    for k in [ids as i64 + 1, ids as i64 + 2, i32::MAX as i64, -(i32::MIN as i64)] {
        let mut hostile = bytes.clone();
        if k == -(i32::MIN as i64) {
            hostile.extend_from_slice(&[0xff, 0xff, 0xff, 0xff, 0x0f]); // var_i32 of i32::MIN
        } else {
            hostile.extend_from_slice(&vi_bytes(-(k as i32)));
        }
        let mut kinds2 = kinds.clone();
        kinds2.push(true);
        match read_stream(&hostile, &kinds2) {
            Call::Err(e) if e.variant == "InvalidStringId" => acc.count("unknown_ids_rejected"),
            other => acc.violation(
                format!("C09|unknown_id|{}", other.class()),
                detail("an id that was never introduced did not decode to InvalidStringId", other.class()).with("hex", J::s(hex(&hostile))).with("cited_id", J::Int(k)),
            ),
        }
    }
    if acc.samples.len() < 4 && repeats > 0 {
        acc.sample(J::obj().with("writes", J::s(format!("{ops:?}"))).with("bytes", J::s(short(&bytes))).with("ids_introduced", J::u(ids as u64)).with("back_references", J::u(repeats as u64)));
    }
}

/// One stream that uses both tables of the per-stream state: deduplicated strings and tracked objects are numbered
/// independently of each other (a string's id does not move because an object was offered in between).
fn strings_and_tracked_objects(acc: &mut Acc) {
    struct Obj(u8);
    let (a, b) = (Obj(1), Obj(2));
    acc.case(Some(0x09_0b1ec7));
    let written = monitored(None, || {
        let mut sc = SerializationContext::new(Vec::new());
        let mut ds = |sc: &mut SerializationContext<Vec<u8>>, s: &str| DeduplicatedString(s.to_string()).serialize(sc).map_err(|e| classify(&e));
        ds(&mut sc, "x")?; // string 1
        let new_a = sc.store_ref_or_object(&a).map_err(|e| classify(&e))?; // object 1: new
        ds(&mut sc, "y")?; // string 2
        let new_b = sc.store_ref_or_object(&b).map_err(|e| classify(&e))?; // object 2: new
        let again_a = sc.store_ref_or_object(&a).map_err(|e| classify(&e))?; // object 1 again
        ds(&mut sc, "x")?; // string 1 again
        ds(&mut sc, "z")?; // string 3
        let again_b = sc.store_ref_or_object(&b).map_err(|e| classify(&e))?;
        ds(&mut sc, "y")?; // string 2 again
        ds(&mut sc, "z")?; // string 3 again
        let _ = (a.0, b.0);
        Ok((sc.into_output(), [new_a, new_b, again_a, again_b]))
    })
    .0;
    use refmodel::enc::vu_bytes;
    let want: Vec<u8> = [
        &plain_bytes("x")[..],
        &vu_bytes(0)[..],
        &plain_bytes("y")[..],
        &vu_bytes(0)[..],
        &vu_bytes(1)[..],
        &vi_bytes(-1)[..],
        &plain_bytes("z")[..],
        &vu_bytes(2)[..],
        &vi_bytes(-2)[..],
        &vi_bytes(-3)[..],
    ]
    .concat();
    let ok_write = matches!(&written, Call::Ok((b, flags)) if *b == want && *flags == [true, true, false, false]);
    // … and the reader numbers them the same way: strings are registered as they are read, objects when the client says so
    let read = monitored(None, || {
        let mut dc = DeserializationContext::new(&want);
        let mut out: Vec<String> = Vec::new();
        let mut ds = |dc: &mut DeserializationContext<'_>, out: &mut Vec<String>| DeduplicatedString::deserialize(dc).map(|d| out.push(d.0)).map_err(|e| classify(&e));
        let (oa, ob) = (Obj(1), Obj(2));
        ds(&mut dc, &mut out)?;
        let r1 = dc.try_read_ref().map(|r| r.is_some()).map_err(|e| classify(&e))?; // new object
        dc.state_mut().store_ref(&oa);
        ds(&mut dc, &mut out)?;
        let r2 = dc.try_read_ref().map(|r| r.is_some()).map_err(|e| classify(&e))?; // new object
        dc.state_mut().store_ref(&ob);
        let r3 = dc.try_read_ref().map(|r| r.map(|x| x.downcast_ref::<Obj>().map(|o| o.0))).map_err(|e| classify(&e))?;
        ds(&mut dc, &mut out)?;
        ds(&mut dc, &mut out)?;
        let r4 = dc.try_read_ref().map(|r| r.map(|x| x.downcast_ref::<Obj>().map(|o| o.0))).map_err(|e| classify(&e))?;
        ds(&mut dc, &mut out)?;
        ds(&mut dc, &mut out)?;
        Ok((out, r1, r2, r3, r4))
    })
    .0;
    let ok_read = matches!(&read, Call::Ok((out, false, false, Some(Some(1)), Some(Some(2)))) if out == &["x", "y", "x", "z", "y", "z"]);
    if ok_write && ok_read {
        acc.count("streams_with_strings_and_tracked_objects_ok");
    } else {
        acc.violation(
            "C09|strings_and_tracked_objects".to_string(),
            J::obj()
                .with("check", J::s("C09"))
                .with("mode", J::s("content"))
                .with("expected_bytes", J::s(hex(&want)))
                .with("written", J::s(match &written {
                    Call::Ok((b, f)) => format!("{} offers {f:?}", hex(b)),
                    o => o.class(),
                }))
                .with("read_back", J::s(format!("{read:?}").chars().take(300).collect::<String>())),
        );
    }
}

pub fn c09(ctx: &mut Ctx, acc: &mut Acc) -> i32 {
    if ctx.shard == 0 {
        strings_and_tracked_objects(acc);
    }
    let alpha = alphabet();
    let options: Vec<Op> = (0..alpha.len()).flat_map(|s| [Op { dedup: true, s }, Op { dedup: false, s }]).collect();
    // exhaustive short patterns
    let max_len = if ctx.thorough() { 5 } else { 4 };
    let mut index: u64 = 0;
    for len in 1..=max_len {
        let total = (options.len() as u64).pow(len as u32);
        for code in 0..total {
            index += 1;
            if index as usize % ctx.shards != ctx.shard {
                continue;
            }
            let mut c = code;
            let ops: Vec<Op> = (0..len)
                .map(|_| {
                    let o = options[(c % options.len() as u64) as usize];
                    c /= options.len() as u64;
                    o
                })
                .collect();
            one_stream(acc, &ops, &alpha, "exhaustive");
        }
    }
    acc.add("exhaustive_pattern_length", if ctx.shard == 0 { max_len as u64 } else { 0 });
    // random longer streams
    let rounds = ctx.n(20_000, 400_000);
    for r in 0..rounds {
        if r as usize % ctx.shards != ctx.shard {
            continue;
        }
        let mut rng = ctx.rng_for(0xC09, "stream", r);
        let len = 5 + rng.below(36) as usize;
        let ops: Vec<Op> = (0..len).map(|_| *rng.pick(&options)).collect();
        one_stream(acc, &ops, &alpha, "random");
    }
    // many distinct strings: ids that need two and three varint bytes (|id| >= 64, >= 8192)
    let big: Vec<usize> = if ctx.thorough() { vec![70, 200, 8200, 8300, 70_000, 140_000] } else { vec![70, 8200, 70_000] };
    for (bi, n) in big.iter().enumerate() {
        if bi % ctx.shards != ctx.shard {
            continue;
        }
        // the strings whose ids sit at the width boundaries are the shortest there are ("", one byte, two bytes): for
        // them a back-reference is longer than the literal, and still every repeat must be the back-reference
        let boundaries = [62usize, 63, 64, 65, 8190, 8191, 8192, 8193, 65_534, 65_535, 65_536, 65_537, 69_999];
        let shorts = ["", "a", "b", "é", "c", "zz", "d", "e", "yy", "f", "g", "ww", "h"];
        let mut alpha_big: Vec<String> = (0..*n + 8).map(|i| format!("s{i}")).collect();
        for (b, sh) in boundaries.iter().zip(shorts) {
            if *b < *n {
                alpha_big[*b] = sh.to_string();
            }
        }
        let mut rng = ctx.rng_for(0xC09 ^ 0xB16, "big", *n as u64);
        // introduce all strings, then cite them in a random order (some twice), mixed with plain writes
        let mut ops: Vec<Op> = (0..*n).map(|s| Op { dedup: true, s }).collect();
        for _ in 0..*n {
            let s = rng.below(*n as u64) as usize;
            ops.push(Op { dedup: !rng.chance(1, 10), s });
        }
        // the ids at the width boundaries, explicitly
        for s in boundaries {
            if s < *n {
                ops.push(Op { dedup: true, s });
            }
        }
        // strings introduced after those repeats, cited in turn, and the boundary strings once more: a reader whose
        // numbering drifted on the way decodes other strings here
        for s in *n..*n + 8 {
            ops.push(Op { dedup: true, s });
        }
        for s in (*n..*n + 8).rev() {
            ops.push(Op { dedup: true, s });
        }
        for s in boundaries {
            if s < *n {
                ops.push(Op { dedup: true, s });
            }
        }
        one_stream(acc, &ops, &alpha_big, "many_ids");
        acc.max("largest_string_id_cited", *n as u64);
    }
    // deduplicated strings inside tuples, sequences, v0 records and evolved records (with and without names in the header)
    let ids: Vec<String> = ctx.my_subjects(|s| s.ty().has_dedup()).iter().map(|s| s.id().to_string()).collect();
    let n = ctx.n(300, 5000);
    for id in &ids {
        let s = ctx.reg.get(id).unwrap();
        let ty = s.ty();
        for idx in 0..n {
            let mut rng = ctx.rng_for(0xC09, id, idx);
            let v = gen_val(&ty, &mut rng, &ctx.gen);
            let exp = expected(&ty, &v);
            let Some((_x, bytes)) = encode_case(acc, s, &v) else {
                acc.case(None);
                continue;
            };
            acc.case(Some(sig(&[id.as_bytes(), &bytes])));
            let a = check_emitted(acc, "C09", s, &bytes, &exp);
            let got = sbase::dec_val(s, &bytes);
            let b = match &got {
                Call::Ok(g) => canon(&ty, g).map(|c| c == exp).unwrap_or(false),
                _ => false,
            };
            if !b {
                acc.violation(format!("C09|{id}|roundtrip|{}", got.class()), replay_decode("C09", id, &bytes, "value containing deduplicated strings").with("expected", J::s(exp.render(300))));
            }
            if a && b {
                acc.count("records_with_dedup_strings_ok");
                if ctx.has_tag(id, "dedup_header_names") {
                    acc.count("records_with_names_in_header_ok");
                }
            }
        }
        acc.count("types_with_dedup_strings");
    }
    0
}
