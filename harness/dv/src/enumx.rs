//! C13 (enum constructor identity) and C14 (transient fields and constructors).

use crate::common::*;
use crate::rt::{encode_case, expected};
use monitors::json::J;
use refmodel::enc::vu_bytes;
use refmodel::{canon, gen_val, has_transient_field, scramble_transients, EnumSchema, Ty, Val};
use sbase::{dec_val, Call, Sink, Subject};
use std::sync::Arc;

fn enum_schema(s: &dyn Subject) -> Option<Arc<EnumSchema>> {
    match s.ty().resolved() {
        Ty::Enum(e) => Some(e),
        _ => None,
    }
}

/// a value of the variant with declaration index `decl`
fn value_of_variant(ctx: &Ctx, e: &EnumSchema, decl: usize, rng: &mut refmodel::Rng) -> Val {
    let rec = Ty::Record(Arc::new(e.variants[decl].record.clone()));
    match gen_val(&rec, rng, &ctx.gen) {
        Val::Rec(fields) => Val::Ctor(decl, fields),
        _ => unreachable!(),
    }
}

fn index_probes(acc: &mut Acc, s: &dyn Subject, e: &EnumSchema, rng: &mut refmodel::Rng) {
    let n = e.variants.len() as u32;
    // indices the definition does not know
    for idx in [n, n + 1, 127, 128, 1 << 14, u32::MAX] {
        if idx < n {
            continue;
        }
        let mut bytes = vec![0u8];
        bytes.extend_from_slice(&vu_bytes(idx));
        let tail = rng.below(12) as usize;
        bytes.extend_from_slice(&rng.bytes(tail));
        acc.case(Some(sig(&[s.id().as_bytes(), &bytes])));
        match sbase::dec(s, &bytes) {
            Call::Err(err) if err.variant == "InvalidConstructorId" => acc.count("unknown_index_rejected"),
            other => acc.violation(
                format!("C13|unknown_index|{}", if other.is_ok() { "decoded_ok".to_string() } else { other.class() }),
                replay_decode("C13", s.id(), &bytes, "constructor index the definition does not know").with("index", J::u(idx)).with("variants", J::u(n)),
            ),
        }
    }
    // indices of transient constructors
    for (decl, v) in e.variants.iter().enumerate() {
        if !v.transient {
            continue;
        }
        let mut bytes = vec![0u8];
        bytes.extend_from_slice(&vu_bytes(e.wire_index(decl)));
        let tail = rng.below(12) as usize;
        bytes.extend_from_slice(&rng.bytes(tail));
        acc.case(Some(sig(&[s.id().as_bytes(), &bytes])));
        let want = format!("{}::{}", e.name, v.name);
        match sbase::dec(s, &bytes) {
            Call::Err(err) if err.variant == "DeserializingTransientConstructor" && err.payload == want => acc.count("transient_index_rejected"),
            other => acc.violation(
                format!("C13|transient_index|{}", if other.is_ok() { "decoded_ok".to_string() } else { other.class() }),
                replay_decode("C13", s.id(), &bytes, "index of a transient constructor").with("constructor", J::s(want)),
            ),
        }
    }
}

pub fn c13(ctx: &mut Ctx, acc: &mut Acc) -> i32 {
    let n = ctx.n(800, 6000);
    // (1) every enum of the corpus: leading index, unknown and transient indices
    let ids: Vec<String> = ctx.my_subjects(|s| enum_schema(s).is_some()).iter().map(|s| s.id().to_string()).collect();
    for id in &ids {
        let s = ctx.reg.get(id).unwrap();
        let e = enum_schema(s).unwrap();
        let mut rng = ctx.rng_for(0xC13, id, 0);
        index_probes(acc, s, &e, &mut rng);
        for idx in 0..n.min(60) {
            let mut rng = ctx.rng_for(0xC13 ^ 1, id, idx);
            let v = gen_val(&s.ty(), &mut rng, &ctx.gen);
            let Val::Ctor(decl, _) = &v else { continue };
            let Some((_x, bytes)) = encode_case(acc, s, &v) else { continue };
            let mut lead = vec![0u8];
            lead.extend_from_slice(&vu_bytes(e.wire_index(*decl)));
            acc.case(Some(sig(&[id.as_bytes(), &bytes])));
            if bytes.starts_with(&lead) {
                acc.count("leading_index_is_position_in_index_order");
                if e.wire_index(*decl) >= 128 {
                    acc.count("two_byte_constructor_index_checked");
                }
                if e.sorted {
                    acc.count("leading_index_checked_for_sorted_constructors");
                }
            } else {
                acc.violation(
                    format!("C13|leading_index|{id}"),
                    replay_decode("C13", id, &bytes, "encoding of an enum value").with("expected_prefix", J::s(refmodel::hex(&lead))).with("constructor", J::s(e.variants[*decl].name.clone())),
                );
            }
        }
        acc.count("enums");
    }
    // (2) families: old data under extended definitions, new constructors under old definitions
    let fams: Vec<(String, Vec<String>)> = ctx
        .reg
        .families
        .iter()
        .enumerate()
        .filter(|(i, _)| i % ctx.shards == ctx.shard)
        .filter(|(_, f)| !ctx.only_fresh() || is_fresh_id(&f.id))
        .map(|(_, f)| (f.id.clone(), f.members.clone()))
        .collect();
    for (fid, members) in &fams {
        for a in 0..members.len() {
            for b in a + 1..members.len() {
                let sa = ctx.reg.get(&members[a]).unwrap();
                let sb = ctx.reg.get(&members[b]).unwrap();
                let ea = enum_schema(sa).unwrap();
                let eb = enum_schema(sb).unwrap();
                let tyb = sb.ty();
                // old data, extended definition
                for idx in 0..n {
                    let mut rng = ctx.rng_for(0xC13 ^ 2, &format!("{fid}:{a}:{b}"), idx);
                    let v = gen_val(&sa.ty(), &mut rng, &ctx.gen);
                    let Val::Ctor(decl_a, fields) = &v else { continue };
                    let name = &ea.variants[*decl_a].name;
                    let decl_b = eb.variants.iter().position(|x| &x.name == name).expect("extension keeps the old constructors");
                    let Some((_x, bytes)) = encode_case(acc, sa, &v) else { continue };
                    let exp = expected(&tyb, &Val::Ctor(decl_b, fields.clone()));
                    acc.case(Some(sig(&[sb.id().as_bytes(), &bytes])));
                    let got = dec_val(sb, &bytes);
                    let ok = match &got {
                        Call::Ok(g) => canon(&tyb, g).map(|c| c == exp).unwrap_or(false),
                        _ => false,
                    };
                    if ok {
                        if idx == 0 && acc.samples.len() < 4 {
                            acc.sample(
                                J::obj()
                                    .with("written_by", J::s(sa.id()))
                                    .with("read_by_extension", J::s(sb.id()))
                                    .with("constructor", J::s(name.clone()))
                                    .with("sorted_constructors", J::Bool(ea.sorted))
                                    .with("bytes", J::s(short(&bytes))),
                            );
                        }
                        acc.count("old_data_keeps_its_meaning");
                        if ea.sorted {
                            acc.count("old_data_keeps_its_meaning_sorted");
                        }
                    } else {
                        acc.violation(
                            format!("C13|{}->{}|old_data_changed_meaning|{}", sa.id(), sb.id(), if got.is_ok() { "other_value".to_string() } else { got.class() }),
                            replay_decode("C13", sb.id(), &bytes, "written by the base enum, read by its extension").with("writer", J::s(sa.id())).with("constructor", J::s(name.clone())).with("expected", J::s(exp.render(200))),
                        );
                    }
                }
                // new constructors, old definition
                let new_decls: Vec<usize> = (0..eb.variants.len()).filter(|d| !eb.variants[*d].transient && !ea.variants.iter().any(|x| x.name == eb.variants[*d].name)).collect();
                for idx in 0..n.min(200) {
                    if new_decls.is_empty() {
                        break;
                    }
                    let mut rng = ctx.rng_for(0xC13 ^ 3, &format!("{fid}:{a}:{b}"), idx);
                    let d = *rng.pick(&new_decls);
                    let v = value_of_variant(ctx, &eb, d, &mut rng);
                    let Some((_x, bytes)) = encode_case(acc, sb, &v) else { continue };
                    acc.case(Some(sig(&[sa.id().as_bytes(), &bytes])));
                    match sbase::dec(sa, &bytes) {
                        Call::Err(_) => acc.count("new_constructor_rejected_by_old_definition"),
                        other => acc.violation(
                            format!("C13|{}->{}|new_constructor|{}", sb.id(), sa.id(), if other.is_ok() { "decoded_ok".to_string() } else { other.class() }),
                            replay_decode("C13", sa.id(), &bytes, "a constructor the reading definition does not have").with("writer", J::s(sb.id())).with("constructor", J::s(eb.variants[d].name.clone())),
                        ),
                    }
                }
                acc.count("family_pairs");
            }
        }
        acc.count("families");
    }
    0
}

pub fn c14(ctx: &mut Ctx, acc: &mut Acc) -> i32 {
    let n = ctx.n(800, 6000);
    // (1) transient fields contribute no bytes and decode to their default
    let ids: Vec<String> = ctx.my_subjects(|s| has_transient_field(&s.ty())).iter().map(|s| s.id().to_string()).collect();
    for id in &ids {
        let s = ctx.reg.get(id).unwrap();
        let ty = s.ty();
        for t in ctx.reg.tags.get(id).cloned().unwrap_or_default() {
            if t.starts_with("transient_") {
                acc.count(&format!("feature:{t}"));
            }
        }
        for idx in 0..n {
            let mut rng = ctx.rng_for(0xC14, id, idx);
            let v = gen_val(&ty, &mut rng, &ctx.gen);
            let v2 = scramble_transients(&ty, &v, &mut rng, &ctx.gen);
            let (Some((_x1, b1)), Some((_x2, b2))) = (encode_case(acc, s, &v), encode_case(acc, s, &v2)) else {
                acc.case(None);
                continue;
            };
            acc.case(if v != v2 { Some(sig(&[id.as_bytes(), &b1])) } else { None });
            // hash containers iterate in a per-instance order: for such types the two byte strings are compared as what
            // they denote under the strict reference decoder (same length, same canonical value) instead of byte for byte
            let same = if ty.has_unordered() {
                b1.len() == b2.len()
                    && match (refmodel::ref_decode(&ty, &b1), refmodel::ref_decode(&ty, &b2)) {
                        (Ok((w1, u1)), Ok((w2, u2))) => u1 == b1.len() && u2 == b2.len() && canon(&ty, &w1).ok() == canon(&ty, &w2).ok(),
                        _ => false,
                    }
            } else {
                b1 == b2
            };
            if !same {
                acc.violation(
                    format!("C14|{id}|transient_field_reaches_the_wire"),
                    replay_value("C14", id, ctx.seed, 0xC14, idx, &v, "two values differing only in transient fields encode differently")
                        .with("bytes_1", J::s(short(&b1)))
                        .with("bytes_2", J::s(short(&b2)))
                        .with("value_2", J::s(v2.render(300))),
                );
                continue;
            }
            acc.count("transient_values_do_not_influence_bytes");
            // decoding sets every transient field to its declared default (which differs from the value encoded)
            let exp = expected(&ty, &v2);
            match dec_val(s, &b2) {
                Call::Ok(g) if canon(&ty, &g).map(|c| c == exp).unwrap_or(false) => acc.count("transient_fields_decoded_to_default"),
                other => acc.violation(
                    format!("C14|{id}|transient_default|{}", if other.is_ok() { "other_value".to_string() } else { other.class() }),
                    replay_decode("C14", id, &b2, "decoded transient field is not its declared default").with("expected", J::s(exp.render(300))),
                ),
            }
            if idx == 0 && acc.samples.len() < 4 {
                acc.sample(J::obj().with("type", J::s(id.clone())).with("value_1", J::s(v.render(160))).with("value_2", J::s(v2.render(160))).with("both_encode_to", J::s(short(&b1))));
            }
        }
        acc.count("declarations_with_transient_fields");
    }
    // (2) transient constructors: encoding fails with the dedicated error naming type and constructor
    let ids: Vec<String> = ctx
        .my_subjects(|s| enum_schema(s).map(|e| e.variants.iter().any(|v| v.transient)).unwrap_or(false))
        .iter()
        .map(|s| s.id().to_string())
        .collect();
    for id in &ids {
        let s = ctx.reg.get(id).unwrap();
        let e = enum_schema(s).unwrap();
        for (decl, var) in e.variants.iter().enumerate() {
            if !var.transient {
                continue;
            }
            for idx in 0..n.min(40) {
                let mut rng = ctx.rng_for(0xC14 ^ 7, id, idx * 64 + decl as u64);
                let v = value_of_variant(ctx, &e, decl, &mut rng);
                let x = s.make(&v);
                let want = format!("{}::{}", e.name, var.name);
                acc.case(Some(sig(&[id.as_bytes(), v.render(200).as_bytes()])));
                for sink in [Sink::ToByteVec, Sink::ToBytes, Sink::VecU8] {
                    match sbase::enc(s, x.as_ref(), sink) {
                        Call::Err(err) if err.variant == "SerializingTransientConstructor" && err.payload == want => acc.count("transient_constructor_refused"),
                        other => acc.violation(
                            format!("C14|{id}|transient_constructor|{}", if other.is_ok() { "encoded_ok".to_string() } else { other.class() }),
                            replay_value("C14", id, ctx.seed, 0xC14 ^ 7, idx, &v, "a value of a transient constructor was not refused with SerializingTransientConstructor").with("expected_names", J::s(want.clone())),
                        ),
                    }
                }
            }
        }
        acc.count("enums_with_transient_constructors");
    }
    // (3) every version that follows a FieldMadeTransient step stays encodable (whatever touched the field before)
    for (i, he) in ctx.reg.histories.iter().enumerate() {
        if i % ctx.shards != ctx.shard {
            continue;
        }
        for (k, step) in he.history.steps.iter().enumerate() {
            let refmodel::evo::HStep::MadeTransient { name, default } = step else { continue };
            let touched_before = he.history.steps[..k].iter().any(|s| match s {
                refmodel::evo::HStep::MadeOptional(n) => n == name,
                refmodel::evo::HStep::Added { field, .. } => &field.name == name,
                _ => false,
            });
            // data written by every earlier version (also versions that predate the field altogether), read by the version
            // in which the field is transient: the field is its declared default, nothing else
            if let Some((_, ids)) = he.flavours.iter().find(|(f, _)| f == "struct") {
                let reader = ctx.reg.get(&ids[k + 1]).unwrap();
                let rty = reader.ty();
                let pos = match rty.resolved() {
                    Ty::Record(r) => r.fields.iter().position(|f| &f.name == name),
                    _ => None,
                };
                for w in 0..=k {
                    let writer = ctx.reg.get(&ids[w]).unwrap();
                    for idx in 0..n.min(30) {
                        let mut rng = ctx.rng_for(0xC14 ^ 0xB, writer.id(), idx);
                        let v = gen_val(&writer.ty(), &mut rng, &ctx.gen);
                        let Some((_x, bytes)) = encode_case(acc, writer, &v) else { continue };
                        // only pairs whose documented outcome is a value
                        if he.history.expected(w, k + 1, &v).is_err() {
                            continue;
                        }
                        acc.case(Some(sig(&[reader.id().as_bytes(), &bytes])));
                        let got = dec_val(reader, &bytes);
                        let field_ok = match (&got, pos) {
                            (Call::Ok(Val::Rec(fields)), Some(p)) => canon(&rty, &Val::Rec(fields.clone())).ok().and_then(|c| match c {
                                Val::Rec(f) => Some(f[p].clone()),
                                _ => None,
                            }) == refmodel::canon(&match rty.resolved() { Ty::Record(r) => r.fields[p].ty.clone(), t => t }, default).ok(),
                            _ => false,
                        };
                        if field_ok {
                            acc.count("transient_default_for_older_data");
                        } else {
                            acc.violation(
                                format!("C14|{}->{}|transient_field_from_older_data|{}", writer.id(), reader.id(), if got.is_ok() { "not_the_declared_default".to_string() } else { got.class() }),
                                replay_decode("C14", reader.id(), &bytes, "older data read by the version in which the field is transient").with("writer", J::s(writer.id())).with("field", J::s(name.clone())).with("declared_default", J::s(default.render(200))),
                            );
                        }
                    }
                }
            }
            for (flavour, ids) in &he.flavours {
                let s = ctx.reg.get(&ids[k + 1]).unwrap();
                for idx in 0..n.min(50) {
                    let mut rng = ctx.rng_for(0xC14 ^ 9, s.id(), idx);
                    let v = gen_val(&s.ty(), &mut rng, &ctx.gen);
                    let x = s.make(&v);
                    acc.case(Some(sig(&[s.id().as_bytes(), v.render(200).as_bytes()])));
                    match sbase::enc(s, x.as_ref(), Sink::ToByteVec) {
                        Call::Ok(_) => {
                            acc.count("made_transient_versions_encodable");
                            if touched_before {
                                acc.count("made_transient_after_earlier_steps_encodable");
                            }
                        }
                        other => acc.violation(
                            format!("C14|{}|made_transient_not_encodable|{}", s.id(), other.class()),
                            replay_value("C14", s.id(), ctx.seed, 0xC14 ^ 9, idx, &v, "a record whose field was made transient cannot be encoded").with("embedding", J::s(flavour.clone())),
                        ),
                    }
                }
            }
        }
    }
    0
}
