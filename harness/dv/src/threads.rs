//! C18 — calls are isolated and deterministic, also across threads.
//!  (a) first-use storms: N threads meet at a barrier and make the first encode / decode of a type simultaneously
//!      (each derived type owns fresh lazy statics), results compared with the state-free reference;
//!      the metadata-construction counter (hook) must not move after the storm and must equal the single-threaded count;
//!  (b) steady state: threads hammer shared values of mixed types;
//!  (c) call histories in one thread: every call equals the same call made in isolation; encoding twice gives the same bytes.

use crate::common::*;
use crate::rt::expected;
use monitors::json::J;
use refmodel::{canon, gen_val, ref_decode, ref_encode, Ty, Val};
use sbase::{dec_val, enc, Call, Sink, Subject};
use std::sync::atomic::{AtomicU64, Ordering};
use std::sync::{Arc, Barrier, Mutex};
use std::time::Instant;

const THREADS: usize = 16;

#[derive(Clone, Debug)]
struct Bad {
    what: String,
    subject: String,
    value: String,
}

/// one monitored encode + decode of `v`, judged against the reference; Err(description) on any deviation
fn one_call(s: &dyn Subject, ty: &Ty, v: &Val, exp: &Val, ref_bytes: Option<&Vec<u8>>) -> Result<(), String> {
    let x = s.make(v);
    let bytes = match enc(s, x.as_ref(), Sink::ToByteVec) {
        Call::Ok(b) => b,
        other => return Err(format!("encode: {}", other.class())),
    };
    match ref_bytes {
        Some(r) => {
            if &bytes != r {
                return Err(format!("bytes differ from the state-free reference: {} vs {}", short(&bytes), short(r)));
            }
        }
        None => {
            // unordered containers: judge what the bytes denote
            match ref_decode(ty, &bytes) {
                Ok((w, used)) if used == bytes.len() && canon(ty, &w).ok().as_ref() == Some(exp) => {}
                _ => return Err(format!("bytes do not denote the value: {}", short(&bytes))),
            }
        }
    }
    match dec_val(s, &bytes) {
        Call::Ok(g) if canon(ty, &g).ok().as_ref() == Some(exp) => Ok(()),
        other => Err(format!("decode: {}", other.class())),
    }
}

fn prepared(ctx: &Ctx, s: &dyn Subject, tag: u64, idx: u64) -> Option<(Val, Val, Option<Vec<u8>>)> {
    let ty = s.ty();
    let mut rng = ctx.rng_for(tag, s.id(), idx);
    let v = gen_val(&ty, &mut rng, &ctx.gen);
    let exp = expected(&ty, &v);
    let r = ref_encode(&ty, &v).ok()?;
    // hash containers (iteration order) and BigDecimal (spelling) make the exact bytes unpredictable: judged by denotation
    let unpredictable = ty.has_unordered() || ty.any(&mut |t| matches!(t, Ty::BigDecimal), &mut Vec::new());
    let ref_bytes = if unpredictable { None } else { Some(r) };
    Some((v, exp, ref_bytes))
}

/// Defaults of added fields belong to the call that needs them: an expression that reads process state gives the state
/// of *that* moment, one that creates an object gives a new object.  Nothing of an earlier decode — on this or another
/// thread — may show in a later one.
fn defaults_per_call(acc: &mut Acc) {
    use desert::BinaryCodec;
    use std::rc::Rc;
    use std::sync::atomic::AtomicU32;
    static PORT: AtomicU32 = AtomicU32::new(8080);
    fn current_port() -> u32 {
        PORT.load(Ordering::SeqCst)
    }
    #[derive(BinaryCodec)]
    #[evolution(FieldAdded("port", current_port()), FieldAdded("tag", Rc::new(7u8)))]
    struct Conf {
        name: u8,
        port: u32,
        tag: Rc<u8>,
    }
    let old_data = [0u8, 5]; // version 0: only `name`
    acc.case(Some(0xDEF0));
    let (r, _) = sbase::monitored(None, || {
        PORT.store(8080, Ordering::SeqCst);
        let a: Conf = desert::deserialize(&old_data).map_err(|e| sbase::classify(&e))?;
        PORT.store(80, Ordering::SeqCst);
        let b: Conf = desert::deserialize(&old_data).map_err(|e| sbase::classify(&e))?;
        // a thread that never decoded this type before, with yet another state
        PORT.store(443, Ordering::SeqCst);
        let c_port = std::thread::spawn(|| desert::deserialize::<Conf>(&[0u8, 5]).map(|c| c.port).map_err(|e| sbase::classify(&e))).join().unwrap()?;
        PORT.store(8443, Ordering::SeqCst);
        let d: Conf = desert::deserialize(&old_data).map_err(|e| sbase::classify(&e))?;
        Ok((a.name, a.port, b.port, c_port, d.port, Rc::ptr_eq(&a.tag, &b.tag) || Rc::ptr_eq(&b.tag, &d.tag), Rc::strong_count(&a.tag)))
    });
    match r {
        Call::Ok((5, 8080, 80, 443, 8443, false, 1)) => acc.count("defaults_evaluated_for_each_call"),
        other => acc.violation(
            "C18|defaults_per_call".to_string(),
            J::obj()
                .with("check", J::s("C18"))
                .with("mode", J::s("call"))
                .with("what", J::s("FieldAdded defaults that read process state / create an object, decoded four times (one of them on a fresh thread)"))
                .with("expected", J::s("name 5, ports 8080 80 443 8443, distinct objects, strong count 1"))
                .with("got", J::s(format!("{other:?}"))),
        ),
    }
}

/// Types of the same name declared in different scopes of one module (local to two functions, local to two blocks) are
/// different types with definitions of their own: each encodes by its own history, whichever was used first, and an
/// enum constructor and a struct of one name do not meet either.
fn same_named_local_types(acc: &mut Acc) {
    use desert::BinaryCodec;
    fn first(x: u8) -> Result<Vec<u8>, sbase::ErrClass> {
        #[derive(BinaryCodec)]
        struct Local {
            a: u8,
        }
        desert::serialize_to_byte_vec(&Local { a: x }).map_err(|e| sbase::classify(&e))
    }
    fn second(x: u8) -> Result<Vec<u8>, sbase::ErrClass> {
        #[derive(BinaryCodec)]
        #[evolution(FieldAdded("b", 0u8), FieldMadeOptional("a"))]
        struct Local {
            a: Option<u8>,
            b: u8,
        }
        desert::serialize_to_byte_vec(&Local { a: Some(x), b: 7 }).map_err(|e| sbase::classify(&e))
    }
    fn third(x: u8) -> Result<Vec<u8>, sbase::ErrClass> {
        #[derive(BinaryCodec)]
        enum Outer {
            #[evolution(FieldAdded("c", 1u8))]
            Local { a: u8, c: u8 },
        }
        let in_block = {
            #[derive(BinaryCodec)]
            #[evolution(FieldRemoved("gone"))]
            struct Local {
                a: u8,
            }
            desert::serialize_to_byte_vec(&Local { a: x }).map_err(|e| sbase::classify(&e))?
        };
        let mut out = desert::serialize_to_byte_vec(&Outer::Local { a: x, c: 9 }).map_err(|e| sbase::classify(&e))?;
        out.extend_from_slice(&in_block);
        Ok(out)
    }
    let want_first = vec![0u8, 5];
    let want_second = vec![2u8, 4, 2, 1, 0, 1, 5, 7]; // version 2; chunk 0 = Some(5) (2 bytes), chunk 1 = 7 (1 byte), a made optional at position 0
    let want_third = vec![0u8, 0, 1, 2, 2, 5, 9, 1, 2, 3, 8, b'g', b'o', b'n', b'e', 5]; // enum version, constructor 0, its record (version 1, two chunks of one byte); then the block's record (version 1, chunk of one byte, removed name)
    acc.case(Some(0x5A3E));
    let (r, _) = sbase::monitored(None, || {
        // every order of first use within the process: a, b, c then c, b, a
        let r1 = (first(5)?, second(5)?, third(5)?);
        let r2 = (third(5)?, second(5)?, first(5)?);
        Ok((r1, r2))
    });
    match r {
        Call::Ok(((a1, b1, c1), (c2, b2, a2))) if a1 == want_first && a2 == want_first && b1 == want_second && b2 == want_second && c1 == want_third && c2 == want_third => {
            acc.count("same_named_local_types_keep_their_own_definitions")
        }
        other => acc.violation(
            "C18|same_named_local_types".to_string(),
            J::obj()
                .with("check", J::s("C18"))
                .with("mode", J::s("call"))
                .with("what", J::s("four types called Local in different scopes of one module, each with a history of its own"))
                .with("expected", J::s(format!("{want_first:?} {want_second:?} {want_third:?}")))
                .with("got", J::s(format!("{other:?}"))),
        ),
    }
}

/// An encode and a decode issued while the thread is being torn down (from the destructor of a client thread-local that
/// was first touched before the thread's first use of the library): a call is a call, whenever it is made.
fn calls_during_thread_teardown(acc: &mut Acc) {
    use desert::BinaryCodec;
    use std::cell::RefCell;
    use std::sync::mpsc;
    #[derive(BinaryCodec, Debug, PartialEq, Clone)]
    #[evolution(FieldAdded("b", String::new()))]
    struct Rec {
        a: u32,
        b: String,
    }
    struct FlushOnExit(RefCell<Option<mpsc::Sender<Result<(Vec<u8>, bool), String>>>>);
    impl Drop for FlushOnExit {
        fn drop(&mut self) {
            if let Some(tx) = self.0.borrow_mut().take() {
                let v = Rec { a: 7, b: "late".into() };
                let r = std::panic::catch_unwind(|| {
                    let bytes = desert::serialize_to_byte_vec(&v).map_err(|e| e.to_string())?;
                    let back: Rec = desert::deserialize(&bytes).map_err(|e| e.to_string())?;
                    Ok::<_, String>((bytes, back == Rec { a: 7, b: "late".into() }))
                })
                .unwrap_or_else(|_| Err("panicked".to_string()));
                let _ = tx.send(r);
            }
        }
    }
    thread_local! {
        static FLUSH: FlushOnExit = const { FlushOnExit(RefCell::new(None)) };
    }
    acc.case(Some(0x7EAD));
    let (tx, rx) = mpsc::channel();
    let early = std::thread::spawn(move || {
        // touch the client's thread-local first, then use the library, then leave
        FLUSH.with(|f| *f.0.borrow_mut() = Some(tx));
        let v = Rec { a: 1, b: "early".into() };
        desert::serialize_to_byte_vec(&v).map_err(|e| e.to_string())
    })
    .join();
    let late = rx.recv_timeout(std::time::Duration::from_secs(30));
    let reference = desert::serialize_to_byte_vec(&Rec { a: 7, b: "late".into() }).ok();
    match (early, late) {
        (Ok(Ok(_)), Ok(Ok((bytes, true)))) if Some(&bytes) == reference.as_ref() => acc.count("calls_during_thread_teardown_ok"),
        other => acc.violation(
            "C18|thread_teardown".to_string(),
            J::obj().with("check", J::s("C18")).with("mode", J::s("call")).with("what", J::s("encode + decode of an evolved record from a thread-local destructor at thread exit")).with("got", J::s(format!("{other:?}").chars().take(300).collect::<String>())),
        ),
    }
}

pub fn c18(ctx: &mut Ctx, acc: &mut Acc) -> i32 {
    if ctx.shard == 0 {
        calls_during_thread_teardown(acc);
        defaults_per_call(acc);
        same_named_local_types(acc);
    }
    let mode = ctx.extra.get("mode").cloned().unwrap_or_else(|| "storm".to_string());
    // the types of this process: derived declarations (fresh lazy statics each) first, then the catalogue
    let ids: Vec<String> = ctx.my_subjects(|s| s.id() != "BadEvolution").iter().map(|s| s.id().to_string()).collect();
    let threads = if mode == "baseline" { 1 } else { THREADS };
    let clock = Instant::now();
    let bad: Mutex<Vec<Bad>> = Mutex::new(Vec::new());
    let overlapping_storms = AtomicU64::new(0);
    let mut storms = 0u64;
    let mut calls = 0u64;

    // ---- (a) first use
    for id in &ids {
        let s = ctx.reg.get(id).unwrap();
        let ty = s.ty();
        let cases: Vec<(Val, Val, Option<Vec<u8>>)> = (0..THREADS as u64).filter_map(|k| prepared(ctx, s, 0xC18, k)).collect();
        if cases.len() != THREADS {
            continue; // reference cannot encode (unencodable value): nothing to compare with
        }
        storms += 1;
        calls += THREADS as u64;
        if threads == 1 {
            // baseline: the same calls, one after another
            for (v, exp, rb) in &cases {
                if let Err(what) = one_call(s, &ty, v, exp, rb.as_ref()) {
                    bad.lock().unwrap().push(Bad { what, subject: s.id().to_string(), value: v.render(300) });
                }
            }
            continue;
        }
        let barrier = Barrier::new(threads);
        let stamps: Mutex<Vec<(u128, u128)>> = Mutex::new(Vec::new());
        std::thread::scope(|sc| {
            for k in 0..threads {
                let (v, exp, rb) = &cases[k];
                let (barrier, stamps, bad, ty, clock) = (&barrier, &stamps, &bad, &ty, &clock);
                sc.spawn(move || {
                    barrier.wait();
                    let t0 = clock.elapsed().as_nanos();
                    let r = one_call(s, ty, v, exp, rb.as_ref());
                    let t1 = clock.elapsed().as_nanos();
                    stamps.lock().unwrap().push((t0, t1));
                    if let Err(what) = r {
                        bad.lock().unwrap().push(Bad { what, subject: s.id().to_string(), value: v.render(300) });
                    }
                });
            }
        });
        // how many first calls were in flight at the same time?
        let st = stamps.into_inner().unwrap();
        let latest_start = st.iter().map(|x| x.0).max().unwrap_or(0);
        let in_flight = st.iter().filter(|x| x.1 > latest_start).count();
        if in_flight >= 2 {
            overlapping_storms.fetch_add(1, Ordering::Relaxed);
        }
        acc.max("max_first_calls_in_flight_together", in_flight as u64);
    }
    let built_after_storms = desert::verif::metadata_built_count();
    acc.max("storm_phase_ms", clock.elapsed().as_millis() as u64);

    // the same calls again, single-threaded: no metadata may be built any more, and every result is the same
    for id in &ids {
        let s = ctx.reg.get(id).unwrap();
        let ty = s.ty();
        if let Some((v, exp, rb)) = prepared(ctx, s, 0xC18, 0) {
            calls += 1;
            if let Err(what) = one_call(s, &ty, &v, &exp, rb.as_ref()) {
                bad.lock().unwrap().push(Bad { what: format!("second pass: {what}"), subject: id.clone(), value: v.render(300) });
            }
        }
    }
    let built_after_second_pass = desert::verif::metadata_built_count();
    if built_after_second_pass != built_after_storms {
        acc.violation(
            "C18|metadata_built_again".to_string(),
            J::obj().with("check", J::s("C18")).with("mode", J::s("init_counter")).with("after_storms", J::u(built_after_storms)).with("after_second_pass", J::u(built_after_second_pass)),
        );
    }
    acc.add("first_use_storms", storms);
    acc.add("storms_with_overlapping_first_calls", overlapping_storms.load(Ordering::Relaxed));
    // reported per shard so that the driver can compare the storm processes with the single-threaded baseline processes
    acc.add(&format!("metadata_built:{mode}:{}:shard{}", ctx.lane, ctx.shard), built_after_storms);

    if mode != "baseline" {
        // ---- (b) steady state: shared values, mixed types, all threads at once
        let per_thread = ctx.n(10_000, 200_000);
        let pool: Vec<(&dyn Subject, Ty, Val, Val, Option<Vec<u8>>)> = ids
            .iter()
            .take(400)
            .filter_map(|id| {
                let s = ctx.reg.get(id).unwrap();
                prepared(ctx, s, 0xC18 ^ 0xB, 0).map(|(v, e, r)| (s, s.ty(), v, e, r))
            })
            .collect();
        let pool = Arc::new(pool);
        if !pool.is_empty() {
            std::thread::scope(|sc| {
                for k in 0..THREADS {
                    let pool = pool.clone();
                    let bad = &bad;
                    let seed = ctx.seed;
                    sc.spawn(move || {
                        let mut rng = refmodel::Rng::derive(seed, &[0xC18B, k as u64]);
                        for _ in 0..per_thread {
                            let (s, ty, v, exp, rb) = &pool[rng.below(pool.len() as u64) as usize];
                            if let Err(what) = one_call(*s, ty, v, exp, rb.as_ref()) {
                                let mut b = bad.lock().unwrap();
                                if b.len() < 50 {
                                    b.push(Bad { what: format!("steady state: {what}"), subject: s.id().to_string(), value: v.render(300) });
                                }
                            }
                        }
                    });
                }
            });
            calls += per_thread * THREADS as u64;
            acc.add("steady_state_calls", per_thread * THREADS as u64);
        }

        acc.max("through_steady_state_ms", clock.elapsed().as_millis() as u64);
        // ---- (c) call histories in one thread
        let histories = ctx.n(1000, 20_000);
        let all: Vec<&dyn Subject> = ids.iter().map(|id| ctx.reg.get(id).unwrap()).collect();
        for h in 0..histories {
            if all.is_empty() {
                break;
            }
            let mut rng = ctx.rng_for(0xC18 ^ 0xC, "history", h * ctx.shards as u64 + ctx.shard as u64);
            let len = 2 + rng.below(49) as usize;
            for _ in 0..len {
                let s = *rng.pick(&all);
                let ty = s.ty();
                let idx = rng.below(1 << 20);
                match rng.below(6) {
                    5 => {
                        // an encode that fails late: the fields are already in their chunk buffers when the evolution header
                        // turns out to reference an unknown field — nothing of it may survive into later calls either
                        if let Some(b) = ctx.reg.get("BadEvolution") {
                            let v = gen_val(&b.ty(), &mut rng, &ctx.gen);
                            let x = b.make(&v);
                            match enc(b, x.as_ref(), Sink::ToByteVec) {
                                Call::Err(e) if e.variant == "UnknownFieldReferenceInEvolutionStep" => acc.count("late_failing_encodes_in_histories"),
                                other => bad.lock().unwrap().push(Bad { what: format!("call history: BadEvolution encode gave {}", other.class()), subject: "BadEvolution".into(), value: v.render(100) }),
                            }
                            calls += 1;
                        }
                    }
                    4 => {
                        // an encode that may fail half-way (astral character, transient constructor deep inside a value):
                        // nothing of it may survive into later calls
                        let hostile = refmodel::GenCtx { encodable: false, transient_ctors: true, tz_names: ctx.gen.tz_names.clone(), ..refmodel::GenCtx::default() };
                        let v = gen_val(&ty, &mut rng, &hostile);
                        let x = s.make(&v);
                        let got = enc(s, x.as_ref(), Sink::ToByteVec);
                        calls += 1;
                        let want_err = ref_encode(&ty, &v).is_err();
                        match (&got, want_err) {
                            (Call::Err(_), true) => acc.count("failing_encodes_in_histories"),
                            (Call::Ok(_), false) => {}
                            (other, _) => bad.lock().unwrap().push(Bad { what: format!("call history: hostile encode gave {} (reference expects {})", other.class(), if want_err { "an error" } else { "bytes" }), subject: s.id().to_string(), value: v.render(300) }),
                        }
                    }
                    0 => {
                        // a failing call in between: garbage input must not leave anything behind
                        let garbage_len = rng.below(12) as usize;
                        let garbage = rng.bytes(garbage_len);
                        let _ = sbase::dec_hostile(s, &garbage); // step budget armed: zero-width element types (known finding D09)
                    }
                    1 => {
                        // encode twice: same bytes (types without hash containers)
                        if let Some((v, _e, _r)) = prepared(ctx, s, 0xC18 ^ 0xD, idx) {
                            let x = s.make(&v);
                            let a = enc(s, x.as_ref(), Sink::ToByteVec);
                            let b = enc(s, x.as_ref(), Sink::ToBytes);
                            calls += 2;
                            if a != b {
                                bad.lock().unwrap().push(Bad { what: format!("encoding the same value twice gave {} then {}", a.class(), b.class()), subject: s.id().to_string(), value: v.render(300) });
                            } else {
                                acc.count("encode_twice_same_bytes");
                            }
                        }
                    }
                    _ => {
                        if let Some((v, exp, rb)) = prepared(ctx, s, 0xC18 ^ 0xD, idx) {
                            calls += 1;
                            if let Err(what) = one_call(s, &ty, &v, &exp, rb.as_ref()) {
                                bad.lock().unwrap().push(Bad { what: format!("call history: {what}"), subject: s.id().to_string(), value: v.render(300) });
                            }
                        }
                    }
                }
            }
            acc.count("call_histories");
        }
    }

    acc.evaluations += calls;
    acc.distinct_extra += storms; // distinct = first-use storms (one per type: each type's lazy statics are initialised once per process)
    let bad = bad.into_inner().unwrap();
    for b in bad.iter() {
        acc.violation(
            format!("C18|{}|{}", b.subject, b.what.split(':').next().unwrap_or("")),
            J::obj().with("check", J::s("C18")).with("mode", J::s("call")).with("subject", J::s(b.subject.clone())).with("value", J::s(b.value.clone())).with("what", J::s(b.what.clone())),
        );
    }
    if bad.is_empty() {
        acc.count("processes_without_deviation");
    }
    if acc.samples.len() < 2 {
        acc.sample(
            J::obj()
                .with("mode", J::s(mode))
                .with("types_in_this_process", J::u(ids.len() as u64))
                .with("threads", J::u(threads as u64))
                .with("storms", J::u(storms))
                .with("storms_with_overlapping_first_calls", J::u(overlapping_storms.load(Ordering::Relaxed)))
                .with("metadata_built", J::u(built_after_storms)),
        );
    }
    0
}

// -------------------------------------------------------------------------------------------------
// C18probe: a tiny first-use storm for the Miri lane (many schedule seeds, race detector): no registry, three
// derived types owned by this binary

mod probe_types {
    use desert::BinaryCodec;

    #[derive(Debug, PartialEq, Clone, BinaryCodec)]
    #[evolution(FieldAdded("b", "dflt".to_string()), FieldMadeOptional("a"))]
    pub struct P1 {
        pub a: Option<u32>,
        pub b: String,
    }

    #[derive(Debug, PartialEq, Clone, BinaryCodec)]
    pub enum P2 {
        A,
        B(u8, String),
        #[evolution(FieldAdded("y", 7u16))]
        C { x: u8, y: u16 },
    }

    #[derive(Debug, PartialEq, Clone, BinaryCodec)]
    pub struct P3 {
        pub p: P1,
        pub q: Vec<P2>,
        pub t: (u8, u16),
    }
}

pub fn probe() -> i32 {
    use probe_types::*;
    let p1 = P1 { a: Some(7), b: "x".into() };
    let p2 = P2::C { x: 1, y: 2 };
    let p3 = P3 { p: p1.clone(), q: vec![P2::A, P2::B(3, "z".into()), p2.clone()], t: (1, 2) };
    // expected bytes, from the format
    let e1: Vec<u8> = vec![2, 10, 4, 1, 0, 1, 0, 0, 0, 7, 2, b'x'];
    let e2: Vec<u8> = vec![0, 2, 1, 2, 4, 1, 0, 2];
    let n = 4;
    let barrier = Barrier::new(n);
    let failures = AtomicU64::new(0);
    std::thread::scope(|sc| {
        for k in 0..n {
            let (barrier, failures, p1, p2, p3, e1, e2) = (&barrier, &failures, &p1, &p2, &p3, &e1, &e2);
            sc.spawn(move || {
                barrier.wait();
                // different first calls on different threads
                let order = [(k) % 3, (k + 1) % 3, (k + 2) % 3];
                for o in order {
                    let ok = match o {
                        0 => {
                            let b = desert::serialize_to_byte_vec(p1).unwrap();
                            &b == e1 && desert::deserialize::<P1>(&b).unwrap() == *p1
                        }
                        1 => {
                            let b = desert::serialize_to_byte_vec(p2).unwrap();
                            &b == e2 && desert::deserialize::<P2>(&b).unwrap() == *p2
                        }
                        _ => {
                            let b = desert::serialize_to_byte_vec(p3).unwrap();
                            desert::deserialize::<P3>(&b).unwrap() == *p3
                        }
                    };
                    if !ok {
                        failures.fetch_add(1, Ordering::SeqCst);
                    }
                }
            });
        }
    });
    let built = desert::verif::metadata_built_count();
    // P1, P2 (+3 variants), P3, and the shared metadata of tuples: exactly 7 constructions, whatever the schedule
    let f = failures.load(Ordering::SeqCst);
    if f == 0 && built == 7 {
        println!("C18PROBE ok metadata_built={built}");
        0
    } else {
        println!("C18PROBE VIOLATION failures={f} metadata_built={built} (expected 7)");
        1
    }
}
