//! Shared worker infrastructure: arguments, sharding, accumulators, result files.

use monitors::json::J;
use monitors::Breadcrumb;
use refmodel::rng::fnv64;
use refmodel::{hex, GenCtx, Rng};
use sbase::{Registry, Subject};
use std::collections::{BTreeMap, HashSet};

#[derive(Clone, Copy, Debug, PartialEq, Eq)]
pub enum Tier {
    Quick,
    Thorough,
}

pub struct Ctx {
    pub check: String,
    pub tier: Tier,
    pub seed: u64,
    pub shard: usize,
    pub shards: usize,
    pub out: Option<String>,
    pub lane: String,
    /// multiplies per-subject case budgets (sanitizer / Miri lanes run a fraction)
    pub scale: f64,
    pub reg: Registry,
    pub crumb: Breadcrumb,
    pub gen: GenCtx,
    /// skip cases before this index within the shard (restart after a crash)
    pub resume_after: Option<u64>,
    pub extra: BTreeMap<String, String>,
}

impl Ctx {
    pub fn thorough(&self) -> bool {
        self.tier == Tier::Thorough
    }

    /// subjects of this shard (round-robin by registry index), filtered
    pub fn my_subjects<'a>(&'a self, filter: impl Fn(&dyn Subject) -> bool + 'a) -> Vec<&'a dyn Subject> {
        let only_fresh = self.extra.get("only").map(|v| v == "fresh").unwrap_or(false);
        self.reg
            .subjects
            .iter()
            .filter(move |s| !only_fresh || is_fresh_id(s.id()))
            .filter(|s| filter(s.as_ref()))
            .enumerate()
            .filter(|(i, _)| i % self.shards == self.shard)
            .map(|(_, s)| s.as_ref())
            .collect()
    }

    pub fn only_fresh(&self) -> bool {
        self.extra.get("only").map(|v| v == "fresh").unwrap_or(false)
    }

    pub fn has_tag(&self, id: &str, tag_prefix: &str) -> bool {
        self.reg.tags.get(id).map(|t| t.iter().any(|x| x.starts_with(tag_prefix))).unwrap_or(false)
    }

    pub fn is_catalogue(&self, id: &str) -> bool {
        self.has_tag(id, "cat:")
    }

    pub fn rng_for(&self, tag: u64, subject: &str, idx: u64) -> Rng {
        Rng::derive(self.seed, &[tag, fnv64(subject.as_bytes()), idx])
    }

    pub fn n(&self, quick: u64, thorough: u64) -> u64 {
        let base = if self.thorough() { thorough } else { quick };
        ((base as f64 * self.scale).ceil() as u64).max(1)
    }

    pub fn crumb(&mut self, subject: &str, what: &str, input: &[u8]) {
        let shown = if input.len() > 4096 { &input[..4096] } else { input };
        self.crumb.set(&format!(
            "{{\"check\":\"{}\",\"subject\":{},\"what\":\"{}\",\"len\":{},\"hex\":\"{}\"}}",
            self.check,
            J::s(subject).to_string(),
            what,
            input.len(),
            hex(shown)
        ));
    }
}

/// subjects generated from VERIF_SEED by the thorough tier (fresh corpus slice 900, fresh catalogue)
pub fn is_fresh_id(id: &str) -> bool {
    id.starts_with("fresh:") || id.starts_with("C900") || id.contains("C900")
}

#[derive(Clone, Debug)]
pub struct Violation {
    pub signature: String,
    pub detail: J,
}

pub struct Acc {
    pub evaluations: u64,
    pub distinct: HashSet<u64>,
    /// distinct cases counted without hashing (enumerations whose elements are distinct by construction)
    pub distinct_extra: u64,
    pub counters: BTreeMap<String, u64>,
    pub maxima: BTreeMap<String, u64>,
    pub violations: Vec<Violation>,
    pub violation_counts: BTreeMap<String, u64>,
    pub samples: Vec<J>,
    pub inconclusive: Vec<String>,
    pub sample_cap: usize,
}

impl Acc {
    pub fn new() -> Self {
        Acc {
            evaluations: 0,
            distinct: HashSet::new(),
            distinct_extra: 0,
            counters: BTreeMap::new(),
            maxima: BTreeMap::new(),
            violations: Vec::new(),
            violation_counts: BTreeMap::new(),
            samples: Vec::new(),
            inconclusive: Vec::new(),
            sample_cap: 6,
        }
    }

    /// one executed case; `nontrivial_sig` = Some(signature) if the case is non-trivial by the check's rule
    pub fn case(&mut self, nontrivial_sig: Option<u64>) {
        self.evaluations += 1;
        if let Some(s) = nontrivial_sig {
            self.distinct.insert(s);
        }
    }

    pub fn count(&mut self, key: &str) {
        *self.counters.entry(key.to_string()).or_insert(0) += 1;
    }

    pub fn counter(&self, key: &str) -> u64 {
        self.counters.get(key).copied().unwrap_or(0)
    }

    pub fn add(&mut self, key: &str, n: u64) {
        *self.counters.entry(key.to_string()).or_insert(0) += n;
    }

    pub fn max(&mut self, key: &str, v: u64) {
        let e = self.maxima.entry(key.to_string()).or_insert(0);
        if v > *e {
            *e = v;
        }
    }

    pub fn sample(&mut self, j: J) {
        if self.samples.len() < self.sample_cap {
            self.samples.push(j);
        }
    }

    pub fn violation(&mut self, signature: impl Into<String>, detail: J) {
        let signature = signature.into();
        let c = self.violation_counts.entry(signature.clone()).or_insert(0);
        *c += 1;
        if *c <= 2 && self.violations.len() < 400 {
            self.violations.push(Violation { signature, detail });
        }
    }

    pub fn inconclusive(&mut self, why: impl Into<String>) {
        let w = why.into();
        if !self.inconclusive.contains(&w) && self.inconclusive.len() < 50 {
            self.inconclusive.push(w);
        }
    }

    pub fn to_json(&self) -> J {
        let mut j = J::obj();
        j.set("evaluations", J::u(self.evaluations));
        j.set("distinct", J::u(self.distinct.len() as u64 + self.distinct_extra));
        j.set("counters", J::Obj(self.counters.iter().map(|(k, v)| (k.clone(), J::u(*v))).collect()));
        j.set("maxima", J::Obj(self.maxima.iter().map(|(k, v)| (k.clone(), J::u(*v))).collect()));
        j.set(
            "violations",
            J::Arr(
                self.violations
                    .iter()
                    .map(|v| J::obj().with("signature", J::s(v.signature.clone())).with("detail", v.detail.clone()))
                    .collect(),
            ),
        );
        j.set("violation_counts", J::Obj(self.violation_counts.iter().map(|(k, v)| (k.clone(), J::u(*v))).collect()));
        j.set("samples", J::Arr(self.samples.clone()));
        j.set("inconclusive", J::Arr(self.inconclusive.iter().map(|s| J::s(s.clone())).collect()));
        j
    }
}

pub fn sig(parts: &[&[u8]]) -> u64 {
    let mut h: u64 = 0xcbf2_9ce4_8422_2325;
    for p in parts {
        for b in *p {
            h ^= *b as u64;
            h = h.wrapping_mul(0x0000_0100_0000_01B3);
        }
        h ^= 0xff;
        h = h.wrapping_mul(0x0000_0100_0000_01B3);
    }
    h
}

/// a replay record for a decode-type case
pub fn replay_decode(check: &str, subject: &str, bytes: &[u8], note: &str) -> J {
    J::obj()
        .with("check", J::s(check))
        .with("mode", J::s("decode"))
        .with("subject", J::s(subject))
        .with("hex", J::s(hex(bytes)))
        .with("note", J::s(note))
}

/// a replay record for a value-type case: the value is regenerated from (seed, tag, subject, idx)
pub fn replay_value(check: &str, subject: &str, seed: u64, tag: u64, idx: u64, value: &refmodel::Val, note: &str) -> J {
    J::obj()
        .with("check", J::s(check))
        .with("mode", J::s("value"))
        .with("subject", J::s(subject))
        .with("seed", J::u(seed))
        .with("tag", J::u(tag))
        .with("idx", J::u(idx))
        .with("value", J::s(value.render(400)))
        .with("note", J::s(note))
}

pub fn short(b: &[u8]) -> String {
    if b.len() > 64 {
        format!("{}…({} bytes)", hex(&b[..64]), b.len())
    } else {
        hex(b)
    }
}
