//! C12 — the encoding of a sequence depends only on its elements: full source x target container matrix,
//! both size forms, maps against pair lists, and the byte-array family.

use crate::common::*;
use bytes::Bytes;
use desert::{serialize_iterator, BinaryDeserializer, BinarySerializer, SerializationContext};
use monitors::json::J;
use refmodel::{gen_val, hex, ref_encode_forms, Ty, Val};
use sbase::{classify, monitored, Call, ErrClass, Model};
use std::collections::{BTreeMap, BTreeSet, HashMap, HashSet, LinkedList};
use std::hash::Hash;

fn ser<T: BinarySerializer>(v: &T) -> Call<Vec<u8>> {
    monitored(None, || desert::serialize_to_byte_vec(v).map_err(|e| classify(&e))).0
}

/// decode through an explicit context with two sentinel bytes behind the data: a target container that leaves part of
/// the sequence unread (a terminator, an element) or reads past it is told from one that takes exactly the sequence
fn de<T: BinaryDeserializer + Model>(bytes: &[u8]) -> Call<Val> {
    let mut buf = Vec::with_capacity(bytes.len() + 2);
    buf.extend_from_slice(bytes);
    buf.extend_from_slice(&[0xA5, 0x5A]);
    monitored(None, || -> Result<Val, ErrClass> {
        let mut ctx = desert::DeserializationContext::new(&buf);
        let v = T::deserialize(&mut ctx).map_err(|e| classify(&e))?;
        let mut rest = 0usize;
        while desert::BinaryInput::read_u8(&mut ctx).is_ok() && rest <= buf.len() {
            rest += 1;
        }
        if rest != 2 {
            return Err(ErrClass { variant: "sequence_not_consumed_exactly", payload: format!("{rest} bytes left, 2 follow the sequence") });
        }
        Ok(v.to_val())
    })
    .0
}

fn sorted(v: &Val) -> Val {
    match v {
        Val::Seq(xs) => {
            let mut s = xs.clone();
            s.sort();
            s.dedup();
            Val::Seq(s)
        }
        other => other.clone(),
    }
}

const ARRAY_LENS: [usize; 12] = [0, 1, 2, 3, 4, 5, 6, 7, 8, 16, 17, 32];

macro_rules! with_array_len {
    ($n:expr, $body:ident, $($args:expr),*) => {
        match $n {
            0 => $body::<0, _>($($args),*),
            1 => $body::<1, _>($($args),*),
            2 => $body::<2, _>($($args),*),
            3 => $body::<3, _>($($args),*),
            4 => $body::<4, _>($($args),*),
            5 => $body::<5, _>($($args),*),
            6 => $body::<6, _>($($args),*),
            7 => $body::<7, _>($($args),*),
            8 => $body::<8, _>($($args),*),
            16 => $body::<16, _>($($args),*),
            17 => $body::<17, _>($($args),*),
            32 => $body::<32, _>($($args),*),
            _ => None,
        }
    };
}

fn array_source<const N: usize, E: Model + BinarySerializer + Clone>(xs: &[E]) -> Option<Call<Vec<u8>>> {
    let arr: [E; N] = xs.to_vec().try_into().ok()?;
    Some(ser(&arr))
}

struct Cell<'a> {
    acc: &'a mut Acc,
    elem: &'a str,
    source: &'a str,
}

impl<'a> Cell<'a> {
    fn judge(&mut self, target: &str, bytes: &[u8], got: Call<Val>, want: &Val, ordered: bool) {
        let ok = match &got {
            Call::Ok(g) => {
                if ordered {
                    g == want
                } else {
                    sorted(g) == sorted(want)
                }
            }
            _ => false,
        };
        self.acc.case(if self.source != target { Some(sig(&[self.elem.as_bytes(), self.source.as_bytes(), target.as_bytes(), bytes])) } else { None });
        if ok {
            self.acc.count("cells_ok");
            self.acc.count(&format!("pair:{}->{}", self.source, target));
            if self.acc.samples.len() < 5 && self.source != target && bytes.len() > 3 && bytes.len() < 40 && self.acc.evaluations % 97 == 0 {
                self.acc.sample(
                    J::obj().with("element", J::s(self.elem)).with("written_by", J::s(self.source)).with("read_as", J::s(target)).with("bytes", J::s(hex(bytes))).with("elements", J::s(want.render(120))),
                );
            }
        } else {
            self.acc.violation(
                format!("C12|{}|{}->{}|{}", self.elem, self.source, target, if got.is_ok() { "other_elements".to_string() } else { got.class() }),
                J::obj()
                    .with("check", J::s("C12"))
                    .with("mode", J::s("container_matrix"))
                    .with("element", J::s(self.elem))
                    .with("source", J::s(self.source))
                    .with("target", J::s(target))
                    .with("hex", J::s(hex(bytes)))
                    .with("expected", J::s(want.render(300)))
                    .with("got", J::s(match &got {
                        Call::Ok(v) => v.render(300),
                        o => o.class(),
                    })),
            );
        }
    }
}

pub fn c12(ctx: &mut Ctx, acc: &mut Acc) -> i32 {
    // element types are spread over the shards
    let mut k = 0usize;
    macro_rules! key_elem {
        ($t:ty) => {{
            if k % ctx.shards == ctx.shard {
                matrix_key::<$t>(ctx, acc, stringify!($t));
            }
            k += 1;
        }};
    }
    macro_rules! plain_elem {
        ($t:ty) => {{
            if k % ctx.shards == ctx.shard {
                matrix_plain::<$t>(ctx, acc, stringify!($t));
            }
            k += 1;
        }};
    }
    use sbase::t::*;
    key_elem!(u16);
    key_elem!(i32);
    key_elem!(u64);
    key_elem!(i128);
    key_elem!(bool);
    key_elem!(char);
    key_elem!(String);
    key_elem!(Uuid);
    key_elem!(NaiveDate);
    key_elem!(Duration);
    key_elem!(BigInt);
    key_elem!(DateTime<Utc>);
    key_elem!((u8, String));
    key_elem!(Option<i16>);
    key_elem!(Vec<u8>);
    key_elem!([u8; 2]);
    key_elem!(Box<String>);
    key_elem!(Vec<i8>);
    key_elem!(i8);
    key_elem!(());
    plain_elem!(f32);
    plain_elem!(f64);
    plain_elem!(DateTime<Tz>);
    plain_elem!(Result<u8, String>);
    // zero-sized in memory but not on the wire, and the other way round (size_of says nothing about the encoding)
    plain_elem!(((),));
    plain_elem!(((), ()));
    plain_elem!([(); 0]);
    plain_elem!([u64; 0]);
    plain_elem!((PhantomData<String>,));
    plain_elem!(Box<()>);
    plain_elem!(Rc<()>);
    plain_elem!(Arc<PhantomData<String>>);
    plain_elem!(PhantomData<String>);
    if k % ctx.shards == ctx.shard {
        maps::<String, u32>(ctx, acc, "String=>u32");
    }
    k += 1;
    if k % ctx.shards == ctx.shard {
        maps::<u8, Vec<u8>>(ctx, acc, "u8=>Vec<u8>");
    }
    k += 1;
    if k % ctx.shards == ctx.shard {
        maps::<(i16, bool), Option<String>>(ctx, acc, "(i16,bool)=>Option<String>");
    }
    k += 1;
    if k % ctx.shards == ctx.shard {
        byte_family(ctx, acc);
    }
    k += 1;
    // counts that need the fifth varint byte: 2^30 and 2^31 - 1 zero-width elements (release build of the thorough tier only:
    // a billion iterations)
    if ctx.thorough() && !cfg!(debug_assertions) && k % ctx.shards == ctx.shard {
        for n in [1usize << 30, i32::MAX as usize] {
            let v: Vec<()> = vec![(); n];
            let a = ser(&v);
            let b = ser(&&v[..]);
            let want = refmodel::enc::vi_bytes(n as i32);
            acc.case(Some(n as u64));
            let decoded = match &a {
                Call::Ok(bytes) => monitored(None, || desert::deserialize::<Vec<()>>(bytes).map(|x| x.len()).map_err(|e| classify(&e))).0,
                other => Call::Err(ErrClass { variant: "encode", payload: other.class() }),
            };
            let ok = matches!(&a, Call::Ok(x) if *x == want) && matches!(&b, Call::Ok(x) if *x == want) && matches!(&decoded, Call::Ok(len) if *len == n);
            if ok {
                acc.count("five_byte_count_sequences_ok");
            } else {
                acc.violation(
                    format!("C12|()|huge_count|{}", a.class()),
                    J::obj().with("check", J::s("C12")).with("mode", J::s("container_matrix")).with("elements", J::u(n as u64)).with("vec", J::s(a.class())).with("slice", J::s(b.class())).with("decoded", J::s(decoded.class())),
                );
            }
        }
    }
    0
}

fn lengths(ctx: &Ctx) -> Vec<usize> {
    let mut v: Vec<usize> = (0..=8).collect();
    v.extend([16, 17, 32, 40, 63, 64, 127, 128]);
    if ctx.thorough() {
        v.extend([8191, 8192]);
    }
    v
}

fn gen_items(ctx: &Ctx, ty: &Ty, n: usize, rng: &mut refmodel::Rng) -> Val {
    // small elements for the long lists
    let g = refmodel::GenCtx { allow_large: false, max_len: 3, tz_names: ctx.gen.tz_names.clone(), ..refmodel::GenCtx::default() };
    Val::Seq((0..n).map(|_| gen_val(ty, rng, &g)).collect())
}

fn unknown_form_bytes(ty: &Ty, items: &Val) -> Option<Vec<u8>> {
    // only the outermost sequence in the unknown-length form
    let mut first = true;
    let mut choose = || {
        let r = first;
        first = false;
        r
    };
    ref_encode_forms(&Ty::Seq(Box::new(ty.clone())), items, &mut choose).ok()
}

fn matrix_key<E>(ctx: &mut Ctx, acc: &mut Acc, name: &str)
where
    E: Model + BinarySerializer + BinaryDeserializer + Eq + Hash + Ord + Clone,
{
    let ty = E::ty();
    let rounds = ctx.n(40, 400);
    let mut plan: Vec<(usize, u64)> = lengths(ctx).into_iter().map(|l| (l, rounds)).collect();
    let slow_lane = matches!(ctx.lane.as_str(), "msan" | "asan" | "tsan" | "miri");
    if slow_lane {
        plan.retain(|(l, _)| *l <= 128);
    } else {
        // one list whose count needs three varint bytes for every element type
        plan.push((8192, 1));
    }
    if ty.may_encode_empty() && !slow_lane {
        // elements with an empty encoding cost nothing: counts that need three varint bytes, once each
        plan.extend([(65_535usize, 1u64), (65_536, 1), (65_537, 1), (70_000, 1)]);
    }
    for (len, rounds) in plan {
        for round in 0..rounds {
            let mut rng = ctx.rng_for(0xC12, name, (len as u64) << 20 | round);
            let items = gen_items(ctx, &ty, len, &mut rng);
            let xs: Vec<E> = <Vec<E>>::from_val(&items);
            let as_val = |v: &[E]| Val::Seq(v.iter().map(|x| x.to_val()).collect());
            let order = as_val(&xs);

            // sources
            let mut emit = |acc: &mut Acc, source: &str, bytes: Call<Vec<u8>>, order: &Val| match bytes {
                Call::Ok(b) => targets_key_dispatch::<E>(acc, name, source, &b, order),
                other => acc.count(&format!("unencodable:{}", other.class())),
            };
            emit(acc, "Vec", ser(&xs), &order);
            emit(acc, "slice", ser(&&xs[..]), &order);
            if ARRAY_LENS.contains(&len) {
                if let Some(c) = with_array_len!(len, array_source, &xs) {
                    emit(acc, "array", c, &order);
                }
            }
            let ll: LinkedList<E> = xs.iter().cloned().collect();
            emit(acc, "LinkedList", ser(&ll), &order);
            let hs: HashSet<E> = xs.iter().cloned().collect();
            let hs_order = Val::Seq(hs.iter().map(|x| x.to_val()).collect());
            emit(acc, "HashSet", ser(&hs), &hs_order);
            let bs: BTreeSet<E> = xs.iter().cloned().collect();
            let bs_order = Val::Seq(bs.iter().map(|x| x.to_val()).collect());
            emit(acc, "BTreeSet", ser(&bs), &bs_order);
            // a real writer of the unknown-length form: an iterator without an exact size hint
            let it = monitored(None, || {
                let mut sc = SerializationContext::new(Vec::new());
                let mut iter = xs.iter().filter(|_| true);
                serialize_iterator(&mut iter, &mut sc).map_err(|e| classify(&e))?;
                Ok(sc.into_output())
            })
            .0;
            emit(acc, "unsized_iterator", it, &order);
            // iterators whose size hint is only an upper bound (filter), a lower bound (chain with an unbounded tail cut
            // off by take_while) or exact but composed (chain of two slices): the elements written are the ones yielded
            {
                let kept: Vec<E> = xs.iter().enumerate().filter(|(i, _)| i % 2 == 0).map(|(_, x)| x.clone()).collect();
                let kept_order = Val::Seq(kept.iter().map(|x| x.to_val()).collect());
                let it = monitored(None, || {
                    let mut sc = SerializationContext::new(Vec::new());
                    let mut iter = xs.iter().enumerate().filter(|(i, _)| i % 2 == 0).map(|(_, x)| x);
                    serialize_iterator(&mut iter, &mut sc).map_err(|e| classify(&e))?;
                    Ok(sc.into_output())
                })
                .0;
                emit(acc, "filtering_iterator", it, &kept_order);
                let cut = xs.len() / 2;
                let it = monitored(None, || {
                    let mut sc = SerializationContext::new(Vec::new());
                    let mut n = 0usize;
                    let mut iter = xs.iter().take_while(|_| {
                        n += 1;
                        n <= cut
                    });
                    serialize_iterator(&mut iter, &mut sc).map_err(|e| classify(&e))?;
                    Ok(sc.into_output())
                })
                .0;
                let head_order = Val::Seq(xs[..cut].iter().map(|x| x.to_val()).collect());
                emit(acc, "take_while_iterator", it, &head_order);
                let it = monitored(None, || {
                    let mut sc = SerializationContext::new(Vec::new());
                    let mut iter = xs[..cut].iter().chain(xs[cut..].iter());
                    serialize_iterator(&mut iter, &mut sc).map_err(|e| classify(&e))?;
                    Ok(sc.into_output())
                })
                .0;
                emit(acc, "chained_iterator", it, &order);
            }
            // the reference encoder's unknown-length form (what the Scala implementation writes for lazy collections)
            if let Some(b) = unknown_form_bytes(&ty, &items) {
                emit(acc, "reference_unknown_length", Call::Ok(b), &order);
            }
        }
    }
    acc.count("element_types");
}

fn targets_key_dispatch<E>(acc: &mut Acc, elem: &str, source: &str, bytes: &[u8], order: &Val)
where
    E: Model + BinarySerializer + BinaryDeserializer + Eq + Hash + Ord + Clone,
{
    let n = match order {
        Val::Seq(xs) => xs.len(),
        _ => 0,
    };
    let mut cell = Cell { acc, elem, source };
    cell.judge("Vec", bytes, de::<Vec<E>>(bytes), order, true);
    cell.judge("LinkedList", bytes, de::<LinkedList<E>>(bytes), order, true);
    cell.judge("HashSet", bytes, de::<HashSet<E>>(bytes), order, false);
    cell.judge("BTreeSet", bytes, de::<BTreeSet<E>>(bytes), order, false);
    fn at<const N: usize, E: Model + BinaryDeserializer>(bytes: &[u8]) -> Option<Call<Val>> {
        Some(de::<[E; N]>(bytes))
    }
    let got: Option<Call<Val>> = match n {
        0 => at::<0, E>(bytes),
        1 => at::<1, E>(bytes),
        2 => at::<2, E>(bytes),
        3 => at::<3, E>(bytes),
        4 => at::<4, E>(bytes),
        5 => at::<5, E>(bytes),
        6 => at::<6, E>(bytes),
        7 => at::<7, E>(bytes),
        8 => at::<8, E>(bytes),
        16 => at::<16, E>(bytes),
        17 => at::<17, E>(bytes),
        32 => at::<32, E>(bytes),
        _ => None,
    };
    if let Some(g) = got {
        cell.judge("array", bytes, g, order, true);
    }
}

/// "Is `LinkedList<T>` a decode target, and if so what does it decode to" — answered by method resolution: the inherent
/// method exists only where the library implements the decoder for `LinkedList<T>`, the trait method is the fallback.
struct ListProbe<T>(std::marker::PhantomData<T>);
trait ListProbeFallback {
    fn decode_list(&self, _bytes: &[u8]) -> Option<Call<Val>> {
        None
    }
}
impl<T> ListProbeFallback for ListProbe<T> {}
impl<T> ListProbe<T>
where
    LinkedList<T>: BinaryDeserializer + Model,
{
    fn decode_list(&self, bytes: &[u8]) -> Option<Call<Val>> {
        Some(de::<LinkedList<T>>(bytes))
    }
}

fn matrix_plain<E>(ctx: &mut Ctx, acc: &mut Acc, name: &str)
where
    E: Model + BinarySerializer + BinaryDeserializer + Clone,
{
    let ty = E::ty();
    let rounds = ctx.n(40, 400);
    let mut missing_list_reported = false;
    for len in lengths(ctx) {
        for round in 0..rounds {
            let mut rng = ctx.rng_for(0xC12, name, (len as u64) << 20 | round);
            let items = gen_items(ctx, &ty, len, &mut rng);
            let xs: Vec<E> = <Vec<E>>::from_val(&items);
            let order = Val::Seq(xs.iter().map(|x| x.to_val()).collect());
            let mut sources: Vec<(&str, Call<Vec<u8>>)> = vec![("Vec", ser(&xs)), ("slice", ser(&&xs[..]))];
            if let Some(b) = unknown_form_bytes(&ty, &items) {
                sources.push(("reference_unknown_length", Call::Ok(b)));
            }
            let it = monitored(None, || {
                let mut sc = SerializationContext::new(Vec::new());
                let mut iter = xs.iter().filter(|_| true);
                serialize_iterator(&mut iter, &mut sc).map_err(|e| classify(&e))?;
                Ok(sc.into_output())
            })
            .0;
            sources.push(("unsized_iterator", it));
            for (source, bytes) in sources {
                let Call::Ok(b) = bytes else { continue };
                let mut cell = Cell { acc, elem: name, source };
                cell.judge("Vec", &b, de::<Vec<E>>(&b), &order, true);
                fn at<const N: usize, E: Model + BinaryDeserializer>(bytes: &[u8]) -> Call<Val> {
                    de::<[E; N]>(bytes)
                }
                let got = match len {
                    0 => Some(at::<0, E>(&b)),
                    1 => Some(at::<1, E>(&b)),
                    2 => Some(at::<2, E>(&b)),
                    3 => Some(at::<3, E>(&b)),
                    8 => Some(at::<8, E>(&b)),
                    17 => Some(at::<17, E>(&b)),
                    _ => None,
                };
                if let Some(g) = got {
                    cell.judge("array", &b, g, &order, true);
                }
                // the linked list is a member of the family for every element type, not only for hashable ones
                match ListProbe::<E>(std::marker::PhantomData).decode_list(&b) {
                    Some(g) => cell.judge("LinkedList", &b, g, &order, true),
                    None => {
                        if !missing_list_reported {
                            missing_list_reported = true;
                            cell.acc.violation(
                                format!("C12|{name}|LinkedList_is_no_decode_target"),
                                J::obj().with("check", J::s("C12")).with("mode", J::s("container_matrix")).with("element", J::s(name)).with("what", J::s("the library has no BinaryDeserializer for LinkedList of this element type")),
                            );
                        }
                    }
                }
            }
        }
    }
    acc.count("element_types");
}

fn maps<K, V>(ctx: &mut Ctx, acc: &mut Acc, name: &str)
where
    K: Model + BinarySerializer + BinaryDeserializer + Eq + Hash + Ord + Clone,
    V: Model + BinarySerializer + BinaryDeserializer + Clone,
{
    let pair_ty = Ty::Tuple(vec![K::ty(), V::ty()]);
    let rounds = ctx.n(100, 1500);
    for len in [0usize, 1, 2, 3, 5, 8, 17, 40, 64, 128] {
        for round in 0..rounds {
            let mut rng = ctx.rng_for(0xC12 ^ 0x3A9, name, (len as u64) << 20 | round);
            let items = gen_items(ctx, &pair_ty, len, &mut rng);
            // unique keys: the first pair of every key
            let pairs: Vec<(K, V)> = {
                let all: Vec<(K, V)> = <Vec<(K, V)>>::from_val(&items);
                let mut seen = HashSet::new();
                all.into_iter().filter(|(k, _)| seen.insert(k.clone())).collect()
            };
            let as_val = |it: &mut dyn Iterator<Item = (&K, &V)>| Val::Seq(it.map(|(k, v)| Val::Tuple(vec![k.to_val(), v.to_val()])).collect());
            let list_order = as_val(&mut pairs.iter().map(|(k, v)| (k, v)));
            let hm: HashMap<K, V> = pairs.iter().cloned().collect();
            let hm_order = as_val(&mut hm.iter());
            let bm: BTreeMap<K, V> = pairs.iter().cloned().collect();
            let bm_order = as_val(&mut bm.iter());
            let mut sources: Vec<(&str, Call<Vec<u8>>, Val)> =
                vec![("pair_list", ser(&pairs), list_order), ("HashMap", ser(&hm), hm_order), ("BTreeMap", ser(&bm), bm_order.clone())];
            if let Some(b) = unknown_form_bytes(&pair_ty, &bm_order) {
                sources.push(("reference_unknown_length", Call::Ok(b), bm_order));
            }
            for (source, bytes, order) in sources {
                let Call::Ok(b) = bytes else { continue };
                let mut cell = Cell { acc, elem: name, source };
                cell.judge("pair_list", &b, de::<Vec<(K, V)>>(&b), &order, true);
                cell.judge("HashMap", &b, de::<HashMap<K, V>>(&b), &order, false);
                cell.judge("BTreeMap", &b, de::<BTreeMap<K, V>>(&b), &order, false);
            }
        }
    }
    acc.count("map_types");
}

fn byte_family(ctx: &mut Ctx, acc: &mut Acc) {
    let rounds = ctx.n(300, 3000);
    let mut lens: Vec<usize> = vec![0, 1, 2, 3, 7, 16, 17, 32, 100, 127, 128, 200];
    if ctx.thorough() {
        lens.extend([16383, 16384, 70000]);
    }
    for len in lens {
        for round in 0..rounds {
            let mut rng = ctx.rng_for(0xC12 ^ 0xB7, "bytes", (len as u64) << 20 | round);
            let data = rng.bytes(len);
            let want = Val::Bytes(data.clone());
            let mut sources: Vec<(&str, Call<Vec<u8>>)> = vec![("Vec<u8>", ser(&data)), ("&[u8]", ser(&&data[..])), ("Bytes", ser(&Bytes::from(data.clone())))];
            fn src<const N: usize>(d: &[u8]) -> Call<Vec<u8>> {
                let a: [u8; N] = d.try_into().unwrap();
                ser(&a)
            }
            match len {
                0 => sources.push(("[u8;N]", src::<0>(&data))),
                1 => sources.push(("[u8;N]", src::<1>(&data))),
                2 => sources.push(("[u8;N]", src::<2>(&data))),
                3 => sources.push(("[u8;N]", src::<3>(&data))),
                7 => sources.push(("[u8;N]", src::<7>(&data))),
                16 => sources.push(("[u8;N]", src::<16>(&data))),
                17 => sources.push(("[u8;N]", src::<17>(&data))),
                32 => sources.push(("[u8;N]", src::<32>(&data))),
                200 => sources.push(("[u8;N]", src::<200>(&data))),
                _ => {}
            }
            for (source, bytes) in sources {
                let Call::Ok(b) = bytes else { continue };
                let mut cell = Cell { acc, elem: "u8", source };
                cell.judge("Vec<u8>", &b, de::<Vec<u8>>(&b), &want, true);
                cell.judge("Bytes", &b, de::<Bytes>(&b), &want, true);
                let got = match len {
                    0 => Some(de::<[u8; 0]>(&b)),
                    1 => Some(de::<[u8; 1]>(&b)),
                    2 => Some(de::<[u8; 2]>(&b)),
                    3 => Some(de::<[u8; 3]>(&b)),
                    7 => Some(de::<[u8; 7]>(&b)),
                    16 => Some(de::<[u8; 16]>(&b)),
                    17 => Some(de::<[u8; 17]>(&b)),
                    32 => Some(de::<[u8; 32]>(&b)),
                    200 => Some(de::<[u8; 200]>(&b)),
                    _ => None,
                };
                if let Some(g) = got {
                    cell.judge("[u8;N]", &b, g, &want, true);
                }
            }
        }
    }
    acc.count("byte_family");
}
