//! C11 (variable-length integers) and C15 (sink / source independence, exact size).

use crate::common::*;
use crate::rt::encode_case;
use bytes::BytesMut;
use desert::{BinaryInput, BinaryOutput, DeserializationContext, OwnedInput, SizeCalculator, SliceInput};
use monitors::json::J;
use refmodel::enc::{vi_bytes, vu_bytes, zigzag};
use refmodel::{gen_val, hex};
use sbase::{Call, Sink, ALL_SINKS};

fn min_len(z: u32) -> usize {
    let bits = 32 - z.leading_zeros() as usize;
    bits.div_ceil(7).clamp(1, 5)
}


// variable-length integers read while the context is inside a pushed input region (a chunk of an evolved record) and written
// while a chunk buffer is active: leaf codecs that call the varint primitives directly, as fields of a derived record
mod region_types {
    use desert::{BinaryCodec, BinaryDeserializer, BinaryInput, BinaryOutput, BinarySerializer, DeserializationContext, SerializationContext};

    #[derive(Debug, Clone, Copy, PartialEq)]
    pub struct VU(pub u32);
    #[derive(Debug, Clone, Copy, PartialEq)]
    pub struct VI(pub i32);

    impl BinarySerializer for VU {
        fn serialize<O: BinaryOutput>(&self, c: &mut SerializationContext<O>) -> desert::Result<()> {
            c.write_var_u32(self.0);
            Ok(())
        }
    }
    impl BinaryDeserializer for VU {
        fn deserialize(c: &mut DeserializationContext<'_>) -> desert::Result<Self> {
            Ok(VU(c.read_var_u32()?))
        }
    }
    impl BinarySerializer for VI {
        fn serialize<O: BinaryOutput>(&self, c: &mut SerializationContext<O>) -> desert::Result<()> {
            c.write_var_i32(self.0);
            Ok(())
        }
    }
    impl BinaryDeserializer for VI {
        fn deserialize(c: &mut DeserializationContext<'_>) -> desert::Result<Self> {
            Ok(VI(c.read_var_i32()?))
        }
    }

    #[derive(Debug, Clone, PartialEq, BinaryCodec)]
    #[evolution(FieldAdded("b", VU(0)), FieldAdded("c", VI(0)))]
    pub struct VarHolder {
        pub pad: u64,
        pub a: VU,
        pub b: VU,
        pub c: VI,
        pub d: VI,
    }

    /// a record with chunks inside a chunk of a record with chunks (regions two deep) …
    #[derive(Debug, Clone, PartialEq, BinaryCodec)]
    #[evolution(FieldAdded("inner", VarHolder { pad: 0, a: VU(0), b: VU(0), c: VI(0), d: VI(0) }))]
    pub struct VarOuter {
        pub pre: u16,
        pub inner: VarHolder,
        pub tail: VI,
    }

    /// … and that inside a chunk of a third one (three deep)
    #[derive(Debug, Clone, PartialEq, BinaryCodec)]
    #[evolution(FieldAdded("lead", VU(0)), FieldAdded("outer", VarOuter { pre: 0, inner: VarHolder { pad: 0, a: VU(0), b: VU(0), c: VI(0), d: VI(0) }, tail: VI(0) }))]
    pub struct VarOutermost {
        pub head: VU,
        pub lead: VU,
        pub outer: VarOuter,
        pub last: VI,
    }
}

/// the same value as chunk-0, chunk-1 and chunk-2 field of an evolved record: bytes must be the reference varints in their
/// chunks and decode back (DeserializationContext inside regions with non-zero start; SerializationContext with chunk buffers)
fn check_in_regions(x: u32) -> Option<String> {
    use region_types::*;
    let v = VarHolder { pad: 0x0102_0304_0506_0708, a: VU(x), b: VU(x), c: VI(x as i32), d: VI(x as i32) };
    let bytes = match desert::serialize_to_byte_vec(&v) {
        Ok(b) => b,
        Err(e) => return Some(format!("encode failed: {e}")),
    };
    let u = vu_bytes(x);
    let i = vi_bytes(x as i32);
    let c0: Vec<u8> = [&0x0102_0304_0506_0708u64.to_be_bytes()[..], &u[..], &i[..]].concat();
    let expected: Vec<u8> = [&[2u8][..], &vi_bytes(c0.len() as i32)[..], &vi_bytes(u.len() as i32)[..], &vi_bytes(i.len() as i32)[..], &c0[..], &u[..], &i[..]].concat();
    if bytes != expected {
        return Some(format!("record bytes {} expected {}", hex(&bytes), hex(&expected)));
    }
    match desert::deserialize::<VarHolder>(&bytes) {
        Ok(back) if back == v => None,
        Ok(back) => Some(format!("read back {back:?}")),
        Err(e) => Some(format!("decode failed: {e}")),
    }
}

/// the same with the record nested in a chunk of another evolved record, and that one in a chunk of a third: input
/// regions (and chunk buffers) two and three deep, every one with a start of its own
fn check_in_nested_regions(x: u32) -> Option<String> {
    use region_types::*;
    let holder = VarHolder { pad: 0x0102_0304_0506_0708, a: VU(x), b: VU(x), c: VI(x as i32), d: VI(x as i32) };
    let u = vu_bytes(x);
    let i = vi_bytes(x as i32);
    let framed = |chunks: &[Vec<u8>]| -> Vec<u8> {
        let mut out = vec![(chunks.len() - 1) as u8];
        for c in chunks {
            out.extend_from_slice(&vi_bytes(c.len() as i32));
        }
        for c in chunks {
            out.extend_from_slice(c);
        }
        out
    };
    let holder_bytes = framed(&[[&0x0102_0304_0506_0708u64.to_be_bytes()[..], &u[..], &i[..]].concat(), u.clone(), i.clone()]);
    let outer = VarOuter { pre: 0xBEEF, inner: holder.clone(), tail: VI(x as i32) };
    let outer_bytes = framed(&[[&0xBEEFu16.to_be_bytes()[..], &i[..]].concat(), holder_bytes.clone()]);
    let outermost = VarOutermost { head: VU(x), lead: VU(x), outer: outer.clone(), last: VI(x as i32) };
    let outermost_bytes = framed(&[[&u[..], &i[..]].concat(), u.clone(), outer_bytes.clone()]);
    fn one<T: desert::BinarySerializer + desert::BinaryDeserializer + PartialEq + std::fmt::Debug>(what: &str, v: &T, expected: &[u8]) -> Option<String> {
        let bytes = match desert::serialize_to_byte_vec(v) {
            Ok(b) => b,
            Err(e) => return Some(format!("{what}: encode failed: {e}")),
        };
        if bytes != expected {
            return Some(format!("{what}: record bytes {} expected {}", hex(&bytes), hex(expected)));
        }
        match desert::deserialize::<T>(&bytes) {
            Ok(back) if back == *v => None,
            Ok(back) => Some(format!("{what}: read back {back:?}")),
            Err(e) => Some(format!("{what}: decode failed: {e}")),
        }
    }
    one("two regions deep", &outer, &outer_bytes).or_else(|| one("three regions deep", &outermost, &outermost_bytes))
}

struct VarScratch {
    vec: Vec<u8>,
    bm: BytesMut,
}

/// returns None if everything holds, Some(what) otherwise
fn check_u32(x: u32, sc: &mut VarScratch) -> Option<String> {
    let reference = vu_bytes(x);
    sc.vec.clear();
    sc.vec.write_var_u32(x);
    if sc.vec != reference {
        return Some(format!("Vec<u8> wrote {} expected {}", hex(&sc.vec), hex(&reference)));
    }
    sc.bm.clear();
    sc.bm.write_var_u32(x);
    if sc.bm[..] != reference[..] {
        return Some(format!("BytesMut wrote {} expected {}", hex(&sc.bm), hex(&reference)));
    }
    let mut size = SizeCalculator::new();
    size.write_var_u32(x);
    if size.size() != reference.len() {
        return Some(format!("SizeCalculator says {} expected {}", size.size(), reference.len()));
    }
    if reference.len() != min_len(x) {
        return Some(format!("length {} is not minimal ({})", reference.len(), min_len(x)));
    }
    for (i, b) in sc.vec.iter().enumerate() {
        let last = i + 1 == sc.vec.len();
        if (b & 0x80 != 0) == last {
            return Some(format!("continuation bit wrong at byte {i} of {}", hex(&sc.vec)));
        }
    }
    let a = SliceInput::new(&sc.vec).read_var_u32();
    let b = OwnedInput::new(sc.vec.clone()).read_var_u32();
    let c = DeserializationContext::new(&sc.vec).read_var_u32();
    match (a, b, c) {
        (Ok(a), Ok(b), Ok(c)) if a == x && b == x && c == x => None,
        (a, b, c) => Some(format!("read back {:?} {:?} {:?}", a.ok(), b.ok(), c.ok())),
    }
}

fn check_i32(x: i32, sc: &mut VarScratch) -> Option<String> {
    let reference = vi_bytes(x);
    sc.vec.clear();
    sc.vec.write_var_i32(x);
    if sc.vec != reference {
        return Some(format!("Vec<u8> wrote {} expected {}", hex(&sc.vec), hex(&reference)));
    }
    sc.bm.clear();
    sc.bm.write_var_i32(x);
    if sc.bm[..] != reference[..] {
        return Some(format!("BytesMut wrote {} expected {}", hex(&sc.bm), hex(&reference)));
    }
    let mut size = SizeCalculator::new();
    size.write_var_i32(x);
    if size.size() != reference.len() {
        return Some(format!("SizeCalculator says {} expected {}", size.size(), reference.len()));
    }
    if reference.len() != min_len(zigzag(x)) {
        return Some(format!("length {} is not minimal ({})", reference.len(), min_len(zigzag(x))));
    }
    for (i, b) in sc.vec.iter().enumerate() {
        let last = i + 1 == sc.vec.len();
        if (b & 0x80 != 0) == last {
            return Some(format!("continuation bit wrong at byte {i} of {}", hex(&sc.vec)));
        }
    }
    let a = SliceInput::new(&sc.vec).read_var_i32();
    let b = OwnedInput::new(sc.vec.clone()).read_var_i32();
    let c = DeserializationContext::new(&sc.vec).read_var_i32();
    match (a, b, c) {
        (Ok(a), Ok(b), Ok(c)) if a == x && b == x && c == x => None,
        (a, b, c) => Some(format!("read back {:?} {:?} {:?}", a.ok(), b.ok(), c.ok())),
    }
}

/// Many values written one after another into one buffer that grows: every amount of spare capacity (0, 1 … bytes left
/// before a reallocation) meets every encoding width.  Checked against the concatenated reference and read back in order.
fn growing_buffers(ctx: &mut Ctx, acc: &mut Acc) {
    let widths: [u32; 10] = [0, 1, 127, 128, 16_383, 16_384, (1 << 21) - 1, 1 << 21, (1 << 28) - 1, 1 << 28];
    for cap in 0..=17usize {
        if cap % ctx.shards != ctx.shard {
            continue;
        }
        let mut rng = ctx.rng_for(0xC11 ^ 0x6B0, "growing", cap as u64);
        let values: Vec<(bool, u32)> = (0..4000)
            .map(|i| {
                let signed = rng.chance(1, 3);
                let v = match rng.below(4) {
                    0 => rng.next_u32() | 0xF000_0000, // five bytes
                    1 => *rng.pick(&widths) + rng.below(2) as u32,
                    2 if i % 2 == 0 => u32::MAX - rng.below(1000) as u32,
                    _ => rng.next_u32() >> rng.below(32),
                };
                (signed, v)
            })
            .collect();
        let mut reference = Vec::new();
        for (signed, v) in &values {
            reference.extend_from_slice(&if *signed { vi_bytes(*v as i32) } else { vu_bytes(*v) });
        }
        let r = monitors::guarded(
            || {
                let mut bm = BytesMut::with_capacity(cap);
                let mut vec: Vec<u8> = Vec::with_capacity(cap);
                let mut size = SizeCalculator::new();
                for (signed, v) in &values {
                    if *signed {
                        bm.write_var_i32(*v as i32);
                        vec.write_var_i32(*v as i32);
                        size.write_var_i32(*v as i32);
                    } else {
                        bm.write_var_u32(*v);
                        vec.write_var_u32(*v);
                        size.write_var_u32(*v);
                    }
                }
                (bm.to_vec(), vec, size.size())
            },
            |_| None,
        );
        acc.case(Some(0x6B0 << 32 | cap as u64));
        let fail = |acc: &mut Acc, what: String| {
            acc.violation(
                format!("C11|growing_buffer|{}", what.split(' ').next().unwrap_or("")),
                J::obj().with("check", J::s("C11")).with("mode", J::s("varint")).with("initial_capacity", J::u(cap as u64)).with("values", J::u(values.len() as u64)).with("what", J::s(what)),
            )
        };
        match r {
            monitors::Outcome::Done((bm, vec, size)) => {
                if bm != reference {
                    let at = bm.iter().zip(&reference).position(|(a, b)| a != b).unwrap_or(bm.len().min(reference.len()));
                    fail(acc, format!("BytesMut differs from the reference at byte {at} ({} vs {} bytes)", bm.len(), reference.len()));
                } else if vec != reference {
                    fail(acc, "Vec differs from the reference".to_string());
                } else if size != reference.len() {
                    fail(acc, format!("SizeCalculator counted {size}, {} written", reference.len()));
                } else {
                    // read everything back, in order, through the three inputs
                    let mut a = SliceInput::new(&vec);
                    let mut b = OwnedInput::new(vec.clone());
                    let mut c = DeserializationContext::new(&vec);
                    let mut bad = None;
                    for (i, (signed, v)) in values.iter().enumerate() {
                        let got = if *signed {
                            (a.read_var_i32().map(|x| x as u32).ok(), b.read_var_i32().map(|x| x as u32).ok(), c.read_var_i32().map(|x| x as u32).ok())
                        } else {
                            (a.read_var_u32().ok(), b.read_var_u32().ok(), c.read_var_u32().ok())
                        };
                        if got != (Some(*v), Some(*v), Some(*v)) {
                            bad = Some(format!("read_back value {i}: {got:?} expected {v}"));
                            break;
                        }
                    }
                    match bad {
                        Some(w) => fail(acc, w),
                        None => acc.count("growing_buffers_ok"),
                    }
                }
            }
            monitors::Outcome::Panicked(p) => fail(acc, format!("panic at {}: {}", monitors::normalise_site(&p.site), p.msg)),
            monitors::Outcome::StepBudget(_) => {}
        }
    }
}

pub fn c11(ctx: &mut Ctx, acc: &mut Acc) -> i32 {
    growing_buffers(ctx, acc);
    let mut sc = VarScratch { vec: Vec::with_capacity(8), bm: BytesMut::with_capacity(8) };
    let exhaustive = ctx.extra.get("exhaustive").map(|v| v == "1").unwrap_or(false);
    let mut n: u64 = 0;
    let mut visit = |acc: &mut Acc, x: u32, sc: &mut VarScratch| {
        let r = monitors::guarded(
            || {
                let a = check_u32(x, sc);
                let b = check_i32(x as i32, sc);
                (a, b)
            },
            |_| None,
        );
        if !exhaustive {
            // (the exhaustive tier samples this sub-check below: a derived record per value would dominate its run time)
            if let monitors::Outcome::Done(Some(w)) = monitors::guarded(|| check_in_regions(x).or_else(|| check_in_nested_regions(x)), |_| None) {
                acc.violation(format!("C11|in_region|{}", w.split(' ').next().unwrap_or("")), J::obj().with("check", J::s("C11")).with("mode", J::s("varint_in_region")).with("value", J::u(x)).with("what", J::s(w)));
            }
        }
        match r {
            monitors::Outcome::Done((None, None)) => {}
            monitors::Outcome::Done((a, b)) => {
                if let Some(w) = a {
                    acc.violation(format!("C11|u32|{}", w.split(' ').next().unwrap_or("")), J::obj().with("check", J::s("C11")).with("mode", J::s("varint")).with("kind", J::s("u32")).with("value", J::u(x)).with("what", J::s(w)));
                }
                if let Some(w) = b {
                    acc.violation(format!("C11|i32|{}", w.split(' ').next().unwrap_or("")), J::obj().with("check", J::s("C11")).with("mode", J::s("varint")).with("kind", J::s("i32")).with("value", J::Int(x as i32 as i64)).with("what", J::s(w)));
                }
            }
            monitors::Outcome::Panicked(p) => acc.violation(
                format!("C11|panic:{}", monitors::normalise_site(&p.site)),
                J::obj().with("check", J::s("C11")).with("mode", J::s("varint")).with("value", J::u(x)).with("what", J::s(p.msg)),
            ),
            monitors::Outcome::StepBudget(_) => {}
        }
    };
    if exhaustive {
        // this shard's slice of the whole 32-bit space (each bit pattern is checked as u32 and as i32)
        let per = (1u64 << 32) / ctx.shards as u64;
        let lo = per * ctx.shard as u64;
        let hi = if ctx.shard + 1 == ctx.shards { 1u64 << 32 } else { lo + per };
        for x in lo..hi {
            visit(acc, x as u32, &mut sc);
        }
        n = hi - lo;
        acc.add("exhaustive_bit_patterns", n);
        // inside regions: every 64th bit pattern of the slice plus its top end
        let mut k = 0u64;
        for x in (lo..hi).step_by(64).chain(hi.saturating_sub(4096)..hi) {
            if let monitors::Outcome::Done(Some(w)) = monitors::guarded(|| check_in_regions(x as u32).or_else(|| check_in_nested_regions(x as u32)), |_| None) {
                acc.violation(format!("C11|in_region|{}", w.split(' ').next().unwrap_or("")), J::obj().with("check", J::s("C11")).with("mode", J::s("varint_in_region")).with("value", J::u(x)).with("what", J::s(w)));
            }
            k += 1;
        }
        acc.add("values_checked_inside_regions", k);
        acc.evaluations += 2 * n;
        acc.distinct_extra += 2 * n; // disjoint ranges: every (kind, bit pattern) is a distinct case
    } else {
        // every value within ±4096 of each width boundary (as u32 and, through zig-zag, as i32), of 0, i32::MIN/MAX, u32::MAX
        let mut centres: Vec<u64> = vec![0, 1 << 7, 1 << 14, 1 << 21, 1 << 28, 1 << 31, (1u64 << 32) - 1, i32::MAX as u64];
        for k in [6u32, 13, 20, 27] {
            centres.push(1 << k); // zig-zag boundaries of positive i32
            centres.push((1u64 << 32) - (1 << k)); // … and of negative i32 (two's complement)
        }
        for (ci, c) in centres.iter().enumerate() {
            if ci % ctx.shards != ctx.shard {
                continue;
            }
            let lo = c.saturating_sub(4096);
            let hi = (c + 4096).min((1u64 << 32) - 1);
            for x in lo..=hi {
                visit(acc, x as u32, &mut sc);
                acc.case(Some(x));
                acc.case(Some(x | 1 << 40));
                n += 1;
            }
        }
        acc.add("boundary_bit_patterns", n);
        // stride sample over the whole space
        let points = ctx.n(1 << 20, 1 << 24);
        let mut rng = ctx.rng_for(0xC11, "stride", ctx.shard as u64);
        let per_shard = points / ctx.shards as u64;
        for _ in 0..per_shard {
            let x = rng.next_u32();
            visit(acc, x, &mut sc);
            acc.case(Some(x as u64));
            acc.case(Some(x as u64 | 1 << 40));
            n += 1;
        }
        acc.add("sampled_bit_patterns", per_shard);
    }
    acc.add("values_checked", 2 * n);
    if !exhaustive {
        acc.add("values_checked_inside_regions", n);
    }
    if ctx.shard == 0 {
        for x in [0u32, 127, 128, 16383, 16384, u32::MAX] {
            acc.sample(J::obj().with("u32", J::u(x)).with("bytes", J::s(hex(&vu_bytes(x)))));
        }
        for x in [-1i32, 63, -64, 64, i32::MIN, i32::MAX] {
            acc.sample(J::obj().with("i32", J::Int(x as i64)).with("bytes", J::s(hex(&vi_bytes(x)))));
        }
    }
    0
}

/// Every entry point runs the value's serializer exactly once: a codec may drain a one-shot source (a channel, an
/// iterator) or count its calls, and then a second pass — say, a sizing pass in front of the real one — changes the
/// bytes.  The monitor is a call counter inside a client codec, reset before each entry point.
fn exactly_one_pass(acc: &mut Acc) {
    use desert::{BinaryOutput, BinarySerializer, SerializationContext, SizeCalculator};
    use std::cell::{Cell, RefCell};
    struct Counted {
        calls: Cell<u32>,
        source: RefCell<Vec<u32>>,
    }
    impl BinarySerializer for Counted {
        fn serialize<O: BinaryOutput>(&self, c: &mut SerializationContext<O>) -> desert::Result<()> {
            self.calls.set(self.calls.get() + 1);
            c.write_u8(self.calls.get() as u8);
            // a one-shot source: whatever is written is gone afterwards
            let mut drained = self.source.borrow_mut().drain(..).collect::<Vec<u32>>().into_iter();
            desert::serialize_iterator(&mut drained, c)
        }
    }
    let fresh = || Counted { calls: Cell::new(0), source: RefCell::new(vec![7, 8, 9]) };
    let want: Vec<u8> = vec![1, 6, 0, 0, 0, 7, 0, 0, 0, 8, 0, 0, 0, 9];
    let mut outputs: Vec<(&str, Call<(u32, Vec<u8>)>)> = Vec::new();
    let mut run = |name: &'static str, f: &dyn Fn(&Counted) -> desert::Result<Vec<u8>>| {
        let (r, _) = sbase::monitored(None, || {
            let v = fresh();
            let bytes = f(&v).map_err(|e| sbase::classify(&e))?;
            Ok((v.calls.get(), bytes))
        });
        outputs.push((name, r));
    };
    run("serialize_to_byte_vec", &|v| desert::serialize_to_byte_vec(v));
    run("serialize_to_bytes", &|v| desert::serialize_to_bytes(v).map(|b| b.to_vec()));
    run("serialize(Vec)", &|v| desert::serialize(v, Vec::new()));
    run("serialize(BytesMut)", &|v| desert::serialize(v, bytes::BytesMut::new()).map(|b| b.to_vec()));
    run("serialize(SizeCalculator)", &|v| desert::serialize(v, SizeCalculator::new()).map(|s| vec![0u8; s.size()]));
    for (name, r) in outputs {
        acc.case(Some(refmodel::rng::fnv64_str(name)));
        let ok = match &r {
            Call::Ok((1, bytes)) => {
                if name.contains("SizeCalculator") {
                    bytes.len() == want.len()
                } else {
                    *bytes == want
                }
            }
            _ => false,
        };
        if ok {
            acc.count("entry_points_with_exactly_one_pass");
        } else {
            acc.violation(
                format!("C15|passes|{name}"),
                J::obj().with("check", J::s("C15")).with("mode", J::s("content")).with("what", J::s("a codec that counts its calls and drains a one-shot source")).with("entry_point", J::s(name)).with(
                    "got",
                    J::s(match &r {
                        Call::Ok((n, b)) => format!("{n} pass(es), bytes {}", short(b)),
                        o => o.class(),
                    }),
                ).with("expected", J::s(format!("1 pass, bytes {}", short(&want)))),
            );
        }
    }
}

/// Totals beyond 2^32 bytes with every single length far below the format's limits: a codec that writes one static
/// 1 MiB block n times, through a size-calculating context and through a user-defined output that only counts
/// (nothing is stored, so this costs milliseconds).
fn total_size_beyond_4_gib(acc: &mut Acc) {
    use desert::{BinaryOutput, BinarySerializer, SerializationContext, SizeCalculator};
    static BLOCK: [u8; 1 << 20] = [0x5a; 1 << 20];
    struct Repeat(u64);
    impl BinarySerializer for Repeat {
        fn serialize<O: BinaryOutput>(&self, c: &mut SerializationContext<O>) -> desert::Result<()> {
            for _ in 0..self.0 {
                c.write_bytes(&BLOCK);
            }
            c.write_u8(7);
            Ok(())
        }
    }
    #[derive(Default)]
    struct Counting(u64);
    impl BinaryOutput for Counting {
        fn write_u8(&mut self, _v: u8) {
            self.0 += 1;
        }
        fn write_bytes(&mut self, b: &[u8]) {
            self.0 += b.len() as u64;
        }
    }
    for blocks in [2047u64, 2048, 4095, 4096, 4097, 8192, 12_289] {
        let want = blocks * (1 << 20) + 1;
        acc.case(Some(want));
        let (r, _) = sbase::monitored(None, || {
            let mut a = SerializationContext::new(SizeCalculator::new());
            Repeat(blocks).serialize(&mut a).map_err(|e| sbase::classify(&e))?;
            let mut b = SerializationContext::new(Counting::default());
            Repeat(blocks).serialize(&mut b).map_err(|e| sbase::classify(&e))?;
            Ok((a.into_output().size() as u64, b.into_output().0))
        });
        match r {
            Call::Ok((calc, counted)) if calc == want && counted == want => acc.count("totals_beyond_2_pow_32_exact"),
            other => acc.violation(
                format!("C15|size_calculator|total_of_{blocks}_MiB"),
                J::obj()
                    .with("check", J::s("C15"))
                    .with("mode", J::s("content"))
                    .with("what", J::s("SizeCalculator / counting output over a stream of n x 1 MiB + 1 bytes"))
                    .with("expected", J::u(want))
                    .with("got", J::s(match &other {
                        Call::Ok((a, b)) => format!("size calculator {a}, counting output {b}"),
                        o => o.class(),
                    })),
            ),
        }
    }
}

/// One primitive write, applied to any `BinaryOutput`.
#[derive(Clone, Debug)]
enum WOp {
    U8(u8),
    Bytes(Vec<u8>),
    U16(u16),
    I32(i32),
    U64(u64),
    I128(i128),
    F64(u64),
    VarU(u32),
    VarI(i32),
    Compressed(Vec<u8>, u32),
}

fn apply_wop<O: BinaryOutput>(o: &mut O, op: &WOp) -> desert::Result<()> {
    match op {
        WOp::U8(x) => o.write_u8(*x),
        WOp::Bytes(b) => o.write_bytes(b),
        WOp::U16(x) => o.write_u16(*x),
        WOp::I32(x) => o.write_i32(*x),
        WOp::U64(x) => o.write_u64(*x),
        WOp::I128(x) => o.write_i128(*x),
        WOp::F64(x) => o.write_f64(f64::from_bits(*x)),
        WOp::VarU(x) => o.write_var_u32(*x),
        WOp::VarI(x) => o.write_var_i32(*x),
        WOp::Compressed(b, level) => return o.write_compressed(b, flate2::Compression::new(*level)),
    }
    Ok(())
}

fn gen_wop(rng: &mut refmodel::Rng) -> WOp {
    // variable-length integers on, next to and between the powers of two, both signs
    let pow = |rng: &mut refmodel::Rng| -> i64 {
        let k = rng.below(33);
        let p = 1i64 << k;
        match rng.below(4) {
            0 => p,
            1 => p - 1,
            2 => p + 1,
            _ => rng.range(0, p.max(1)),
        }
    };
    match rng.below(14) {
        0 => WOp::U8(rng.below(256) as u8),
        1 => {
            let n = *rng.pick(&[0usize, 1, 2, 7, 127, 128, 129, 300]);
            WOp::Bytes(rng.bytes(n))
        }
        2 => WOp::U16(rng.next_u64() as u16),
        3 => WOp::I32(rng.next_u64() as i32),
        4 => WOp::U64(rng.next_u64()),
        5 => WOp::I128(((rng.next_u64() as u128) << 64 | rng.next_u64() as u128) as i128),
        6 => WOp::F64(rng.next_u64()),
        7..=9 => WOp::VarU(pow(rng).min(u32::MAX as i64) as u32),
        10..=12 => {
            let m = pow(rng).min(i32::MAX as i64 + 1);
            let v = if rng.chance(1, 2) { -m } else { m.min(i32::MAX as i64) };
            WOp::VarI(v.max(i32::MIN as i64) as i32)
        }
        _ => {
            let n = *rng.pick(&[0usize, 1, 64, 500]);
            let b = if rng.chance(1, 2) { vec![7u8; n] } else { rng.bytes(n) };
            WOp::Compressed(b, rng.below(10) as u32)
        }
    }
}

/// The write-side counterpart of the read sequences: one sequence of primitive writes goes to every sink — Vec<u8>,
/// BytesMut, a recording user output, each of them also behind a SerializationContext, a context with a chunk buffer
/// pushed — and to SizeCalculator directly and behind a context: identical bytes everywhere, and the exact count.
fn write_op_sequences(ctx: &mut Ctx, acc: &mut Acc, rounds: u64) {
    use desert::SerializationContext;
    use sbase::Recording;
    for round in 0..rounds {
        if round % ctx.shards as u64 != ctx.shard as u64 {
            continue;
        }
        let mut rng = ctx.rng_for(0xC15 ^ 0x0F, "write_ops", round);
        let n = 1 + rng.below(24) as usize;
        let ops: Vec<WOp> = (0..n).map(|_| gen_wop(&mut rng)).collect();
        let out = sbase::monitored(None, || -> Result<Vec<(&'static str, Vec<u8>, usize)>, sbase::ErrClass> {
            let mut res: Vec<(&'static str, Vec<u8>, usize)> = Vec::new();
            macro_rules! run {
                ($name:expr, $mk:expr, $bytes:expr) => {{
                    let mut o = $mk;
                    for op in &ops {
                        apply_wop(&mut o, op).map_err(|e| sbase::classify(&e))?;
                    }
                    let b: Vec<u8> = $bytes(o);
                    res.push(($name, b, 0));
                }};
            }
            run!("Vec<u8>", Vec::<u8>::new(), |o: Vec<u8>| o);
            run!("BytesMut", BytesMut::new(), |o: BytesMut| o.to_vec());
            run!("user output", Recording::default(), |o: Recording| o.bytes);
            run!("context over Vec<u8>", SerializationContext::new(Vec::<u8>::new()), |o: SerializationContext<Vec<u8>>| o.into_output());
            run!("context over BytesMut", SerializationContext::new(BytesMut::new()), |o: SerializationContext<BytesMut>| o.into_output().to_vec());
            run!("context over a user output", SerializationContext::new(Recording::default()), |o: SerializationContext<Recording>| o.into_output().bytes);
            {
                // writes made while a chunk buffer is pushed land in the buffer
                let mut o = SerializationContext::new(Vec::<u8>::new());
                o.push_buffer(Vec::new());
                for op in &ops {
                    apply_wop(&mut o, op).map_err(|e| sbase::classify(&e))?;
                }
                let buf = o.pop_buffer();
                let rest = o.into_output();
                if !rest.is_empty() {
                    res.push(("sink under a pushed chunk buffer (must stay empty)", rest, 0));
                }
                res.push(("chunk buffer of a context", buf, 0));
            }
            let mut direct = SizeCalculator::new();
            for op in &ops {
                apply_wop(&mut direct, op).map_err(|e| sbase::classify(&e))?;
            }
            res.push(("SizeCalculator", Vec::new(), direct.size()));
            let mut behind = SerializationContext::new(SizeCalculator::new());
            for op in &ops {
                apply_wop(&mut behind, op).map_err(|e| sbase::classify(&e))?;
            }
            res.push(("context over SizeCalculator", Vec::new(), behind.into_output().size()));
            Ok(res)
        })
        .0;
        acc.case(Some(sig(&[format!("{ops:?}").as_bytes()])));
        let detail = |what: String| J::obj().with("check", J::s("C15")).with("mode", J::s("write_ops")).with("round", J::u(round)).with("ops", J::s(format!("{ops:?}").chars().take(600).collect::<String>())).with("what", J::s(what));
        match out {
            Call::Ok(res) => {
                let reference = res[0].1.clone();
                let mut ok = true;
                for (name, bytes, size) in &res {
                    if name.contains("SizeCalculator") {
                        if *size != reference.len() {
                            ok = false;
                            acc.violation(format!("C15|write_ops|size|{name}"), detail(format!("{name} counted {size} bytes, Vec<u8> received {}", reference.len())));
                        }
                    } else if name.contains("must stay empty") || *bytes != reference {
                        ok = false;
                        acc.violation(format!("C15|write_ops|bytes|{name}"), detail(format!("{name} holds {} — Vec<u8> holds {}", short(bytes), short(&reference))));
                    }
                }
                if ok {
                    acc.count("write_sequences_agree_on_every_sink");
                }
            }
            other => acc.violation(format!("C15|write_ops|{}", other.class()), detail(format!("the sequence did not complete: {}", other.class()))),
        }
    }
}

pub fn c15(ctx: &mut Ctx, acc: &mut Acc) -> i32 {
    if ctx.extra.get("only").is_none() {
        crate::rt::big_values(ctx, acc, "C15");
    }
    let n_cat = ctx.n(500, 5000);
    let n_der = ctx.n(100, 600);
    let ids: Vec<String> = ctx.my_subjects(|_| true).iter().map(|s| s.id().to_string()).collect();
    for id in &ids {
        let s = ctx.reg.get(id).unwrap();
        let ty = s.ty();
        let n = if ctx.is_catalogue(id) { n_cat } else { n_der };
        for idx in 0..n {
            let mut rng = ctx.rng_for(0xC15, id, idx);
            let v = gen_val(&ty, &mut rng, &ctx.gen);
            let Some((x, bytes)) = encode_case(acc, s, &v) else {
                acc.case(None);
                continue;
            };
            acc.case(Some(sig(&[id.as_bytes(), &bytes])));
            let mut ok = true;
            for sink in ALL_SINKS {
                match sbase::enc(s, x.as_ref(), sink) {
                    Call::Ok(b) if b == bytes => {}
                    other => {
                        ok = false;
                        let got = match &other {
                            Call::Ok(b) => short(b),
                            o => o.class(),
                        };
                        acc.violation(
                            format!("C15|sink_differs|{sink:?}|{id}"),
                            replay_value("C15", id, ctx.seed, 0xC15, idx, &v, "bytes differ between sinks").with("reference_sink", J::s(short(&bytes))).with("this_sink", J::s(got)),
                        );
                    }
                }
            }
            let (size, _) = sbase::monitored(None, || s.size(x.as_ref()));
            match size {
                Call::Ok(n) if n == bytes.len() => {}
                other => {
                    ok = false;
                    acc.violation(
                        format!("C15|size_calculator|{id}"),
                        replay_value("C15", id, ctx.seed, 0xC15, idx, &v, "SizeCalculator disagrees with the byte count")
                            .with("bytes", J::u(bytes.len() as u64))
                            .with("size_calculator", J::s(format!("{:?}", other.ok()))),
                    );
                }
            }
            if ok {
                acc.count("all_sinks_agree_and_size_exact");
            }
            if idx == 0 && acc.samples.len() < 4 {
                acc.sample(J::obj().with("type", J::s(id.clone())).with("bytes_from_5_sinks", J::s(short(&bytes))).with("size_calculator", J::u(bytes.len() as u64)));
            }
        }
        acc.count("types");
    }
    if ctx.shard == 0 && !ctx.only_fresh() {
        total_size_beyond_4_gib(acc);
        exactly_one_pass(acc);
    }
    // the three inputs, result by result — ordinary and hostile read sequences
    let rounds = ctx.n(200_000, 2_000_000);
    crate::inputs::op_sequences(ctx, acc, "C15", false, rounds);
    crate::inputs::op_sequences(ctx, acc, "C15", true, rounds);
    write_op_sequences(ctx, acc, rounds / 2);
    0
}
