//! C17 — encoding never panics: unsupported values are reported through the error type, and only through the
//! documented variants.

use crate::common::*;
use chrono::{DateTime, FixedOffset, NaiveDate, NaiveDateTime, NaiveTime, TimeZone, Utc};
use desert::{serialize_iterator, BinarySerializer, SerializationContext};
use monitors::json::J;
use refmodel::{gen_val, EncErr, GenCtx};
use sbase::{classify, monitored, Call, ErrClass, Sink};

const DOCUMENTED: [&str; 5] = ["UnsupportedCharacter", "SerializingTransientConstructor", "LengthTooLarge", "UnknownFieldReferenceInEvolutionStep", "CompressionFailure"];

fn ser<T: BinarySerializer>(v: &T) -> Call<Vec<u8>> {
    monitored(None, || desert::serialize_to_byte_vec(v).map_err(|e| classify(&e))).0
}

fn judge(acc: &mut Acc, what: &str, got: &Call<Vec<u8>>, want_err: Option<&str>, detail: J) {
    acc.case(Some(sig(&[what.as_bytes(), detail.to_string().as_bytes()])));
    match (got, want_err) {
        (Call::Ok(_), None) => acc.count(&format!("ok:{what}")),
        (Call::Err(e), Some(w)) if e.variant == w => acc.count(&format!("documented_error:{w}")),
        (Call::Err(e), None) if DOCUMENTED.contains(&e.variant) => acc.count(&format!("documented_error:{}", e.variant)),
        (other, _) => {
            let class = match other {
                Call::Ok(_) => "encoded_ok_where_an_error_is_documented".to_string(),
                Call::Err(e) => format!("undocumented_or_wrong_error:{}", e.variant),
                o => o.class(),
            };
            acc.violation(format!("C17|{what}|{class}"), detail.with("check", J::s("C17")).with("mode", J::s("encode")).with("what", J::s(what)).with("expected", J::s(want_err.unwrap_or("Ok or a documented error"))));
        }
    }
}

mod unknown_refs {
    use desert::BinaryCodec;

    #[derive(BinaryCodec)]
    #[evolution(FieldAdded("gone", 0u8), FieldMadeOptional("gone"))]
    pub struct AddedThenGone {
        pub a: u32,
    }

    #[derive(BinaryCodec)]
    #[evolution(FieldAdded("t", 0u8), FieldMadeOptional("t"))]
    pub struct TransientWithoutStep {
        pub a: u32,
        #[transient(0u8)]
        pub t: u8,
    }

    #[derive(BinaryCodec)]
    pub enum InVariant {
        #[evolution(FieldAdded("field1", 0u8), FieldMadeOptional("field1"))]
        V(u32),
    }

    #[derive(BinaryCodec)]
    #[evolution(FieldAdded("count", Some(0u8)), FieldMadeOptional("cuont"))]
    pub struct Misspelt {
        pub a: u32,
        pub count: Option<u8>,
    }
}

mod big_types {
    use desert::BinaryCodec;

    /// an evolved record whose added field can hold more than 2^31 bytes although each byte vector in it is smaller
    #[derive(BinaryCodec)]
    #[evolution(FieldAdded("b", Vec::new()))]
    pub struct BigChunk {
        pub a: u8,
        pub b: Vec<Vec<u8>>,
    }
}

struct Exact {
    n: usize,
}
impl Iterator for Exact {
    type Item = ();
    fn next(&mut self) -> Option<()> {
        if self.n == 0 {
            None
        } else {
            self.n -= 1;
            Some(())
        }
    }
    fn size_hint(&self) -> (usize, Option<usize>) {
        (self.n, Some(self.n))
    }
}

pub fn c17(ctx: &mut Ctx, acc: &mut Acc) -> i32 {
    // (a) every Unicode scalar value
    let lo = 0x110000u32 / ctx.shards as u32 * ctx.shard as u32;
    let hi = if ctx.shard + 1 == ctx.shards { 0x110000 } else { 0x110000u32 / ctx.shards as u32 * (ctx.shard as u32 + 1) };
    let mut chars = 0u64;
    for c in lo..hi {
        let Some(ch) = char::from_u32(c) else { continue };
        chars += 1;
        let got = ser(&ch);
        let ok = if c <= 0xFFFF {
            matches!(&got, Call::Ok(b) if b[..] == (c as u16).to_be_bytes()[..])
        } else {
            matches!(&got, Call::Err(e) if e.variant == "UnsupportedCharacter" && e.payload == c.to_string())
        };
        if !ok {
            acc.violation(
                format!("C17|char|{}", if got.is_ok() { "wrong_bytes".to_string() } else { got.class() }),
                J::obj().with("check", J::s("C17")).with("mode", J::s("encode")).with("what", J::s("char")).with("scalar", J::u(c)),
            );
        }
    }
    acc.evaluations += chars;
    acc.distinct_extra += chars;
    acc.add("unicode_scalars_checked", chars);
    if let Some(c) = char::from_u32(lo.max(0x41)) {
        acc.sample(J::obj().with("char", J::u(c as u32)).with("outcome", J::s(ser(&c).class())));
    }

    if ctx.shard == 0 {
        // (b) lengths that do not fit the format's 31-bit counts (zero-sized elements: no memory needed)
        for n in [i32::MAX as usize + 1, u32::MAX as usize, u32::MAX as usize + 1, usize::MAX] {
            let v: Vec<()> = vec![(); n];
            let got = ser(&v);
            acc.sample(J::obj().with("value", J::s(format!("Vec<()> of length {n}"))).with("outcome", J::s(got.class())));
            judge(acc, "Vec<()>_too_long", &got, Some("LengthTooLarge"), J::obj().with("len", J::u(n as u64)));
            judge(acc, "slice_of_()_too_long", &ser(&&v[..]), Some("LengthTooLarge"), J::obj().with("len", J::u(n as u64)));
            let it = monitored(None, || {
                let mut sc = SerializationContext::new(Vec::new());
                serialize_iterator(&mut Exact { n }, &mut sc).map_err(|e| classify(&e))?;
                Ok(sc.into_output())
            })
            .0;
            judge(acc, "exact_size_iterator_too_long", &it, Some("LengthTooLarge"), J::obj().with("len", J::u(n as u64)));
        }
        // byte containers: the length is a count like any other in the format (a JVM array length), so 2^31 bytes and more
        // must be refused — through the size calculator, over zero pages that are never written, this costs nothing
        for n in [1usize << 31, (1usize << 31) + 1, u32::MAX as usize] {
            let Some(big) = sbase::zeroed(n) else {
                acc.count("skipped_for_lack_of_address_space");
                continue;
            };
            let via_size_calculator = |what: &str, f: &dyn Fn(&mut SerializationContext<desert::SizeCalculator>) -> desert::Result<()>| {
                let (r, _) = monitored(None, || {
                    let mut sc = SerializationContext::new(desert::SizeCalculator::new());
                    f(&mut sc).map_err(|e| classify(&e))?;
                    Ok(vec![0u8; 0])
                });
                (what.to_string(), r)
            };
            use desert::BinarySerializer;
            let cases = [
                via_size_calculator("Vec<u8>", &|sc| big.serialize(sc)),
                via_size_calculator("slice_of_u8", &|sc| (&big[..]).serialize(sc)),
            ];
            for (what, got) in cases {
                judge(acc, &format!("{what}_of_2^31_bytes_or_more"), &got, Some("LengthTooLarge"), J::obj().with("len", J::u(n as u64)));
            }
        }
        if ctx.thorough() {
            if let Some(big) = sbase::zeroed((1usize << 32) + 1) {
                // untouched zero pages
                judge(acc, "Vec<u8>_over_4GiB", &ser(&big), Some("LengthTooLarge"), J::obj().with("len", J::u(big.len() as u64)));
            } else {
                acc.count("skipped_for_lack_of_address_space");
            }
            let s = String::from_utf8(vec![b'a'; (1usize << 31) + 1]).unwrap();
            judge(acc, "String_over_2GiB", &ser(&s), Some("LengthTooLarge"), J::obj().with("len", J::u(s.len() as u64)));
            drop(s);
            // a chunk of an evolved record that exceeds the format's 31-bit chunk size while every length inside it fits
            if !cfg!(debug_assertions) {
                let part = 800usize << 20;
                let big = big_types::BigChunk { a: 1, b: vec![vec![0u8; part], vec![0u8; part], vec![0u8; part]] };
                judge(acc, "chunk_over_2GiB", &ser(&big), Some("LengthTooLarge"), J::obj().with("chunk_bytes", J::u(3 * part as u64)));
            }
        }
        // (c0) arrays whose length lives in the type: [(); N] for N beyond the 31-bit count costs nothing to build
        {
            let (a, b, c): ([(); 1usize << 31], [(); u32::MAX as usize], [(); (1usize << 32) + 3]) = ([(); 1usize << 31], [(); u32::MAX as usize], [(); (1usize << 32) + 3]);
            judge(acc, "array_of_2^31_units", &ser(&a), Some("LengthTooLarge"), J::obj());
            judge(acc, "array_of_2^32-1_units", &ser(&b), Some("LengthTooLarge"), J::obj());
            judge(acc, "array_of_2^32+3_units", &ser(&c), Some("LengthTooLarge"), J::obj());
            let d: [std::marker::PhantomData<String>; (1usize << 31) + 7] = [std::marker::PhantomData; (1usize << 31) + 7];
            judge(acc, "array_of_2^31+7_phantoms", &ser(&d), Some("LengthTooLarge"), J::obj());
        }
        // (c1) steps that name fields which are not written, in the shapes a refactoring of a declaration leaves behind
        {
            use unknown_refs::*;
            let cases: Vec<(&str, Call<Vec<u8>>)> = vec![
                ("made_optional_names_an_added_field_that_is_gone", ser(&AddedThenGone { a: 7 })),
                ("made_optional_names_a_transient_field_without_step", ser(&TransientWithoutStep { a: 7, t: 3 })),
                ("made_optional_names_a_positional_field_that_is_gone", ser(&InVariant::V(7))),
                ("made_optional_names_a_misspelt_field", ser(&Misspelt { a: 7, count: Some(1) })),
            ];
            for (what, got) in cases {
                judge(acc, what, &got, Some("UnknownFieldReferenceInEvolutionStep"), J::obj());
            }
        }
        // (c) evolution metadata that references an unknown field
        if let Some(s) = ctx.reg.get("BadEvolution") {
            let x = s.make(&refmodel::Val::Rec(vec![refmodel::Val::U(5)]));
            for sink in sbase::ALL_SINKS {
                let got = sbase::enc(s, x.as_ref(), sink);
                judge(acc, "unknown_field_reference", &got, Some("UnknownFieldReferenceInEvolutionStep"), J::obj().with("sink", J::s(format!("{sink:?}"))));
            }
        } else {
            acc.inconclusive("subject BadEvolution missing");
        }
        // (d) value-domain extremes of the time types
        extremes(acc);
    }

    // (e) every subject, values including what the format cannot encode (astral characters): Ok or a documented error
    let gen = GenCtx { encodable: false, tz_names: ctx.gen.tz_names.clone(), ..GenCtx::default() };
    let n_cat = ctx.n(400, 4000);
    let n_der = ctx.n(80, 500);
    let ids: Vec<String> = ctx.my_subjects(|_| true).iter().map(|s| s.id().to_string()).collect();
    for id in &ids {
        if id == "BadEvolution" {
            continue;
        }
        let s = ctx.reg.get(id).unwrap();
        let ty = s.ty();
        let n = if ctx.is_catalogue(id) { n_cat } else { n_der };
        for idx in 0..n {
            let mut rng = ctx.rng_for(0xC17, id, idx);
            let v = gen_val(&ty, &mut rng, &gen);
            // under a lane with TZ set, some wall-clock times cannot be built in the zone at all: no value, nothing to encode
            if ctx.extra.contains_key("tz") && !matches!(monitors::guarded(|| drop(s.make(&v)), |_| None), monitors::Outcome::Done(())) {
                acc.count("local_times_the_zone_cannot_represent_not_counted");
                continue;
            }
            let x = s.make(&v);
            let got = sbase::enc(s, x.as_ref(), if idx % 2 == 0 { Sink::ToByteVec } else { Sink::ToBytes });
            // the reference encoder knows which documented error, if any, the value calls for
            let want = match refmodel::ref_encode(&ty, &v) {
                Ok(_) => None,
                Err(EncErr::UnsupportedCharacter(_)) => Some("UnsupportedCharacter"),
                Err(EncErr::LengthTooLarge) => Some("LengthTooLarge"),
                Err(EncErr::TransientConstructor { .. }) => Some("SerializingTransientConstructor"),
                Err(EncErr::UnknownFieldReference(_)) => Some("UnknownFieldReferenceInEvolutionStep"),
                Err(EncErr::Shape(w)) => {
                    acc.inconclusive(format!("reference encoder: {w}"));
                    continue;
                }
            };
            acc.case(Some(sig(&[id.as_bytes(), v.render(400).as_bytes()])));
            match (&got, want) {
                (Call::Ok(_), None) => acc.count("encoded"),
                (Call::Err(e), Some(w)) if e.variant == w => acc.count(&format!("documented_error:{w}")),
                (other, _) => {
                    let class = match other {
                        Call::Ok(_) => "encoded_ok_where_an_error_is_documented".to_string(),
                        Call::Err(e) => format!("undocumented_or_wrong_error:{}", e.variant),
                        o => o.class(),
                    };
                    acc.violation(
                        format!("C17|{id}|{class}"),
                        replay_value("C17", id, ctx.seed, 0xC17, idx, &v, "encoding a generated value (astral characters allowed)").with("expected", J::s(want.unwrap_or("Ok"))),
                    );
                }
            }
        }
        acc.count("types");
    }
    let _: Option<ErrClass> = None;
    0
}

fn extremes(acc: &mut Acc) {
    let max_utc: DateTime<Utc> = DateTime::<Utc>::MAX_UTC;
    let min_utc: DateTime<Utc> = DateTime::<Utc>::MIN_UTC;
    judge(acc, "DateTime<Utc>::MAX", &ser(&max_utc), None, J::obj());
    judge(acc, "DateTime<Utc>::MIN", &ser(&min_utc), None, J::obj());
    judge(acc, "NaiveDate::MAX", &ser(&NaiveDate::MAX), None, J::obj());
    judge(acc, "NaiveDate::MIN", &ser(&NaiveDate::MIN), None, J::obj());
    judge(acc, "NaiveDateTime::MAX", &ser(&NaiveDateTime::MAX), None, J::obj());
    judge(acc, "NaiveDateTime::MIN", &ser(&NaiveDateTime::MIN), None, J::obj());
    judge(acc, "NaiveTime_leap_second", &ser(&NaiveTime::from_hms_nano_opt(23, 59, 59, 1_999_999_999).unwrap()), None, J::obj());
    judge(acc, "Duration::MAX", &ser(&std::time::Duration::MAX), None, J::obj());
    // fixed offsets whose local wall clock is not representable: UTC + offset leaves the range of the date type
    for (name, utc, secs) in [
        ("max_utc_east_86399", max_utc, 86_399),
        ("max_utc_east_1", max_utc, 1),
        ("min_utc_west_86399", min_utc, -86_399),
        ("min_utc_west_1", min_utc, -1),
        ("max_utc_west_86399", max_utc, -86_399),
        ("min_utc_east_86399", min_utc, 86_399),
    ] {
        let off = FixedOffset::east_opt(secs).unwrap();
        let dt: DateTime<FixedOffset> = off.from_utc_datetime(&utc.naive_utc());
        judge(acc, &format!("DateTime<FixedOffset>:{name}"), &ser(&dt), None, J::obj().with("utc", J::s(format!("{:?}", utc.timestamp()))).with("offset", J::Int(secs as i64)));
    }
    // the same through the process time zone (lanes with TZ set east / west of UTC; nothing to see under TZ=UTC)
    for (n, utc) in [("max_utc", max_utc), ("min_utc", min_utc)] {
        let dt: DateTime<chrono::Local> = chrono::Local.from_utc_datetime(&utc.naive_utc());
        let off = chrono::Offset::fix(dt.offset()).local_minus_utc();
        let side = if off > 0 { "east" } else if off < 0 { "west" } else { "offset" };
        judge(acc, &format!("DateTime<Local>:{n}_{side}_{}", off.abs()), &ser(&dt), None, J::obj().with("local_minus_utc", J::Int(off as i64)));
    }
    for tz in [chrono_tz::Pacific::Kiritimati, chrono_tz::Etc::GMTPlus12, chrono_tz::UTC] {
        for (n, utc) in [("max", max_utc), ("min", min_utc)] {
            let dt = tz.from_utc_datetime(&utc.naive_utc());
            judge(acc, &format!("DateTime<Tz>:{n}:{}", tz.name()), &ser(&dt), None, J::obj());
        }
    }
    // big numbers
    use bigdecimal::BigDecimal;
    for scale in [0i64, 1, -1, 400, -400, 100_000, -100_000] {
        let d = BigDecimal::new(12345.into(), scale);
        judge(acc, "BigDecimal_scale", &ser(&d), None, J::obj().with("scale", J::Int(scale)));
    }
}
