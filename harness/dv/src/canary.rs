//! Positive controls for the sanitizer lanes: each commits exactly the fault its lane is for.
//! A lane whose canary stays silent makes a run inconclusive, never "held".
#![allow(static_mut_refs)]

static mut RACY: u64 = 0;

pub fn run(kind: &str) -> i32 {
    match kind {
        "asan" | "miri" | "memcheck" => {
            // heap buffer overflow (read one past the allocation)
            let v = vec![1u8; 8];
            let p = v.as_ptr();
            let x = unsafe { std::ptr::read_volatile(p.add(8 + std::hint::black_box(1))) };
            println!("canary read {x}");
        }
        "msan" => {
            let b: Box<std::mem::MaybeUninit<[u32; 4]>> = Box::new(std::mem::MaybeUninit::uninit());
            let a = unsafe { b.assume_init() };
            if std::hint::black_box(a[2]) > 5 {
                println!("canary branch taken");
            } else {
                println!("canary branch not taken");
            }
        }
        "tsan" => {
            // all four start together (a thread that has finished before the next one starts gives the detector little to see)
            let gate = std::sync::Arc::new(std::sync::Barrier::new(4));
            let t: Vec<_> = (0..4)
                .map(|_| {
                    let gate = gate.clone();
                    std::thread::spawn(move || {
                        gate.wait();
                        for _ in 0..200_000 {
                            unsafe {
                                RACY = std::ptr::read_volatile(&RACY) + 1;
                            }
                        }
                    })
                })
                .collect();
            for h in t {
                let _ = h.join();
            }
            println!("canary counter {}", unsafe { RACY });
        }
        other => {
            println!("unknown canary {other}");
            return 2;
        }
    }
    println!("CANARY SILENT");
    0
}
