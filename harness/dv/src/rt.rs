//! Round-trip family: C01 (built-in codecs), C02 (derived codecs), C04 (wire format, both directions),
//! C07 (self-delimiting), C08 (truncation).

use crate::common::*;
use monitors::json::J;
use refmodel::{canon, canon_strict, gen_val, hex, ref_decode, ref_encode, ref_encode_forms, ref_encode_newer_tuples, with_transient_defaults, Ty, Val};
use sbase::{dec_val, dec_val_rest, enc, Call, Sink, Subject};
use std::any::Any;

pub const TAG_C01: u64 = 0xC01;
pub const TAG_C02: u64 = 0xC02;
pub const TAG_C04: u64 = 0xC04;
pub const TAG_C07: u64 = 0xC07;
pub const TAG_C08: u64 = 0xC08;

pub fn expected(ty: &Ty, v: &Val) -> Val {
    canon(ty, &with_transient_defaults(ty, v)).expect("canonical expected value")
}

/// encode one generated value through `serialize_to_byte_vec`; None (and a counter) if the value is not encodable
pub fn encode_case(acc: &mut Acc, s: &dyn Subject, v: &Val) -> Option<(Box<dyn Any>, Vec<u8>)> {
    // under a process zone with daylight saving (lanes with TZ set) some generated wall-clock times cannot be built as
    // DateTime<Local>: they are outside the quantifier of every property, not a finding
    let x = if std::env::var("TZ").map(|z| z != "UTC").unwrap_or(false) {
        match monitors::guarded(|| s.make(v), |_| None) {
            monitors::Outcome::Done(x) => x,
            _ => {
                acc.count("ambiguous_or_skipped_local_times_not_counted");
                return None;
            }
        }
    } else {
        s.make(v)
    };
    match enc(s, x.as_ref(), Sink::ToByteVec) {
        Call::Ok(b) => Some((x, b)),
        other => {
            // judged by C17, not here: one defect is reported once
            acc.count(&format!("unencodable:{}", other.class()));
            None
        }
    }
}

/// the reference encoding of `v` as a foreign writer may legally produce it: some tuple and enum positions (map entries
/// included) come from a writer one to three evolution steps ahead (version byte n, a header, chunk 0 with the elements,
/// then chunks this reader knows nothing about), some sequences are in the unknown-length form
fn newer_tuple_encoding(ctx: &Ctx, tag: u64, id: &str, idx: u64, ty: &Ty, v: &Val) -> Option<Vec<u8>> {
    if !ty.any(&mut |t| matches!(t, Ty::Tuple(_) | Ty::Map(_, _) | Ty::Enum(_) | Ty::Seq(_) | Ty::Set(_) | Ty::Array(_, _) | Ty::DedupStr), &mut Vec::new()) {
        return None;
    }
    let mut r1 = ctx.rng_for(tag ^ 0x7E, id, idx);
    let mut r2 = ctx.rng_for(tag ^ 0x7F, id, idx);
    let any = std::cell::Cell::new(false);
    let mut choose = || {
        let u = r1.chance(1, 3);
        if u {
            any.set(true);
        }
        u
    };
    let mut newer = || {
        if r2.chance(1, 2) {
            any.set(true);
            1 + r2.below(3) as u32
        } else {
            0
        }
    };
    // a known deduplicated string may be sent in full again (the Scala writer does): it keeps the id it has
    let mut r3 = ctx.rng_for(tag ^ 0x7D, id, idx);
    let mut known_before = 0u32;
    let mut full = || {
        known_before += 1;
        let f = r3.chance(1, 3);
        if f && known_before > 1 {
            any.set(true);
        }
        f
    };
    let b = ref_encode_newer_tuples(ty, v, &mut choose, &mut newer, &mut full).ok()?;
    if any.get() {
        Some(b)
    } else {
        None
    }
}

fn render_call(c: &Call<Val>) -> String {
    match c {
        Call::Ok(v) => format!("Ok({})", v.render(200)),
        Call::Err(e) => format!("Err({}: {})", e.variant, e.payload),
        Call::Panic(p) => format!("Panic({} — {})", monitors::normalise_site(&p.site), p.msg),
        Call::StepBudget(n) => format!("StepBudget({n})"),
    }
}

/// decode(bytes) must give `exp`
fn check_decodes_to(
    ctx: &Ctx,
    acc: &mut Acc,
    check: &str,
    s: &dyn Subject,
    bytes: &[u8],
    exp: &Val,
    what: &str,
) -> bool {
    let ty = s.ty();
    let got = dec_val(s, bytes);
    let ok = match &got {
        Call::Ok(v) => match canon(&ty, v) {
            Ok(c) => &c == exp,
            Err(_) => false,
        },
        _ => false,
    };
    if !ok {
        let class = match &got {
            Call::Ok(_) => "value_mismatch".to_string(),
            other => other.class(),
        };
        acc.violation(
            format!("{check}|{}|{what}|{class}", s.id()),
            replay_decode(check, s.id(), bytes, what)
                .with("expected", J::s(exp.render(300)))
                .with("got", J::s(render_call(&got)))
                .with("lane", J::s(ctx.lane.clone())),
        );
    }
    ok
}

/// the bytes the library emitted for `exp` must be exactly what the format prescribes (order of set / map
/// elements is free): strict reference decode → same value, no repeated elements, and re-encoding the
/// reference's parse gives the same bytes
pub fn check_emitted(acc: &mut Acc, check: &str, s: &dyn Subject, bytes: &[u8], exp: &Val) -> bool {
    let ty = s.ty();
    let fail = |acc: &mut Acc, class: &str, note: String| {
        acc.violation(
            format!("{check}|{}|emitted|{class}", s.id()),
            replay_decode(check, s.id(), bytes, "bytes emitted by the library").with("expected_value", J::s(exp.render(300))).with("why", J::s(note)),
        );
        false
    };
    match ref_decode(&ty, bytes) {
        Err(e) if e.kind == refmodel::ErrKind::Unsupported => {
            // the model declines to judge (never a verdict about the library)
            acc.count("model_gap");
            true
        }
        Err(e) => fail(acc, "ref_rejects", format!("{:?}: {}", e.kind, e.msg)),
        Ok((wire, used)) => {
            if used != bytes.len() {
                return fail(acc, "trailing_bytes", format!("reference consumed {used} of {}", bytes.len()));
            }
            match canon_strict(&ty, &wire) {
                Err(e) => return fail(acc, "duplicate_elements", format!("{e:?}")),
                Ok(c) => {
                    if &c != exp {
                        return fail(acc, "denotes_other_value", format!("bytes denote {}", c.render(300)));
                    }
                }
            }
            match ref_encode(&ty, &wire) {
                Ok(b) if b == bytes => true,
                Ok(b) => fail(acc, "bytes_differ", format!("reference bytes {}", short(&b))),
                Err(e) => fail(acc, "ref_cannot_encode", format!("{e:?}")),
            }
        }
    }
}

// -------------------------------------------------------------------------------------------------

/// Values whose lengths, counts and chunk sizes need four (thorough: five) varint bytes.  Run by C01, C04, C07, C08 and C15,
/// each judging its own clause: round trip, bytes == reference, exact consumption before a suffix, rejected truncations,
/// identical bytes on every sink + exact size.
pub fn big_values(ctx: &mut Ctx, acc: &mut Acc, check: &str) {
    let mut sizes: Vec<usize> = vec![(1 << 20) - 1, 1 << 20, (1 << 20) + 1, (1 << 21) - 1, 1 << 21, (1 << 21) + 1];
    if ctx.thorough() && !cfg!(debug_assertions) {
        sizes.extend([(1 << 27) - 1, 1 << 27, (1 << 28) - 1, 1 << 28, (1 << 28) + 1]);
    }
    // (subject id, path of record field indices to the big leaf, leaf kind)
    let targets: [(&str, &[usize], char); 9] = [
        ("String", &[], 's'),
        ("Vec<u8>", &[], 'b'),
        ("Bytes", &[], 'b'),
        ("Vec<i8>", &[], 'q'),
        ("LinkedList<u8>", &[], 'q'),
        ("Vec<()>", &[], 'u'),
        ("DedupMixed", &[3], 's'),   // chunk 0 of an evolved record grows past 2^20 / 2^21 bytes
        ("MaxSteps", &[1], 's'),     // 254 header entries in front of it
        ("DedupV0", &[1], 's'),
    ];
    let mut k = 0usize;
    for (id, path, kind) in targets {
        for size in &sizes {
            k += 1;
            if k % ctx.shards != ctx.shard {
                continue;
            }
            if *size > (1 << 21) + 1 && !matches!(kind, 's' | 'b' | 'u') {
                continue; // element-wise values of 2^27 items would not fit the harness's own Val representation
            }
            let Some(s) = ctx.reg.get(id) else {
                acc.inconclusive(format!("big values: subject {id} missing"));
                continue;
            };
            let ty = s.ty();
            let leaf = match kind {
                's' => Val::Str("a".repeat(*size)),
                'b' => Val::Bytes(vec![0x5a; *size]),
                'u' => Val::Seq(vec![Val::Unit; (*size).min(1 << 21)]),
                _ => Val::Seq((0..*size).map(|i| if id.starts_with("Vec<i8>") { Val::I((i % 100) as i128 - 50) } else { Val::U((i % 251) as u128) }).collect()),
            };
            // embed the leaf into a small generated value of the subject's type
            let mut rng = ctx.rng_for(0xB16, id, *size as u64);
            let small = refmodel::GenCtx { allow_large: false, tz_names: ctx.gen.tz_names.clone(), ..refmodel::GenCtx::default() };
            let mut v = gen_val(&ty, &mut rng, &small);
            if path.is_empty() {
                v = leaf;
            } else if let Val::Rec(fields) = &mut v {
                fields[path[0]] = leaf;
            }
            let exp = expected(&ty, &v);
            ctx.crumb(id, "big value", &[]);
            let s = ctx.reg.get(id).unwrap();
            let x = s.make(&v);
            let bytes = match enc(s, x.as_ref(), Sink::ToByteVec) {
                Call::Ok(b) => b,
                other => {
                    acc.violation(format!("{check}|{id}|big_value|encode:{}", other.class()), J::obj().with("check", J::s(check)).with("mode", J::s("big_value")).with("subject", J::s(id)).with("size", J::u(*size as u64)));
                    continue;
                }
            };
            acc.case(Some(sig(&[id.as_bytes(), &(*size as u64).to_le_bytes()])));
            let fail = |acc: &mut Acc, what: &str| {
                acc.violation(
                    format!("{check}|{id}|big_value|{what}"),
                    J::obj().with("check", J::s(check)).with("mode", J::s("big_value")).with("subject", J::s(id)).with("size", J::u(*size as u64)).with("encoding_len", J::u(bytes.len() as u64)).with("head", J::s(short(&bytes[..bytes.len().min(48)]))),
                );
            };
            let mut ok = true;
            match check {
                "C04" => {
                    match ref_encode(&ty, &v) {
                        Ok(r) if r == bytes => {}
                        _ => {
                            ok = false;
                            fail(acc, "bytes_differ_from_reference")
                        }
                    }
                }
                "C07" => {
                    let mut buf = bytes.clone();
                    buf.extend_from_slice(&[0xde, 0xad, 0xbe]);
                    let (got, rest) = dec_val_rest(s, &buf);
                    if !(matches!(&got, Call::Ok(g) if canon(&ty, g).ok().as_ref() == Some(&exp)) && rest == 3) {
                        ok = false;
                        fail(acc, &format!("consumption:{}:left_{rest}", got.class()));
                    }
                }
                "C08" => {
                    for cut in [0usize, 1, 2, 3, 4, 5, bytes.len() / 2, bytes.len() - 2, bytes.len() - 1] {
                        if cut < bytes.len() && !sbase::dec(s, &bytes[..cut]).is_err() {
                            ok = false;
                            fail(acc, &format!("prefix_{cut}_not_rejected"));
                        }
                    }
                }
                "C15" => {
                    for sink in sbase::ALL_SINKS {
                        if !matches!(enc(s, x.as_ref(), sink), Call::Ok(b) if b == bytes) {
                            ok = false;
                            fail(acc, &format!("sink_{sink:?}_differs"));
                        }
                    }
                    if !matches!(sbase::monitored(None, || s.size(x.as_ref())).0, Call::Ok(n) if n == bytes.len()) {
                        ok = false;
                        fail(acc, "size_calculator");
                    }
                }
                _ => {
                    if !matches!(dec_val(s, &bytes), Call::Ok(g) if canon(&ty, &g).ok().as_ref() == Some(&exp)) {
                        ok = false;
                        fail(acc, "roundtrip");
                    }
                }
            }
            if ok {
                acc.count("big_values_ok");
                acc.max("largest_big_value", *size as u64);
            }
        }
    }
}

/// chrono can hold a leap second (nanosecond >= 10^9) at a second other than :59 — it arises whenever a leap-second
/// instant is viewed through an offset that is not a whole number of minutes — but can only *build* one at :59.
/// The general value generator goes through from_hms_nano and never produces them; these are built by arithmetic.
fn leap_seconds_off_the_minute(acc: &mut Acc) {
    use chrono::{DateTime, FixedOffset, NaiveDate, NaiveDateTime, NaiveTime, TimeZone, Utc};
    fn one<T: desert::BinarySerializer + desert::BinaryDeserializer + PartialEq + std::fmt::Debug>(acc: &mut Acc, class: &str, ty: &str, v: T) {
        acc.case(Some(refmodel::rng::fnv64_str(&format!("{class}/{ty}/{v:?}"))));
        let (r, _) = sbase::monitored(None, || {
            let bytes = desert::serialize_to_byte_vec(&v).map_err(|e| sbase::classify(&e))?;
            let back: T = desert::deserialize(&bytes).map_err(|e| sbase::classify(&e))?;
            Ok((back == v, bytes))
        });
        match r {
            Call::Ok((true, _)) => acc.count(&format!("{class}:roundtrip_ok")),
            Call::Ok((false, bytes)) => acc.violation(
                format!("C01|{class}|{ty}|other_value"),
                J::obj().with("check", J::s("C01")).with("mode", J::s("content")).with("value", J::s(format!("{v:?}"))).with("hex", J::s(hex(&bytes))),
            ),
            other => acc.violation(
                format!("C01|{class}|{ty}|{}", other.class()),
                J::obj().with("check", J::s("C01")).with("mode", J::s("content")).with("value", J::s(format!("{v:?}"))).with("got", J::s(other.class())),
            ),
        }
    }
    let leap_utc: DateTime<Utc> = Utc.from_utc_datetime(&NaiveDate::from_ymd_opt(2016, 12, 31).unwrap().and_hms_nano_opt(23, 59, 59, 1_500_000_000).unwrap());
    // control: whole-minute offsets keep the leap second at :59
    for secs in [0, 3600, -5 * 3600, 19 * 60] {
        let off = FixedOffset::east_opt(secs).unwrap();
        one(acc, "leap_second_at_59", "DateTime<FixedOffset>", leap_utc.with_timezone(&off));
        let t: NaiveTime = NaiveTime::from_hms_nano_opt(23, 59, 59, 1_999_999_999).unwrap();
        one(acc, "leap_second_at_59", "NaiveTime", t);
    }
    // DateTime<Local> whose offset is not the one the process zone assigns to that instant (Local's offset type is a plain
    // FixedOffset, and a public constructor takes any): the wire carries the wall clock only
    {
        use chrono::Local;
        let naive = NaiveDate::from_ymd_opt(2024, 1, 15).unwrap().and_hms_opt(12, 0, 0).unwrap();
        let own = Local.from_utc_datetime(&naive);
        one(acc, "local_time_with_the_zone_s_own_offset", "DateTime<Local>", own);
        let own_offset = chrono::Offset::fix(own.offset()).local_minus_utc();
        for delta in [3600, -3600, 30] {
            if let Some(off) = FixedOffset::east_opt(own_offset + delta) {
                let foreign: DateTime<Local> = DateTime::<Local>::from_naive_utc_and_offset(naive, off);
                one(acc, "local_time_with_a_foreign_offset", "DateTime<Local>", foreign);
            }
        }
    }
    for secs in [30, -1, 19 * 60 + 32, 86_399, -86_399] {
        let off = FixedOffset::east_opt(secs).unwrap();
        let dt = leap_utc.with_timezone(&off);
        one(acc, "leap_second_off_the_minute", "DateTime<FixedOffset>", dt);
        let ndt: NaiveDateTime = dt.naive_local();
        one(acc, "leap_second_off_the_minute", "NaiveDateTime", ndt);
        one(acc, "leap_second_off_the_minute", "NaiveTime", ndt.time());
    }
}

pub fn c01(ctx: &mut Ctx, acc: &mut Acc) -> i32 {
    if ctx.extra.get("only").is_none() {
        big_values(ctx, acc, "C01");
        if ctx.shard == 0 {
            leap_seconds_off_the_minute(acc);
        }
    }
    let n = ctx.n(2000, 20_000);
    // the local-time lane (TZ set to a zone with daylight saving by the driver): only types containing DateTime<Local>,
    // only unambiguous local times (values the zone cannot represent are skipped, as the property says)
    let local_lane = ctx.extra.get("only").map(|v| v == "local").unwrap_or(false);
    let subjects: Vec<String> = ctx
        .my_subjects(|s| !local_lane || s.ty().any(&mut |t| matches!(t, Ty::DateTimeLocal), &mut Vec::new()))
        .iter()
        .map(|s| s.id().to_string())
        .filter(|id| ctx.is_catalogue(id))
        .collect();
    for id in subjects {
        let s = ctx.reg.get(&id).unwrap();
        let ty = s.ty();
        for idx in 0..n {
            let mut rng = ctx.rng_for(TAG_C01, &id, idx);
            let v = gen_val(&ty, &mut rng, &ctx.gen);
            if local_lane {
                // ambiguous or skipped wall-clock times cannot be built in this zone: outside the quantifier
                if !matches!(monitors::guarded(|| drop(s.make(&v)), |_| None), monitors::Outcome::Done(())) {
                    acc.count("ambiguous_or_skipped_local_times_not_counted");
                    continue;
                }
                acc.count("local_time_cases_under_dst_zone");
            }
            let exp = expected(&ty, &v);
            let Some((_x, bytes)) = encode_case(acc, s, &v) else {
                acc.case(None);
                continue;
            };
            acc.case(Some(sig(&[id.as_bytes(), &bytes])));
            // one case in eight comes after the thread has been refused a few damaged inputs of the same type (cut, and
            // cut with a byte flipped): what a decoder did before must not matter to the round trip
            if idx % 8 == 3 && bytes.len() > 1 {
                for _ in 0..3 {
                    let k = 1 + rng.below(bytes.len() as u64 - 1) as usize;
                    let mut damaged = bytes[..k].to_vec();
                    if rng.chance(1, 2) {
                        let at = rng.below(k as u64) as usize;
                        damaged[at] ^= 1 << rng.below(8);
                    }
                    let _ = sbase::dec_hostile(s, &damaged);
                }
                acc.count("round_trips_after_refused_inputs");
            }
            let ok = check_decodes_to(ctx, acc, "C01", s, &bytes, &exp, "roundtrip");
            if ok {
                acc.count("roundtrip_ok");
            }
            acc.max("max_encoding_len", bytes.len() as u64);
            if idx == 0 && acc.samples.len() < 6 {
                acc.sample(J::obj().with("type", J::s(id.clone())).with("value", J::s(exp.render(160))).with("hex", J::s(short(&bytes))));
            }
        }
        acc.count("types");
    }
    0
}

fn is_derived(ctx: &Ctx, id: &str) -> bool {
    !ctx.is_catalogue(id)
}

/// Histories in which a field name comes back.  For named fields that is a choice; for tuple variants it is forced:
/// fields are called field0, field1 … by position, so dropping the last element and appending a new one later reuses
/// its name.  The same definition must read what it wrote.
fn names_that_come_back(acc: &mut Acc) {
    use desert::BinaryCodec;
    #[derive(BinaryCodec, Debug, PartialEq, Clone)]
    enum Shape {
        #[evolution(FieldRemoved("field2"), FieldAdded("field2", 0u32))]
        Circle(u8, u8, u32),
        Dot,
    }
    #[derive(BinaryCodec, Debug, PartialEq, Clone)]
    #[evolution(FieldRemoved("note"), FieldAdded("note", None))]
    struct Ticket {
        id: u8,
        note: Option<u32>,
    }
    // control: the same shapes with a name that was never used before
    #[derive(BinaryCodec, Debug, PartialEq, Clone)]
    #[evolution(FieldRemoved("memo"), FieldAdded("note", None))]
    struct TicketFreshName {
        id: u8,
        note: Option<u32>,
    }
    fn one<T: desert::BinarySerializer + desert::BinaryDeserializer + PartialEq + std::fmt::Debug>(acc: &mut Acc, what: &str, v: T) {
        acc.case(Some(refmodel::rng::fnv64_str(&format!("{what}/{v:?}"))));
        let (r, _) = sbase::monitored(None, || {
            let bytes = desert::serialize_to_byte_vec(&v).map_err(|e| sbase::classify(&e))?;
            let back: T = desert::deserialize(&bytes).map_err(|e| sbase::classify(&e))?;
            Ok((back == v, format!("{back:?}"), bytes))
        });
        match r {
            Call::Ok((true, _, _)) => acc.count(&format!("names:{what}:roundtrip_ok")),
            Call::Ok((false, got, bytes)) => acc.violation(
                format!("C02|name_comes_back|{what}|silently_different_value"),
                J::obj().with("check", J::s("C02")).with("mode", J::s("content")).with("value", J::s(format!("{v:?}"))).with("got", J::s(got)).with("hex", J::s(hex(&bytes))),
            ),
            other => acc.violation(
                format!("C02|name_comes_back|{what}|{}", other.class()),
                J::obj().with("check", J::s("C02")).with("mode", J::s("content")).with("value", J::s(format!("{v:?}"))).with("got", J::s(other.class())),
            ),
        }
    }
    one(acc, "control_fresh_name", TicketFreshName { id: 1, note: Some(99) });
    one(acc, "control_other_constructor", Shape::Dot);
    one(acc, "tuple_variant_last_element_replaced", Shape::Circle(1, 2, 99));
    one(acc, "optional_field_removed_and_added_again", Ticket { id: 1, note: Some(99) });
    // … and the re-added field made optional later: the writer must describe the step by the field's position, not
    // take the name for a removed one
    #[derive(BinaryCodec, Debug, PartialEq, Clone)]
    #[evolution(FieldRemoved("x"), FieldAdded("x", Some(5u8)), FieldMadeOptional("x"))]
    struct ReusedThenOptional {
        a: u8,
        x: Option<u8>,
    }
    #[derive(BinaryCodec, Debug, PartialEq, Clone)]
    #[evolution(FieldMadeTransient("x"), FieldAdded("x", Some(5u8)), FieldMadeOptional("x"))]
    struct TransientThenOptional {
        a: u8,
        x: Option<u8>,
    }
    #[derive(BinaryCodec, Debug, PartialEq, Clone)]
    enum ReusedInVariant {
        #[evolution(FieldRemoved("field0"), FieldAdded("field0", None), FieldMadeOptional("field0"))]
        A(Option<String>),
    }
    #[derive(BinaryCodec, Debug, PartialEq, Clone)]
    #[evolution(FieldAdded("y", Some(5u8)), FieldMadeOptional("y"))]
    struct FreshThenOptional {
        a: u8,
        y: Option<u8>,
    }
    // a tuple variant whose *first* element goes while a later one stays: legal on the wire (the removed element is the
    // only field of chunk 0, the survivor lives in chunk 1), but the survivor is now called field0 — by position
    #[derive(BinaryCodec, Debug, PartialEq, Clone)]
    enum FirstElementGone {
        #[evolution(FieldAdded("field1", 9u8), FieldRemoved("field0"))]
        V(u8),
    }
    #[derive(BinaryCodec, Debug, PartialEq, Clone)]
    enum FirstFieldGone {
        #[evolution(FieldAdded("b", 9u8), FieldRemoved("a"))]
        V { b: u8 },
    }
    one(acc, "control_struct_variant_first_field_removed", FirstFieldGone::V { b: 5 });
    one(acc, "tuple_variant_first_element_removed", FirstElementGone::V(5));
    one(acc, "control_fresh_name_made_optional", FreshThenOptional { a: 1, y: Some(2) });
    one(acc, "reused_name_made_optional", ReusedThenOptional { a: 1, x: Some(2) });
    one(acc, "reused_name_after_transient_made_optional", TransientThenOptional { a: 1, x: Some(2) });
    one(acc, "reused_positional_name_made_optional", ReusedInVariant::A(Some("hi".into())));
    // a name made optional in both of its incarnations: [MadeOptional x, Removed x, Added x, MadeOptional x].  Data written
    // between the re-adding and the second made-optional step holds a plain value; the final definition wraps it.
    #[derive(BinaryCodec, Debug, PartialEq, Clone)]
    #[evolution(FieldMadeOptional("x"), FieldRemoved("x"), FieldAdded("x", 5u8))]
    struct TwiceOptionalW {
        a: u8,
        x: u8,
    }
    #[derive(BinaryCodec, Debug, PartialEq, Clone)]
    #[evolution(FieldMadeOptional("x"), FieldRemoved("x"), FieldAdded("x", Some(5u8)), FieldMadeOptional("x"))]
    struct TwiceOptionalR {
        a: u8,
        x: Option<u8>,
    }
    one(acc, "made_optional_in_both_incarnations", TwiceOptionalR { a: 1, x: Some(2) });
    one(acc, "made_optional_in_both_incarnations_none", TwiceOptionalR { a: 1, x: None });
    acc.case(Some(0x7201));
    let (r, _) = sbase::monitored(None, || {
        let bytes = desert::serialize_to_byte_vec(&TwiceOptionalW { a: 1, x: 2 }).map_err(|e| sbase::classify(&e))?;
        let newer: TwiceOptionalR = desert::deserialize(&bytes).map_err(|e| sbase::classify(&e))?;
        let bytes2 = desert::serialize_to_byte_vec(&TwiceOptionalR { a: 3, x: Some(4) }).map_err(|e| sbase::classify(&e))?;
        let older: TwiceOptionalW = desert::deserialize(&bytes2).map_err(|e| sbase::classify(&e))?;
        Ok((newer, older))
    });
    match r {
        Call::Ok((newer, older)) if newer == (TwiceOptionalR { a: 1, x: Some(2) }) && older == (TwiceOptionalW { a: 3, x: 4 }) => acc.count("names:made_optional_in_both_incarnations:across_the_last_step"),
        other => acc.violation(
            format!("C02|name_comes_back|made_optional_in_both_incarnations_across_versions|{}", if other.is_ok() { "silently_different_value".to_string() } else { other.class() }),
            J::obj().with("check", J::s("C02")).with("mode", J::s("content")).with("got", J::s(format!("{other:?}"))).with("expected", J::s("the wrapped / unwrapped value")),
        ),
    }
    // a name removed, re-added and removed again: the reader in the middle still has the field, the data says it is gone
    #[derive(BinaryCodec, Debug, PartialEq, Clone)]
    #[evolution(FieldRemoved("x"), FieldAdded("x", 5u8), FieldRemoved("x"))]
    struct RemovedTwiceW {
        a: u8,
    }
    #[derive(BinaryCodec, Debug, PartialEq, Clone)]
    #[evolution(FieldRemoved("x"), FieldAdded("x", 5u8))]
    struct RemovedTwiceR {
        a: u8,
        x: u8,
    }
    #[derive(BinaryCodec, Debug, PartialEq, Clone)]
    #[evolution(FieldRemoved("x"), FieldAdded("x", Some(5u8)))]
    struct RemovedTwiceROpt {
        a: u8,
        x: Option<u8>,
    }
    one(acc, "removed_twice_same_definition", RemovedTwiceW { a: 1 });
    acc.case(Some(0x7202));
    let (r, _) = sbase::monitored(None, || {
        let bytes = desert::serialize_to_byte_vec(&RemovedTwiceW { a: 1 }).map_err(|e| sbase::classify(&e))?;
        let required = desert::deserialize::<RemovedTwiceR>(&bytes).map_err(|e| sbase::classify(&e).variant.to_string());
        let optional = desert::deserialize::<RemovedTwiceROpt>(&bytes).map_err(|e| sbase::classify(&e).variant.to_string());
        Ok((required, optional))
    });
    match r {
        Call::Ok((Err(e), Ok(o))) if e == "FieldRemovedInSerializedVersion" && o == (RemovedTwiceROpt { a: 1, x: None }) => acc.count("names:removed_twice:reader_in_the_middle_as_documented"),
        other => acc.violation(
            "C02|name_comes_back|removed_twice_reader_in_the_middle".to_string(),
            J::obj().with("check", J::s("C02")).with("mode", J::s("content")).with("got", J::s(format!("{other:?}"))).with("expected", J::s("required field: FieldRemovedInSerializedVersion; optional field: None")),
        ),
    }
    // the header of the reused-name record must be the one of the fresh-name record, name apart
    let a = desert::serialize_to_byte_vec(&ReusedThenOptional { a: 1, x: Some(2) });
    acc.case(Some(0x4ead));
    match a {
        Ok(bytes) if bytes == [3u8, 2, 3, 2, b'x', 4, 1, 2, 1, 1, 2] => acc.count("names:reused_name_made_optional:header_as_the_format_prescribes"),
        other => acc.violation(
            "C02|name_comes_back|reused_name_made_optional|header_bytes".to_string(),
            J::obj().with("check", J::s("C02")).with("mode", J::s("content")).with("expected", J::s("03 02 03 02 78 04 01 02 01 01 02")).with("got", J::s(format!("{other:?}"))),
        ),
    }
}

/// Values of the recursive declarations far deeper than the generator nests them (hundreds of boxes / vectors /
/// constructors inside one another): they must round-trip like any other value.
fn deep_recursive_values(ctx: &mut Ctx, acc: &mut Acc, check: &str) {
    if ctx.shard != 0 || ctx.only_fresh() {
        return;
    }
    for depth in [129usize, 300, 2000, 5000] {
        // DeepRec { v, next: Option<Box<DeepRec>> }
        let mut v = Val::Rec(vec![Val::U(1), Val::None]);
        for i in 0..depth {
            v = Val::Rec(vec![Val::U((i % 250) as u128), Val::some(v)]);
        }
        // DeepVec { kids: Vec<DeepVec> }, one child per level
        let mut dv = Val::Rec(vec![Val::Seq(vec![])]);
        for _ in 0..depth {
            dv = Val::Rec(vec![Val::Seq(vec![dv])]);
        }
        // DeepEnum::Node(Box<DeepEnum>) … Leaf(u16)
        let mut de = Val::Ctor(0, vec![Val::U(9)]);
        for _ in 0..depth {
            de = Val::Ctor(1, vec![de]);
        }
        // DeepEvolved { v, next: Option<Box<DeepEvolved>>, tag (added) }: a record with a header at every level
        let mut dev = Val::Rec(vec![Val::U(1), Val::None, Val::U(9)]);
        for i in 0..depth {
            dev = Val::Rec(vec![Val::U((i % 250) as u128), Val::some(dev), Val::U((i % 7) as u128)]);
        }
        for (id, val) in [("DeepRec", v), ("DeepVec", dv), ("DeepEnum", de), ("DeepEvolved", dev)] {
            let Some(s) = ctx.reg.get(id) else { continue };
            let ty = s.ty();
            // the harness' own recursion (canonical form, rendering) runs on a large stack
            let exp = val.clone();
            let Some((_x, bytes)) = encode_case(acc, s, &val) else {
                acc.case(None);
                continue;
            };
            std::mem::forget(_x); // dropping a deep value is recursion of the client's drop glue, not of the library
            acc.case(Some(sig(&[id.as_bytes(), &bytes])));
            let a = check_decodes_to(ctx, acc, check, s, &bytes, &exp, "deeply nested value of a recursive declaration");
            let b = check_emitted(acc, check, s, &bytes, &exp);
            if a && b {
                acc.count("deep_recursive_values_ok");
                acc.max("deepest_recursive_value_round_tripped", depth as u64);
            }
            let _ = &ty;
        }
    }
}

pub fn c02(ctx: &mut Ctx, acc: &mut Acc) -> i32 {
    deep_nesting(ctx, acc, "C02");
    deep_recursive_values(ctx, acc, "C02");
    if ctx.shard == 0 && !ctx.only_fresh() {
        names_that_come_back(acc);
    }
    let n = ctx.n(300, 1500);
    let subjects: Vec<String> = ctx.my_subjects(|_| true).iter().map(|s| s.id().to_string()).filter(|id| is_derived(ctx, id)).collect();
    for id in subjects {
        let s = ctx.reg.get(&id).unwrap();
        let ty = s.ty();
        let tags = ctx.reg.tags.get(&id).cloned().unwrap_or_default();
        for t in &tags {
            acc.count(&format!("feature:{t}"));
        }
        acc.count("programs");
        for idx in 0..n {
            let mut rng = ctx.rng_for(TAG_C02, &id, idx);
            let v = gen_val(&ty, &mut rng, &ctx.gen);
            let exp = expected(&ty, &v);
            let Some((_x, bytes)) = encode_case(acc, s, &v) else {
                acc.case(None);
                continue;
            };
            acc.case(Some(sig(&[id.as_bytes(), &bytes])));
            let a = check_decodes_to(ctx, acc, "C02", s, &bytes, &exp, "roundtrip");
            let b = check_emitted(acc, "C02", s, &bytes, &exp);
            acc.count("disagreements_checked");
            if a && b {
                acc.count("agree");
            }
            if idx == 0 && acc.samples.len() < 6 {
                acc.sample(
                    J::obj()
                        .with("declaration", J::s(id.clone()))
                        .with("features", J::Arr(tags.iter().map(|t| J::s(t.clone())).collect()))
                        .with("value", J::s(exp.render(160)))
                        .with("hex", J::s(short(&bytes))),
                );
            }
        }
    }
    0
}

/// Twelve levels of records with evolution headers (`Nest0` … `Nest11`), every level entered several times with data
/// following in the same chunk: region and chunk-buffer stacks far deeper than any generated declaration reaches.
pub fn deep_nesting(ctx: &mut Ctx, acc: &mut Acc, check: &str) {
    if ctx.shard != 0 || ctx.only_fresh() {
        return;
    }
    let Some(s) = ctx.reg.get("Nest0") else {
        acc.inconclusive("deep nesting: subject Nest0 missing".to_string());
        return;
    };
    let ty = s.ty();
    let levels = 12usize;
    fn tree(level: usize, levels: usize, rng: &mut refmodel::Rng, full: bool, counter: &mut u64) -> Val {
        *counter += 1;
        let head = Val::U((*counter % 251) as u128);
        let tail = Val::U((0xA000_0000u64 + *counter) as u128);
        if level + 1 == levels {
            return Val::Rec(vec![head, tail]);
        }
        let k = if full { 2 } else { [1usize, 2, 2, 3][rng.below(4) as usize].min(if level < 6 { 2 } else { 3 }) };
        let k = if !full && level >= 9 { k } else { k.min(2) };
        let kids = (0..k).map(|_| tree(level + 1, levels, rng, full, counter)).collect();
        Val::Rec(vec![head, Val::Seq(kids), tail])
    }
    for idx in 0..ctx.n(4, 12) {
        let mut rng = ctx.rng_for(0xDEE9, "Nest0", idx);
        let mut counter = idx * 1000;
        let v = tree(0, levels, &mut rng, idx == 0, &mut counter);
        let exp = expected(&ty, &v);
        let Some((_x, bytes)) = encode_case(acc, s, &v) else {
            acc.case(None);
            continue;
        };
        acc.case(Some(sig(&[b"Nest0", &bytes])));
        let a = check_decodes_to(ctx, acc, check, s, &bytes, &exp, "twelve levels of evolved records");
        let b = check_emitted(acc, check, s, &bytes, &exp);
        if a && b {
            acc.count("deep_nesting_ok");
            acc.max("deep_nesting_levels", levels as u64);
            acc.max("deep_nesting_records", counter - idx * 1000);
        }
    }
}

pub fn c04(ctx: &mut Ctx, acc: &mut Acc) -> i32 {
    if ctx.shard == 0 {
        c04_anchors(ctx, acc);
    }
    if ctx.extra.get("only").is_none() {
        big_values(ctx, acc, "C04");
    }
    let n_cat = ctx.n(1000, 10_000);
    let n_der = ctx.n(200, 1000);
    let subjects: Vec<String> = ctx.my_subjects(|_| true).iter().map(|s| s.id().to_string()).collect();
    for id in subjects {
        let s = ctx.reg.get(&id).unwrap();
        let ty = s.ty();
        let n = if ctx.is_catalogue(&id) { n_cat } else { n_der };
        for idx in 0..n {
            let mut rng = ctx.rng_for(TAG_C04, &id, idx);
            let v = gen_val(&ty, &mut rng, &ctx.gen);
            let exp = expected(&ty, &v);
            // direction 1: what the library writes
            if let Some((_x, bytes)) = encode_case(acc, s, &v) {
                acc.case(Some(sig(&[id.as_bytes(), &bytes])));
                if check_emitted(acc, "C04", s, &bytes, &exp) {
                    acc.count("emitted_conforms");
                }
                if idx == 0 && acc.samples.len() < 4 {
                    acc.sample(J::obj().with("type", J::s(id.clone())).with("value", J::s(exp.render(120))).with("library_bytes", J::s(short(&bytes))));
                }
            } else {
                acc.case(None);
            }
            // direction 2: every legal form the reference encoder can produce must decode to the value
            let mut form_rng = ctx.rng_for(TAG_C04 ^ 0xF0, &id, idx);
            let mut unknown_forms = 0u32;
            let mut choose = || {
                let u = form_rng.chance(1, 2);
                if u {
                    unknown_forms += 1;
                }
                u
            };
            match ref_encode_forms(&ty, &v, &mut choose) {
                Ok(bytes) => {
                    acc.case(Some(sig(&[id.as_bytes(), b"forms", &bytes])));
                    if unknown_forms > 0 {
                        acc.count("reference_encodings_with_unknown_length_form");
                    }
                    if check_decodes_to(ctx, acc, "C04", s, &bytes, &exp, "reference_encoding") {
                        acc.count("reference_encoding_decodes");
                    }
                    if idx == 1 && unknown_forms > 0 && acc.samples.len() < 6 {
                        acc.sample(J::obj().with("type", J::s(id.clone())).with("reference_bytes_with_unknown_length_forms", J::s(short(&bytes))));
                    }
                }
                Err(_) => acc.count("reference_unencodable"),
            }
            // … and tuples written by a newer writer (tuples are records: a stored version above 0 brings a header and
            // chunks the reader skips)
            if let Some(bytes) = newer_tuple_encoding(ctx, TAG_C04, &id, idx, &ty, &v) {
                acc.case(Some(sig(&[id.as_bytes(), b"newer", &bytes])));
                if check_decodes_to(ctx, acc, "C04", s, &bytes, &exp, "reference_encoding_with_newer_tuples") {
                    acc.count("reference_encodings_with_newer_tuples_decode");
                }
            }
        }
        acc.count("types");
    }
    0
}


/// anchors of the reference model in bytes it did not produce: the Scala golden data set and the 14 pinned bytes of the
/// repository's derivation test
fn c04_anchors(ctx: &mut Ctx, acc: &mut Acc) {
    let repo = std::env::var("VERIF_REPO").unwrap_or_else(|_| "/repo".to_string());
    let path = format!("{repo}/desert_macro/golden/dataset1.bin");
    let Ok(golden) = std::fs::read(&path) else {
        acc.inconclusive(format!("golden file {path} not readable"));
        return;
    };
    let Some(s) = ctx.reg.get("TestModel1") else {
        acc.inconclusive("subject TestModel1 missing");
        return;
    };
    let ty = s.ty();
    acc.case(Some(sig(&[b"golden", &golden])));
    let real = dec_val(s, &golden);
    let reference = refmodel::ref_decode_forms(&ty, &golden);
    match (&real, &reference) {
        (Call::Ok(v), Ok((w, used, forms, dedup_forms))) => {
            let a = canon(&ty, v);
            let b = canon(&ty, w);
            // re-encode the reference's parse with the size forms the foreign writer chose
            let mut at = 0usize;
            let mut replay = || {
                let f = forms.get(at).copied().unwrap_or(false);
                at += 1;
                f
            };
            let mut dat = 0usize;
            let mut dedup_replay = || {
                let f = dedup_forms.get(dat).copied().unwrap_or(false);
                dat += 1;
                f
            };
            let reenc = {
                let mut e = refmodel::enc::Enc::new();
                e.unknown_form = Some(&mut replay);
                e.dedup_full = Some(&mut dedup_replay);
                e.encode(&ty, w).map(|_| e.out)
            };
            let unknown_forms = forms.iter().filter(|f| **f).count();
            if a.is_ok() && a == b && *used == golden.len() && reenc.as_ref().ok() == Some(&golden) {
                acc.count("golden_file_decoded_identically_and_reencoded_byte_exact_by_reference");
                acc.add("golden_file_sequences_in_unknown_length_form", unknown_forms as u64);
                // and the library's own re-encoding of the decoded value conforms as well
                let x = s.make(w);
                if let Call::Ok(bytes) = enc(s, x.as_ref(), Sink::ToByteVec) {
                    if check_emitted(acc, "C04", s, &bytes, a.as_ref().unwrap()) {
                        acc.count("golden_value_reencoded_by_library_conforms");
                    }
                }
                acc.sample(J::obj().with("anchor", J::s("Scala golden file dataset1.bin")).with("bytes", J::u(golden.len() as u64)).with("decoded", J::s(a.unwrap().render(200))));
            } else {
                acc.violation(
                    "C04|golden|library_and_reference_disagree".to_string(),
                    J::obj().with("check", J::s("C04")).with("mode", J::s("golden")).with("values_equal", J::Bool(a.is_ok() && a == b)).with("first_difference", J::s(match &reenc { Ok(r) => { let i = r.iter().zip(golden.iter()).enumerate().position(|(k, (x, y))| k > 8 && x != y).unwrap_or(r.len().min(golden.len())); format!("at {i} of {}/{}: ref {} golden {}", r.len(), golden.len(), refmodel::hex(&r[i.saturating_sub(24)..(i + 12).min(r.len())]), refmodel::hex(&golden[i.saturating_sub(24)..(i + 12).min(golden.len())])) } Err(e) => format!("{e:?}") })).with("consumed_by_reference", J::u(*used as u64)).with("len", J::u(golden.len() as u64)).with(
                        "reference_reencodes_identically",
                        J::Bool(reenc.as_ref().ok() == Some(&golden)),
                    ),
                );
            }
        }
        (r, _) => acc.violation(
            format!("C04|golden|{}", if r.is_ok() { "reference_rejects".to_string() } else { r.class() }),
            J::obj().with("check", J::s("C04")).with("mode", J::s("golden")).with("reference", J::s(format!("{:?}", reference.as_ref().map(|x| x.1).map_err(|e| e.msg.clone())))),
        ),
    }
}

const SUFFIX_BYTES: [u8; 5] = [0x00, 0x01, 0x7f, 0x80, 0xff];

/// A value that starts more than 2^32 bytes into its stream (the bytes before it are skipped, never touched): chunk
/// windows are offsets into the enclosing region, and 32 bits are not enough for them.  Native lanes only.
fn far_offsets(ctx: &mut Ctx, acc: &mut Acc) {
    use desert::{BinaryCodec, BinaryDeserializer, BinaryInput, DeserializationContext};
    if ctx.shard != 0 || ctx.only_fresh() || !matches!(ctx.lane.as_str(), "dbg" | "rel") || cfg!(miri) {
        return;
    }
    #[derive(BinaryCodec, Debug, PartialEq, Clone)]
    #[evolution(FieldAdded("y", 0u32), FieldAdded("z", String::new()))]
    struct FarRec {
        x: u64,
        y: u32,
        z: String,
    }
    let value = FarRec { x: 0x0102_0304_0506_0708, y: 0x1122_3344, z: "far".into() };
    for gap in [(1usize << 32) - 3, (1usize << 32) + 5] {
        acc.case(Some(gap as u64));
        let Some(mut big) = sbase::zeroed(gap + 256) else {
            acc.count("skipped_for_lack_of_address_space");
            continue;
        };
        ctx.crumb("FarRec", "far offset", &[]);
        let (r, _) = sbase::monitored(None, || {
            let enc = desert::serialize_to_byte_vec(&value).map_err(|e| sbase::classify(&e))?;
            big.truncate(gap + 2 * enc.len() + 3);
            big[gap..gap + enc.len()].copy_from_slice(&enc);
            big[gap + enc.len()..gap + 2 * enc.len()].copy_from_slice(&enc);
            let tail = gap + 2 * enc.len();
            big[tail..].copy_from_slice(&[9, 8, 7]);
            let mut c = DeserializationContext::new(&big);
            c.skip(gap).map_err(|e| sbase::classify(&e))?;
            let a = FarRec::deserialize(&mut c).map_err(|e| sbase::classify(&e))?;
            let b = FarRec::deserialize(&mut c).map_err(|e| sbase::classify(&e))?;
            let rest = c.read_bytes(3).map(|s| s.to_vec()).map_err(|e| sbase::classify(&e))?;
            let end = c.read_u8().is_err();
            Ok((a, b, rest, end))
        });
        match r {
            Call::Ok((a, b, rest, true)) if a == value && b == value && rest == [9, 8, 7] => acc.count("values_beyond_4_gib_read_in_place"),
            other => acc.violation(
                format!("C07|far_offset|{}", if other.is_ok() { "other_value_or_position".to_string() } else { other.class() }),
                J::obj().with("check", J::s("C07")).with("mode", J::s("content")).with("offset", J::u(gap as u64)).with("got", J::s(format!("{other:?}").chars().take(300).collect::<String>())),
            ),
        }
    }
}

pub fn c07(ctx: &mut Ctx, acc: &mut Acc) -> i32 {
    if ctx.extra.get("only").is_none() {
        big_values(ctx, acc, "C07");
        far_offsets(ctx, acc);
    }
    let n_cat = ctx.n(400, 4000);
    let n_der = ctx.n(100, 600);
    let subjects: Vec<String> = ctx.my_subjects(|_| true).iter().map(|s| s.id().to_string()).collect();
    for id in &subjects {
        let s = ctx.reg.get(id).unwrap();
        let ty = s.ty();
        let n = if ctx.is_catalogue(id) { n_cat } else { n_der };
        for idx in 0..n {
            let mut rng = ctx.rng_for(TAG_C07, id, idx);
            let v = gen_val(&ty, &mut rng, &ctx.gen);
            let exp = expected(&ty, &v);
            let Some((_x, bytes)) = encode_case(acc, s, &v) else {
                acc.case(None);
                continue;
            };
            // suffix: empty, one hostile byte, random bytes, or another valid encoding
            let suffix: Vec<u8> = match rng.below(5) {
                0 => vec![],
                1 => vec![*rng.pick(&SUFFIX_BYTES)],
                2 => {
                    let k = 1 + rng.below(64) as usize;
                    rng.bytes(k)
                }
                3 => bytes.clone(),
                _ => {
                    let oid: &String = rng.pick(&subjects[..]);
                    let other = ctx.reg.get(oid).unwrap();
                    let ov = gen_val(&other.ty(), &mut rng, &ctx.gen);
                    match encode_case(acc, other, &ov) {
                        Some((_, b)) => b,
                        None => vec![0xff],
                    }
                }
            };
            let mut buf = bytes.clone();
            buf.extend_from_slice(&suffix);
            acc.case(if suffix.is_empty() { None } else { Some(sig(&[id.as_bytes(), &buf])) });
            let (got, rest) = dec_val_rest(s, &buf);
            let value_ok = match &got {
                Call::Ok(v) => canon(&ty, v).map(|c| c == exp).unwrap_or(false),
                _ => false,
            };
            if !value_ok || rest != suffix.len() {
                let class = if !value_ok {
                    match &got {
                        Call::Ok(_) => "value_mismatch".to_string(),
                        other => other.class(),
                    }
                } else if rest < suffix.len() {
                    "consumed_too_much".to_string()
                } else {
                    "consumed_too_little".to_string()
                };
                acc.violation(
                    format!("C07|{id}|{class}"),
                    replay_decode("C07", id, &buf, "encoding followed by a suffix")
                        .with("encoding_len", J::u(bytes.len() as u64))
                        .with("suffix_len", J::u(suffix.len() as u64))
                        .with("left_unread", J::u(rest as u64))
                        .with("got", J::s(render_call(&got))),
                );
            } else {
                acc.count("exact_consumption");
            }
            // the same value with some of its tuples (map entries included) written by a newer writer: the chunks this
            // reader does not know must be skipped, no more and no less
            if let Some(nb) = newer_tuple_encoding(ctx, TAG_C07, id, idx, &ty, &v) {
                let mut nbuf = nb.clone();
                nbuf.extend_from_slice(&suffix);
                acc.case(Some(sig(&[id.as_bytes(), b"newer", &nbuf])));
                let (got, rest) = dec_val_rest(s, &nbuf);
                let value_ok = match &got {
                    Call::Ok(v) => canon(&ty, v).map(|c| c == exp).unwrap_or(false),
                    _ => false,
                };
                if value_ok && rest == suffix.len() {
                    acc.count("newer_tuples_exact_consumption");
                } else {
                    let class = if !value_ok {
                        match &got {
                            Call::Ok(_) => "value_mismatch".to_string(),
                            other => other.class(),
                        }
                    } else if rest < suffix.len() {
                        "consumed_too_much".to_string()
                    } else {
                        "consumed_too_little".to_string()
                    };
                    acc.violation(
                        format!("C07|{id}|newer_tuples|{class}"),
                        replay_decode("C07", id, &nbuf, "reference encoding with tuples of a newer writer, followed by a suffix")
                            .with("encoding_len", J::u(nb.len() as u64))
                            .with("suffix_len", J::u(suffix.len() as u64))
                            .with("left_unread", J::u(rest as u64))
                            .with("got", J::s(render_call(&got))),
                    );
                }
            }
            if idx == 1 && acc.samples.len() < 6 {
                acc.sample(
                    J::obj()
                        .with("type", J::s(id.clone()))
                        .with("encoding", J::s(short(&bytes)))
                        .with("suffix", J::s(short(&suffix)))
                        .with("left_unread", J::u(rest as u64)),
                );
            }
        }
        acc.count("types");
    }
    // values written one after another into one stream are read back one after another
    let rounds = ctx.n(3000, 50_000);
    for round in 0..rounds {
        if round as usize % ctx.shards != ctx.shard {
            continue;
        }
        let mut rng = ctx.rng_for(TAG_C07 ^ 0x5E9, "stream", round);
        let k = 2 + rng.below(4) as usize;
        let all: Vec<&dyn Subject> = ctx.reg.subjects.iter().map(|b| b.as_ref()).collect();
        let picks: Vec<&dyn Subject> = (0..k).map(|_| *rng.pick(&all)).collect();
        let vals: Vec<Val> = picks.iter().map(|s| gen_val(&s.ty(), &mut rng, &ctx.gen)).collect();
        let made: Vec<Box<dyn Any>> = picks.iter().zip(&vals).map(|(s, v)| s.make(v)).collect();
        let (written, _) = sbase::monitored(None, || {
            let mut sc = desert::SerializationContext::new(Vec::new());
            for (s, x) in picks.iter().zip(&made) {
                s.encode_into(x.as_ref(), &mut sc)?;
            }
            Ok(sc.into_output())
        });
        let Call::Ok(stream) = written else {
            acc.count(&format!("stream_unencodable:{}", written.class()));
            acc.case(None);
            continue;
        };
        acc.case(Some(sig(&[b"stream", &stream])));
        let (read, _) = sbase::monitored(None, || {
            let mut dc = desert::DeserializationContext::new(&stream);
            let mut out = Vec::new();
            for s in &picks {
                let x = s.decode_from(&mut dc)?;
                out.push(s.to_val(x.as_ref()));
            }
            let mut rest = 0u64;
            while desert::BinaryInput::read_u8(&mut dc).is_ok() {
                rest += 1;
            }
            Ok((out, rest))
        });
        let ok = match &read {
            Call::Ok((out, rest)) => {
                *rest == 0
                    && out.iter().zip(picks.iter().zip(&vals)).all(|(got, (s, v))| {
                        canon(&s.ty(), got).map(|c| c == expected(&s.ty(), v)).unwrap_or(false)
                    })
            }
            _ => false,
        };
        if ok {
            acc.count("streams_read_back");
        } else {
            let ids: Vec<String> = picks.iter().map(|s| s.id().to_string()).collect();
            acc.violation(
                format!("C07|stream|{}", read.class()),
                J::obj()
                    .with("check", J::s("C07"))
                    .with("mode", J::s("stream"))
                    .with("subjects", J::Arr(ids.iter().map(|i| J::s(i.clone())).collect()))
                    .with("hex", J::s(hex(&stream)))
                    .with("seed", J::u(ctx.seed))
                    .with("round", J::u(round)),
            );
        }
    }
    crate::evo::c07_cross(ctx, acc);
    0
}

/// Client codecs that step over reserved bytes with `skip` (padding, a field they do not care about): the skipped
/// bytes are part of the encoding, so a cut inside them is a truncation like any other — at the very end of the input,
/// inside a sequence, inside a chunk of an evolved record.
fn skipped_tails(acc: &mut Acc) {
    use desert::{BinaryCodec, BinaryDeserializer, BinaryInput, BinaryOutput, BinarySerializer, DeserializationContext, SerializationContext};
    #[derive(Debug, PartialEq, Clone)]
    struct Frame(u16);
    impl BinarySerializer for Frame {
        fn serialize<O: BinaryOutput>(&self, c: &mut SerializationContext<O>) -> desert::Result<()> {
            c.write_u16(self.0);
            c.write_bytes(&[0xEE; 4]); // reserved
            Ok(())
        }
    }
    impl BinaryDeserializer for Frame {
        fn deserialize(c: &mut DeserializationContext<'_>) -> desert::Result<Self> {
            let v = c.read_u16()?;
            c.skip(4)?;
            Ok(Frame(v))
        }
    }
    #[derive(BinaryCodec, Debug, PartialEq, Clone)]
    #[evolution(FieldAdded("f", Frame(0)))]
    struct Holder {
        a: u8,
        f: Frame,
    }
    fn all_prefixes<T: BinarySerializer + BinaryDeserializer + std::fmt::Debug>(acc: &mut Acc, what: &str, v: &T) {
        let Ok(bytes) = desert::serialize_to_byte_vec(v) else {
            acc.inconclusive(format!("skipped tails: {what} does not encode"));
            return;
        };
        for k in 0..bytes.len() {
            acc.case(Some(sig(&[what.as_bytes(), &bytes[..k]])));
            let (r, _) = sbase::monitored(None, || desert::deserialize::<T>(&bytes[..k]).map(|x| format!("{x:?}")).map_err(|e| sbase::classify(&e)));
            match r {
                Call::Err(_) => acc.count("prefixes_of_skipping_codecs_rejected"),
                other => acc.violation(
                    format!("C08|skipped_tail|{what}|{}", if other.is_ok() { "decoded_ok".to_string() } else { other.class() }),
                    J::obj().with("check", J::s("C08")).with("mode", J::s("content")).with("what", J::s(what)).with("cut", J::u(k as u64)).with("full", J::s(hex(&bytes))).with("got", J::s(format!("{other:?}"))),
                ),
            }
        }
    }
    all_prefixes(acc, "frame", &Frame(0x0102));
    all_prefixes(acc, "vec_of_frames", &vec![Frame(1), Frame(2), Frame(3)]);
    all_prefixes(acc, "tuple_ending_in_a_frame", &(7u8, String::from("x"), Frame(9)));
    all_prefixes(acc, "frame_in_its_own_chunk", &Holder { a: 5, f: Frame(6) });
}

pub fn c08(ctx: &mut Ctx, acc: &mut Acc) -> i32 {
    if ctx.extra.get("only").is_none() {
        big_values(ctx, acc, "C08");
        if ctx.shard == 0 {
            skipped_tails(acc);
        }
    }
    let n_cat = ctx.n(100, 1000);
    let n_der = ctx.n(20, 150);
    let subjects: Vec<String> = ctx.my_subjects(|_| true).iter().map(|s| s.id().to_string()).collect();
    for id in &subjects {
        let s = ctx.reg.get(id).unwrap();
        let ty = s.ty();
        let n = if ctx.is_catalogue(id) { n_cat } else { n_der };
        for idx in 0..n {
            let mut rng = ctx.rng_for(TAG_C08, id, idx);
            let v = gen_val(&ty, &mut rng, &ctx.gen);
            let Some((_x, bytes)) = encode_case(acc, s, &v) else {
                continue;
            };
            if bytes.is_empty() {
                acc.count("empty_encoding_skipped");
                continue;
            }
            // every cut point for encodings ≤ 4 KiB; otherwise the first and last 256 and 256 random ones
            let cuts: Vec<usize> = if bytes.len() <= 4096 {
                (0..bytes.len()).collect()
            } else {
                let mut c: Vec<usize> = (0..256).chain(bytes.len() - 256..bytes.len()).collect();
                for _ in 0..256 {
                    c.push(rng.below(bytes.len() as u64) as usize);
                }
                c
            };
            for k in cuts {
                let prefix = &bytes[..k];
                let got = sbase::dec(s, prefix);
                acc.case(Some(sig(&[id.as_bytes(), prefix])));
                match got {
                    Call::Err(e) => {
                        acc.count("rejected");
                        acc.count(&format!("error:{}", e.variant));
                    }
                    other => {
                        let class = match &other {
                            Call::Ok(_) => "decoded_ok".to_string(),
                            o => o.class(),
                        };
                        acc.violation(
                            format!("C08|{id}|{class}"),
                            replay_decode("C08", id, prefix, "strict prefix of a valid encoding")
                                .with("full_len", J::u(bytes.len() as u64))
                                .with("cut", J::u(k as u64)),
                        );
                    }
                }
            }
            if idx == 0 && acc.samples.len() < 6 {
                acc.sample(J::obj().with("type", J::s(id.clone())).with("encoding", J::s(short(&bytes))).with("cut_points_tried", J::u(bytes.len().min(4096 + 768) as u64)));
            }
            // the same value in the unknown-length sequence form (what a foreign writer or an iterator without exact size
            // hint produces): its strict prefixes must be rejected as well — in particular the one that lacks only the terminator
            if idx % 2 == 0 && ty.any(&mut |t| matches!(t, Ty::Seq(_) | Ty::Set(_) | Ty::Map(_, _) | Ty::Array(_, _)), &mut Vec::new()) {
                let mut form_rng = ctx.rng_for(TAG_C08 ^ 0xF0, id, idx);
                let mut any_unknown = false;
                let mut choose = || {
                    let u = form_rng.chance(2, 3);
                    any_unknown |= u;
                    u
                };
                if let Ok(fb) = ref_encode_forms(&ty, &v, &mut choose) {
                    if any_unknown && fb != bytes && fb.len() <= 2048 {
                        for k in 0..fb.len() {
                            let prefix = &fb[..k];
                            acc.case(Some(sig(&[id.as_bytes(), b"forms", prefix])));
                            match sbase::dec(s, prefix) {
                                Call::Err(_) => acc.count("rejected_unknown_length_form"),
                                other => {
                                    let class = if other.is_ok() { "decoded_ok".to_string() } else { other.class() };
                                    acc.violation(
                                        format!("C08|{id}|unknown_length_form|{class}"),
                                        replay_decode("C08", id, prefix, "strict prefix of a reference encoding with unknown-length sequence forms").with("full_len", J::u(fb.len() as u64)).with("cut", J::u(k as u64)),
                                    );
                                }
                            }
                        }
                    }
                }
            }
            // the same value with tuples / enums written by a newer writer (header + chunks the reader skips): a cut inside
            // the chunks that are only skipped must be noticed too
            if idx % 2 == 1 {
                if let Some(nb) = newer_tuple_encoding(ctx, TAG_C08, id, idx, &ty, &v) {
                    if nb.len() <= 2048 {
                        for k in 0..nb.len() {
                            let prefix = &nb[..k];
                            acc.case(Some(sig(&[id.as_bytes(), b"newer", prefix])));
                            match sbase::dec(s, prefix) {
                                Call::Err(_) => acc.count("rejected_newer_tuples"),
                                other => {
                                    let class = if other.is_ok() { "decoded_ok".to_string() } else { other.class() };
                                    acc.violation(
                                        format!("C08|{id}|newer_tuples|{class}"),
                                        replay_decode("C08", id, prefix, "strict prefix of a reference encoding whose tuples / enums come from a newer writer").with("full_len", J::u(nb.len() as u64)).with("cut", J::u(k as u64)),
                                    );
                                }
                            }
                        }
                    }
                }
            }
        }
        acc.count("types");
    }
    crate::evo::c08_cross(ctx, acc);
    0
}
