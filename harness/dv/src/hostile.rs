//! C05 (decoding untrusted bytes is total) and C06 (the decoder never invents content).
//! Both are driven by the same hostile inputs: exhaustive short byte strings, structure-aware tampering of valid
//! encodings (annotated parse of the reference decoder), random bytes with a varint dictionary.

use crate::common::*;
use crate::rt::encode_case;
use monitors::json::J;
use refmodel::dec::ErrKind;
use refmodel::tamper::{tamper, TAMPER_CLASSES};
use refmodel::{canon, gen_val, ref_annotate, ref_decode, Ty, Val};
use sbase::{dec_hostile, Call, CallStats, Subject};

pub const TAG_C05: u64 = 0xC05;
pub const TAG_C06: u64 = 0xC06;

const DICT: [&[u8]; 10] = [
    &[0xff, 0xff, 0xff, 0xff, 0x0f],
    &[0xfe, 0xff, 0xff, 0xff, 0x0f],
    &[0x01],
    &[0x03],
    &[0x80, 0x80, 0x80, 0x80, 0x00],
    &[0x00],
    &[0xfd, 0xff, 0xff, 0xff, 0x0f],
    &[0xff, 0xff, 0xff, 0xff, 0x07],
    &[0x02],
    &[0x80],
];

/// does the type contain a sequence whose elements may have an empty encoding (no bound on the count is implied
/// by the input length then — known finding D9)
fn has_zero_width_sequence(ty: &Ty) -> bool {
    ty.any(
        &mut |t| match t {
            Ty::Seq(e) | Ty::Set(e) | Ty::Array(e, _) => e.may_encode_empty(),
            Ty::Map(k, v) => k.may_encode_empty() && v.may_encode_empty(),
            _ => false,
        },
        &mut Vec::new(),
    )
}

/// known finding D09 precisely: a type with a sequence of elements that have an empty encoding, and an input whose
/// counts are non-negative; a negative count taken for a size, or a budget exhausted by a type without zero-width
/// sequences, is a different defect
fn is_zero_width_count_case(s: &dyn Subject, bytes: &[u8]) -> bool {
    if !has_zero_width_sequence(&s.ty()) {
        return false;
    }
    // the input must really ask for many zero-width elements (a negative count taken for a size — repaired by 0df90dd —
    // leaves this at 0: the reference stops at the negative count)
    refmodel::ref_zero_width_demand(&s.ty(), bytes) > 1024
}

pub struct Judged {
    pub real: Call<Val>,
    pub stats: CallStats,
}

/// run one hostile decode under all monitors and judge totality (C05)
fn judge_total(acc: &mut Acc, s: &dyn Subject, class: &str, bytes: &[u8], judge: bool) -> Judged {
    let (real, stats) = dec_hostile(s, bytes);
    if !judge {
        return Judged { real, stats };
    }
    let len = bytes.len();
    acc.max("max_steps", stats.steps);
    acc.max("max_single_allocation", stats.alloc.max_single as u64);
    if len > 0 {
        acc.max("max_total_requested_per_input_byte", (stats.alloc.total / len) as u64);
    }
    match &real {
        Call::Ok(_) => acc.count("outcome:Ok"),
        Call::Err(e) => {
            acc.count("outcome:Err");
            acc.count(&format!("error:{}", e.variant));
        }
        Call::Panic(p) => {
            let site = monitors::normalise_site(&p.site);
            let origin = if p.site.contains("/repo/") || p.site.contains("desert") {
                "library"
            } else if p.site.contains("corpus/") || p.site.starts_with("subjects/src/") || p.site.starts_with("fresh/") {
                // code expanded from the library's derive macro is attributed to the line of the #[derive]
                "library_macro_expansion"
            } else if p.site.contains("/registry/") || p.site.contains("/rustc/") || p.site.contains("/library/") {
                "dependency_called_by_library"
            } else {
                "harness"
            };
            if origin == "harness" {
                acc.inconclusive(format!("panic inside the harness at {site}: {}", p.msg));
            } else {
                acc.violation(
                    format!("C05|panic:{site}"),
                    replay_decode("C05", s.id(), bytes, class).with("panic", J::s(format!("{site}: {}", p.msg))).with("origin", J::s(origin)),
                );
            }
        }
        Call::StepBudget(n) => {
            let kind = if is_zero_width_count_case(s, bytes) { "zero_width_elements" } else { "other" };
            acc.violation(
                format!("C05|steps:{kind}|{}", s.id()),
                replay_decode("C05", s.id(), bytes, class).with("sequence_items_yielded", J::u(*n)).with("input_len", J::u(len as u64)),
            );
        }
    }
    let single_budget = 64 * 1024 + 256 * len;
    let total_budget = 256 * 1024 + 1024 * len;
    if stats.alloc.max_single > single_budget || stats.alloc.total > total_budget {
        // a huge count of zero-width elements also costs memory in node-based containers (LinkedList<()>): same finding
        let kind = if stats.steps > len as u64 + 1024 && is_zero_width_count_case(s, bytes) {
            ":zero_width_elements"
        } else if refmodel::ref_backref_cost(&s.ty(), bytes) >= stats.alloc.total / 8 {
            // citations of 1-2 bytes that each stand for a long string: the copies account for the allocation (known finding D26)
            ":back_references"
        } else {
            ""
        };
        acc.violation(
            format!("C05|alloc{kind}|{}", s.id()),
            replay_decode("C05", s.id(), bytes, class)
                .with("largest_single_request", J::u(stats.alloc.max_single as u64))
                .with("total_requested", J::u(stats.alloc.total as u64))
                .with("input_len", J::u(len as u64)),
        );
    }
    Judged { real, stats }
}

/// C06: real Ok(v) implies strict reference Ok(v)
fn judge_content(acc: &mut Acc, check: &str, s: &dyn Subject, ty: &Ty, class: &str, bytes: &[u8], real: &Call<Val>) {
    let reference = ref_decode(ty, bytes);
    if let Err(e) = &reference {
        if e.kind == ErrKind::Unsupported {
            acc.count("model_gap");
            return;
        }
    }
    match (real, &reference) {
        (Call::Ok(v), Ok((rv, _used))) => {
            let a = canon(ty, v);
            let b = canon(ty, rv);
            match (a, b) {
                (Ok(a), Ok(b)) if a == b => {
                    acc.count(&format!("accepted_and_agreed:{class}"));
                    acc.count("accepted_and_agreed");
                }
                (Ok(a), Ok(b)) => acc.violation(
                    format!("{check}|{}|accepted_with_other_value|{class}", s.id()),
                    replay_decode(check, s.id(), bytes, class).with("real", J::s(a.render(300))).with("reference", J::s(b.render(300))),
                ),
                _ => acc.count("model_gap"),
            }
        }
        (Call::Ok(v), Err(e)) => acc.violation(
            format!("{check}|{}|accepted_but_framing_is_inconsistent|{class}|{:?}", s.id(), kind_name(&e.kind)),
            replay_decode(check, s.id(), bytes, class)
                .with("real", J::s(v.render(300)))
                .with("reference_rejects", J::s(format!("{:?}: {}", e.kind, e.msg))),
        ),
        (Call::Err(_), Ok(_)) => {
            acc.count(&format!("rejected_by_library_only:{class}"));
            acc.count("rejected_by_library_only");
        }
        (Call::Err(_), Err(_)) => {
            acc.count(&format!("rejected_by_both:{class}"));
            acc.count("rejected_by_both");
        }
        _ => acc.count("not_a_result"), // panics / budgets are C05's business
    }
}

fn kind_name(k: &ErrKind) -> &'static str {
    match k {
        ErrKind::InputEnded => "InputEnded",
        ErrKind::InvalidTag => "InvalidTag",
        ErrKind::NegativeLength => "NegativeLength",
        ErrKind::InvalidUtf8 => "InvalidUtf8",
        ErrKind::InvalidChar => "InvalidChar",
        ErrKind::InvalidStringId => "InvalidStringId",
        ErrKind::InvalidCtor => "InvalidCtor",
        ErrKind::TransientCtor => "TransientCtor",
        ErrKind::CountMismatch => "CountMismatch",
        ErrKind::Framing => "Framing",
        ErrKind::Domain => "Domain",
        ErrKind::FieldRemoved(_) => "FieldRemoved",
        ErrKind::FieldMissing(_) => "FieldMissing",
        ErrKind::NonOptionalNone(_) => "NonOptionalNone",
        ErrKind::Unsupported => "Unsupported",
    }
}

struct Plan {
    exhaustive_len: usize,
    tamper_values: u64,
    tampers_per_value: u64,
    random: u64,
}

fn hostile_for_subject(ctx: &mut Ctx, acc: &mut Acc, id: &str, plan: &Plan, c05: bool, c06: bool) {
    let check_name = ctx.check.clone();
    let s = ctx.reg.get(id).unwrap();
    let ty = s.ty();
    let tag = if c05 { TAG_C05 } else { TAG_C06 };
    // a tree on which one type exhausts the step budget on every other input would take hours: after 64 exhaustions
    // for one type the point is made, its remaining inputs are skipped (and counted)
    let mut budget_hits = 0u32;
    let mut visit = |ctx_crumb: &mut monitors::Breadcrumb, acc: &mut Acc, class: &str, bytes: &[u8], crumb: bool| {
        if budget_hits >= 64 {
            acc.count("inputs_skipped_after_repeated_budget_exhaustion");
            return;
        }
        if crumb && ctx_crumb.active() {
            let shown = if bytes.len() > 4096 { &bytes[..4096] } else { bytes };
            ctx_crumb.set(&format!(
                "{{\"check\":\"{}\",\"subject\":{},\"what\":\"{}\",\"len\":{},\"hex\":\"{}\"}}",
                check_name,
                J::s(id).to_string(),
                class,
                bytes.len(),
                refmodel::hex(shown)
            ));
        }
        let j = judge_total(acc, s, class, bytes, c05);
        if matches!(j.real, Call::StepBudget(_)) {
            budget_hits += 1;
        }
        if c06 {
            judge_content(acc, &check_name, s, &ty, class, bytes, &j.real);
        }
        let nontrivial = if c05 { true } else { j.real.is_ok() };
        acc.case(if nontrivial { Some(sig(&[id.as_bytes(), bytes])) } else { None });
        if acc.samples.len() < 6 && class != "exhaustive" && class != "random" && !acc.samples.iter().any(|s| s.get("class").and_then(|c| c.as_str()) == Some(class)) {
            acc.sample(
                J::obj()
                    .with("type", J::s(id))
                    .with("class", J::s(class))
                    .with("input", J::s(short(bytes)))
                    .with("library", J::s(j.real.class()))
                    .with("largest_single_allocation", J::u(j.stats.alloc.max_single as u64))
                    .with("sequence_items", J::u(j.stats.steps)),
            );
        }
    };

    // (a) exhaustive short inputs
    if plan.exhaustive_len >= 1 {
        visit(&mut ctx.crumb, acc, "exhaustive", &[], true);
        for b0 in 0..=255u8 {
            visit(&mut ctx.crumb, acc, "exhaustive", &[b0], true);
            if plan.exhaustive_len >= 2 {
                for b1 in 0..=255u8 {
                    visit(&mut ctx.crumb, acc, "exhaustive", &[b0, b1], b1 == 0);
                    if plan.exhaustive_len >= 3 {
                        for b2 in 0..=255u8 {
                            visit(&mut ctx.crumb, acc, "exhaustive", &[b0, b1, b2], false);
                        }
                    }
                }
            }
        }
        acc.count("types_with_exhaustive_short_inputs");
    }

    // (b) structure-aware tampering of valid encodings
    let mut prev: Vec<u8> = vec![0];
    for vi in 0..plan.tamper_values {
        let mut rng = ctx.rng_for(tag, id, vi);
        let v = gen_val(&ty, &mut rng, &ctx.gen);
        let Some((_x, bytes)) = encode_case(acc, s, &v) else { continue };
        if bytes.len() > 64 * 1024 {
            continue;
        }
        let annots = match ref_annotate(&ty, &bytes) {
            Ok((_, _, a)) => a,
            Err(_) => Vec::new(), // emitted bytes the reference rejects are C04's finding
        };
        for _ in 0..plan.tampers_per_value {
            if let Some((class, t)) = tamper(&bytes, &annots, &prev, &mut rng) {
                visit(&mut ctx.crumb, acc, class, &t, true);
                acc.count(&format!("tampered:{class}"));
            }
        }
        // truncation at a random point is a tampering too (all cut points are C08's)
        if !bytes.is_empty() {
            let k = rng.below(bytes.len() as u64) as usize;
            visit(&mut ctx.crumb, acc, "truncate", &bytes[..k], true);
        }
        prev = bytes;
    }

    // (b2) well-framed data whose numbers lie outside the value domain of the type (reference encoding of wild values)
    if ty.any(&mut |t| matches!(t, Ty::Weekday | Ty::Month | Ty::FixedOffset | Ty::Tz | Ty::DateTimeUtc | Ty::NaiveDate | Ty::NaiveTime | Ty::NaiveDateTime | Ty::DateTimeLocal | Ty::DateTimeFixed | Ty::DateTimeTz | Ty::Duration | Ty::BigDecimal), &mut Vec::new()) {
        let wild = refmodel::GenCtx { out_of_domain: true, allow_large: false, tz_names: ctx.gen.tz_names.clone(), ..refmodel::GenCtx::default() };
        for wi in 0..plan.tamper_values * 4 {
            let mut rng = ctx.rng_for(tag ^ 0xD0, id, wi);
            let v = refmodel::gen_raw(&ty, &mut rng, &wild);
            if let Ok(bytes) = refmodel::ref_encode(&ty, &v) {
                if bytes.len() <= 64 * 1024 {
                    visit(&mut ctx.crumb, acc, "out_of_domain", &bytes, true);
                    acc.count("tampered:out_of_domain");
                }
            }
        }
    }

    // (b2') wall-clock times next to daylight-saving transitions, as a foreign writer in another zone would send them:
    // under a process zone with daylight saving (lanes with TZ set) some of them do not exist locally and some exist twice
    if ty.any(&mut |t| matches!(t, Ty::DateTimeLocal), &mut Vec::new()) && std::env::var("TZ").map(|z| z != "UTC").unwrap_or(false) {
        let edges = refmodel::GenCtx { dst_edges: true, allow_large: false, tz_names: ctx.gen.tz_names.clone(), ..refmodel::GenCtx::default() };
        for wi in 0..plan.tamper_values * 8 {
            let mut rng = ctx.rng_for(tag ^ 0xD5, id, wi);
            let v = refmodel::gen_raw(&ty, &mut rng, &edges);
            if let Ok(bytes) = refmodel::ref_encode(&ty, &v) {
                if bytes.len() <= 64 * 1024 {
                    let before = acc.counter("error:DeserializationFailure");
                    visit(&mut ctx.crumb, acc, "local_time_next_to_a_transition", &bytes, true);
                    acc.count("tampered:local_time_next_to_a_transition");
                    if acc.counter("error:DeserializationFailure") > before {
                        acc.count("local_times_the_zone_cannot_place_rejected");
                    }
                }
            }
        }
    }

    // (b3) tuples and version-0 records dressed up as version-1 data whose header names one of the reader's own fields
    // as removed (no writer of this library produces that for a tuple; a foreign or hostile one can)
    let fields: Option<Vec<(String, Ty, bool)>> = match ty.resolved() {
        Ty::Tuple(ts) => Some(ts.iter().enumerate().map(|(i, t)| (format!("_{i}"), t.clone(), false)).collect()),
        Ty::Record(r) if r.steps.is_empty() && r.fields.iter().all(|f| !f.transient) => Some(r.fields.iter().map(|f| (f.name.clone(), f.ty.clone(), f.opt_by_name)).collect()),
        _ => None,
    };
    if let Some(fields) = fields {
        for vi in 0..plan.tamper_values.min(6) {
            let mut rng = ctx.rng_for(tag ^ 0xB3, id, vi);
            let v = gen_val(&ty, &mut rng, &ctx.gen);
            let xs = match &v {
                Val::Tuple(xs) | Val::Rec(xs) => xs.clone(),
                _ => continue,
            };
            let mut chunk0 = Vec::new();
            let mut ok = xs.len() == fields.len();
            for ((_, fty, _), x) in fields.iter().zip(&xs) {
                match refmodel::ref_encode(fty, x) {
                    Ok(b) => chunk0.extend_from_slice(&b),
                    Err(_) => ok = false,
                }
            }
            if !ok || chunk0.len() > 16 * 1024 {
                continue;
            }
            for (name, _, _) in fields.iter().take(12) {
                let mut bytes = vec![1u8];
                bytes.extend_from_slice(&refmodel::enc::vi_bytes(chunk0.len() as i32));
                bytes.extend_from_slice(&refmodel::enc::vi_bytes(-2));
                bytes.extend_from_slice(&refmodel::enc::vi_bytes(name.len() as i32));
                bytes.extend_from_slice(name.as_bytes());
                bytes.extend_from_slice(&chunk0);
                visit(&mut ctx.crumb, acc, "own_field_named_as_removed", &bytes, true);
                acc.count("tampered:own_field_named_as_removed");
            }
        }
    }

    // (c) random bytes with the varint dictionary
    for ri in 0..plan.random {
        let mut rng = ctx.rng_for(tag ^ 0xAA, id, ri);
        let long = rng.chance(1, 10);
        let n = 3 + rng.below(if long { 400 } else { 24 }) as usize;
        let mut bytes = rng.bytes(n);
        let k = rng.below(4);
        for _ in 0..k {
            let d = *rng.pick(&DICT);
            let at = rng.below(bytes.len() as u64) as usize;
            let m = d.len().min(bytes.len() - at);
            bytes[at..at + m].copy_from_slice(&d[..m]);
        }
        // a plausible start keeps the decoder going past the first byte
        if rng.chance(1, 2) {
            bytes[0] = rng.below(3) as u8;
        }
        visit(&mut ctx.crumb, acc, "random", &bytes, true);
    }
}

/// Readers with an error-swallowing hand-written codec (`Tolerant<T>` fields inside evolved records and variants):
/// the library is handed back control after one of its own nested decodes has failed.  Inputs are valid encodings of
/// the paired writer (same, older and newer version of the lenient field), tampered; each is copied into an
/// allocation of exactly its length, so that the sanitizer of the lane sees any read behind it.  Only totality (C05)
/// and memory safety (the lane's sanitizer, C19) are judged: what a lenient reader makes of damaged data is its own
/// business.
pub fn tolerant_workload(ctx: &mut Ctx, acc: &mut Acc, judge: bool, content: bool) {
    let check_name = ctx.check.clone();
    let n_pairs = ctx.reg.tolerant.len();
    for pi in 0..n_pairs {
        if pi % ctx.shards != ctx.shard {
            continue;
        }
        let (writer_id, reader_id) = {
            let (w, r) = &ctx.reg.tolerant[pi];
            (w.clone(), r.id().to_string())
        };
        let Some(w) = ctx.reg.get(&writer_id) else {
            acc.inconclusive(format!("tolerant reader {reader_id}: writer {writer_id} is not registered"));
            continue;
        };
        let r = ctx.reg.tolerant[pi].1.as_ref();
        let wty = w.ty();
        let mut prev: Vec<u8> = vec![0];
        let mut budget_hits = 0u32;
        // under the interpreter a decode costs a tenth of a second and more: a handful of values per pair
        let n_values = if cfg!(miri) { 3 } else { ctx.n(150, 4000) };
        for vi in 0..n_values {
            let mut rng = ctx.rng_for(0x701E, &reader_id, vi ^ ((pi as u64) << 40));
            let v = gen_val(&wty, &mut rng, &ctx.gen);
            let Some((_x, bytes)) = encode_case(acc, w, &v) else { continue };
            if bytes.len() > 16 * 1024 {
                continue;
            }
            let annots = ref_annotate(&wty, &bytes).map(|(_, _, a)| a).unwrap_or_default();
            let mut inputs: Vec<(&'static str, Vec<u8>)> = vec![("valid", bytes.clone())];
            for _ in 0..(if cfg!(miri) { 8 } else { 24 }) {
                if let Some((class, t)) = tamper(&bytes, &annots, &prev, &mut rng) {
                    inputs.push((class, t));
                }
            }
            if !bytes.is_empty() {
                let k = rng.below(bytes.len() as u64) as usize;
                inputs.push(("truncate", bytes[..k].to_vec()));
            }
            for (class, t) in inputs {
                if budget_hits >= 64 {
                    acc.count("inputs_skipped_after_repeated_budget_exhaustion");
                    continue;
                }
                let exact: Box<[u8]> = t.as_slice().into();
                if ctx.crumb.active() {
                    ctx.crumb.set(&format!(
                        "{{\"check\":\"{}\",\"subject\":{},\"what\":\"tolerant:{}\",\"len\":{},\"hex\":\"{}\"}}",
                        ctx.check,
                        J::s(&reader_id).to_string(),
                        class,
                        exact.len(),
                        refmodel::hex(&exact)
                    ));
                }
                let j = judge_total(acc, r, class, &exact, judge);
                if matches!(j.real, Call::StepBudget(_)) {
                    budget_hits += 1;
                }
                if content {
                    // what lies in other chunk windows than the lenient field is the format's business whatever the client
                    // codec did: an accepted input must give exactly those values (the lenient position itself is never compared)
                    let before = acc.counters.get("accepted_and_agreed").copied().unwrap_or(0);
                    judge_content(acc, &check_name, r, &r.ty(), class, &exact, &j.real);
                    if acc.counters.get("accepted_and_agreed").copied().unwrap_or(0) > before {
                        acc.count("tolerant:other_chunks_as_the_format_assigns");
                    }
                }
                match &j.real {
                    Call::Ok(v) if v.render(1 << 16).contains("<lenient:failed>") => acc.count("tolerant:nested_failure_survived"),
                    Call::Ok(_) => acc.count("tolerant:decoded_in_full"),
                    _ => acc.count("tolerant:rejected"),
                }
                acc.case(Some(sig(&[reader_id.as_bytes(), &exact])));
                acc.count(&format!("tolerant:{class}"));
            }
            prev = bytes;
        }
        acc.count("tolerant_reader_writer_pairs");
    }
}

/// `DeepRec` data in which every level is written as version 1 with the steps [chunk 0, FieldRemoved(name)]: the
/// outermost header spells the name out (`name_len` bytes), every inner one cites it by id (one byte)
fn header_name_at_every_level(name_len: usize, depth: usize) -> Vec<u8> {
    use refmodel::enc::vi_bytes;
    // innermost first: chunk 0 = v (1 byte) + next tag
    let mut inner: Vec<u8> = Vec::new(); // encoding of the record below, empty for the innermost level
    for level in (0..depth).rev() {
        let mut chunk0 = vec![(level % 251) as u8];
        if inner.is_empty() {
            chunk0.push(0);
        } else {
            chunk0.push(1);
            chunk0.extend_from_slice(&inner);
        }
        let mut rec = vec![1u8];
        rec.extend_from_slice(&vi_bytes(chunk0.len() as i32));
        rec.extend_from_slice(&vi_bytes(-2));
        if level == 0 {
            rec.extend_from_slice(&vi_bytes(name_len as i32));
            rec.extend(std::iter::repeat(b'n').take(name_len));
        } else {
            rec.push(0x01); // vi(-1): string id 1
        }
        rec.extend_from_slice(&chunk0);
        inner = rec;
    }
    inner
}

/// inputs that are always run: the witnesses of known findings and of repaired defects
fn pinned_cases(ctx: &mut Ctx, acc: &mut Acc, c05: bool, c06: bool) {
    if ctx.shard != 0 {
        return;
    }
    let cases: Vec<(&str, Vec<u8>)> = vec![
        // D9: sequences of zero-width elements — the count is not bounded by the input
        ("Vec<()>", vec![0xfe, 0xff, 0xff, 0xff, 0x0f]),
        ("Vec<Vec<()>>", vec![0x02, 0xfe, 0xff, 0xff, 0xff, 0x0f]),
        ("BTreeMap<u8, LinkedList<()>>", vec![0x02, 0x00, 0x07, 0xfe, 0xff, 0xff, 0xff, 0x0f]),
        // negative counts other than -1
        ("Vec<()>", vec![0x03]),
        ("Vec<()>", vec![0xff, 0xff, 0xff, 0xff, 0x0f]),
        ("Vec<i8>", vec![0x03]),
        // D5: lengths that do not fit
        ("String", vec![0x01, 0x00]),
        ("String", vec![0xff, 0xff, 0xff, 0xff, 0x0f]),
        ("Vec<u8>", vec![0xff, 0xff, 0xff, 0xff, 0x0f, 0x00]),
        ("Bytes", vec![0xff, 0xff, 0xff, 0xff, 0x0f]),
        ("DeduplicatedString", vec![0xff, 0xff, 0xff, 0xff, 0x0f]),
        ("DeduplicatedString", vec![0x01]),
        // D7 / D8: value-domain arithmetic
        ("Duration", vec![0xff; 12]),
        ("Weekday", vec![0x80]),
        ("(u8,)", vec![0x01, 0x01, 0x80]),
        ("(u8,)", vec![0x01, 0x01, 0x01]),
        // D2 / D3: arrays
        ("[u8; 32]", vec![0x04, 1, 2, 3, 4]),
        ("[u8; 3]", vec![0x00]),
        ("[String; 3]", vec![0x02, 0x02, b'a']),
        ("[(u8, String); 2]", vec![0x06]),
        // D4: constructor index beyond the declaration
        ("DeepEnum", vec![0x00, 0x09]),
        ("DeepEnum", vec![0x00, 0xff, 0xff, 0xff, 0xff, 0x0f]),
        // D26: one long string and many citations of it (a deduplicated string as element; a header name at every level of a
        // recursive record)
        ("Vec<DeduplicatedString>", {
            let (n, m) = (20_000usize, 4_000usize);
            let mut b = refmodel::enc::vi_bytes((m + 1) as i32);
            b.extend_from_slice(&refmodel::enc::vi_bytes(n as i32));
            b.extend(std::iter::repeat(b'x').take(n));
            b.extend(std::iter::repeat(0x01u8).take(m));
            b
        }),
        ("DeepRec", header_name_at_every_level(32 * 1024, 1500)),
        // a name removed and re-added: data of the version in between (header: chunk 0 of 4 bytes, `x` removed) reads with the default
        ("ReusedName", vec![0x01, 0x08, 0x03, 0x02, b'x', 0, 0, 0, 5]),
        ("ReusedNameOpt", vec![0x01, 0x08, 0x03, 0x02, b'x', 0, 0, 0, 5]),
        // … and of the version before the removal
        ("ReusedName", vec![0x00, 0, 0, 0, 5, 0, 0, 0, 6]),
    ];
    for (id, bytes) in cases {
        if cfg!(miri) && bytes.len() > 4096 {
            continue; // the amplification witnesses move hundreds of megabytes: not under the interpreter
        }
        if ctx.reg.get(id).is_none() {
            acc.inconclusive(format!("pinned case: subject {id} missing from the catalogue"));
            continue;
        }
        ctx.crumb(id, "pinned", &bytes);
        let s = ctx.reg.get(id).unwrap();
        let j = judge_total(acc, s, "pinned", &bytes, c05);
        if c06 {
            judge_content(acc, &ctx.check.clone(), s, &s.ty(), "pinned", &bytes, &j.real);
        }
        acc.case(Some(sig(&[id.as_bytes(), &bytes])));
        acc.count("pinned_cases");
    }
}

pub fn c05(ctx: &mut Ctx, acc: &mut Acc) -> i32 {
    // the local-time lane (TZ set to a zone with daylight saving by the driver): only types containing DateTime<Local>
    let local_lane = ctx.extra.get("only").map(|v| v == "local").unwrap_or(false);
    if !local_lane {
        pinned_cases(ctx, acc, true, false);
    }
    let mut ids: Vec<String> = ctx
        .my_subjects(|s| !local_lane || s.ty().any(&mut |t| matches!(t, Ty::DateTimeLocal), &mut Vec::new()))
        .iter()
        .map(|s| s.id().to_string())
        .collect();
    if ctx.shard == 0 && !ctx.only_fresh() && !local_lane {
        ids.extend(ctx.reg.hostile_only.iter().map(|s| s.id().to_string()));
    }
    let core_only = ctx.extra.get("exhaustive3").map(|v| v == "1").unwrap_or(false);
    for id in ids {
        let cat = ctx.is_catalogue(&id);
        let plan = if core_only {
            // thorough, rel lane: all 3-byte inputs for the systematic part of the catalogue
            if !(ctx.has_tag(&id, "cat:A") || ctx.has_tag(&id, "cat:B")) {
                continue;
            }
            Plan { exhaustive_len: 3, tamper_values: 0, tampers_per_value: 0, random: 0 }
        } else {
            Plan {
                exhaustive_len: 2,
                tamper_values: ctx.n(if cat { 100 } else { 40 }, if cat { 2500 } else { 600 }),
                tampers_per_value: 20,
                random: ctx.n(500, 10_000),
            }
        };
        hostile_for_subject(ctx, acc, &id, &plan, true, false);
        acc.count("types");
    }
    if !core_only && !local_lane {
        crate::inputs::hostile_ops(ctx, acc, "C05");
        tolerant_workload(ctx, acc, true, false);
    }
    0
}

/// Inputs of 2^32 bytes and more (zero pages that are never touched, apart from a header at the front): sizes and
/// offsets that only misbehave when 32 bits are not enough.  Native lanes only; reported without the input's bytes.
fn huge_inputs(ctx: &mut Ctx, acc: &mut Acc) {
    if ctx.shard != 0 || ctx.only_fresh() || !matches!(ctx.lane.as_str(), "dbg" | "rel") || cfg!(miri) {
        return;
    }
    let n = (1usize << 32) + 4096;
    // (a) a record header with a negative chunk size (vi(-3) = 5): must be rejected however much input follows
    // stored version 1 = two header entries: chunk 0 of size -3, then an empty step; the fields would be read from the zero
    // bytes that follow if the size were taken for 2^32 - 3
    let mut targets: Vec<String> = vec!["ReusedName".to_string(), "DedupV0".to_string()];
    targets.extend(
        ctx.reg
            .subjects
            .iter()
            .filter(|s| matches!(s.ty().resolved(), Ty::Tuple(ts) if ts.iter().all(|t| matches!(t, Ty::U8 | Ty::I8 | Ty::U16 | Ty::I16 | Ty::U32 | Ty::I32 | Ty::U64 | Ty::I64 | Ty::Bool))))
            .take(3)
            .map(|s| s.id().to_string()),
    );
    for id in targets.iter().map(|s| s.as_str()) {
        let head = vec![1u8, 5, 0, 42, 43];
        let Some(s) = ctx.reg.get(id) else { continue };
        let Some(mut big) = sbase::zeroed(n) else {
            acc.count("skipped_for_lack_of_address_space");
            continue;
        };
        big[..head.len()].copy_from_slice(&head);
        acc.case(Some(sig(&[id.as_bytes(), &head, b"huge"])));
        let (real, _) = dec_hostile(s, &big);
        let reference = ref_decode(&s.ty(), &big);
        match (&real, &reference) {
            (Call::Err(_), Err(_)) => acc.count("huge_inputs_with_a_negative_chunk_size_rejected"),
            (other, r) => acc.violation(
                format!("C06|{id}|negative_chunk_size_in_a_huge_input|{}", if other.is_ok() { "accepted".to_string() } else { other.class() }),
                J::obj()
                    .with("check", J::s("C06"))
                    .with("mode", J::s("content"))
                    .with("subject", J::s(id))
                    .with("input", J::s(format!("{} followed by zero bytes up to a length of 2^32 + 4096", refmodel::hex(&head))))
                    .with("real", J::s(other.class()))
                    .with("reference", J::s(format!("{:?}", r.as_ref().map(|(v, _)| v.render(80)).map_err(|e| e.msg.clone())))),
            ),
        }
    }
}

pub fn c06(ctx: &mut Ctx, acc: &mut Acc) -> i32 {
    pinned_cases(ctx, acc, false, true);
    huge_inputs(ctx, acc);
    let mut ids: Vec<String> = ctx.my_subjects(|_| true).iter().map(|s| s.id().to_string()).collect();
    if ctx.shard == 0 && !ctx.only_fresh() {
        ids.extend(ctx.reg.hostile_only.iter().map(|s| s.id().to_string()));
    }
    for id in ids {
        let cat = ctx.is_catalogue(&id);
        let plan = Plan {
            exhaustive_len: 2,
            tamper_values: ctx.n(if cat { 150 } else { 100 }, if cat { 4000 } else { 1500 }),
            tampers_per_value: 30,
            random: ctx.n(200, 4_000),
        };
        hostile_for_subject(ctx, acc, &id, &plan, false, true);
        acc.count("types");
    }
    // lenient readers: the fields in other chunks than the lenient one must still be what the format assigns
    tolerant_workload(ctx, acc, false, true);
    let _ = TAMPER_CLASSES;
    0
}

/// C19 part 2: the decode paths implemented with unsafe code (byte vectors, `Bytes`, arrays, big integers) and the types
/// that were repaired (fixed-size arrays): valid, wrong-count, truncated and tampered data; every Ok value is fully
/// traversed (to_val) and compared with the strict reference decoder. Meant for the sanitizer lanes and Miri.
pub fn c19(ctx: &mut Ctx, acc: &mut Acc) -> i32 {
    pinned_cases(ctx, acc, false, true);
    let ids: Vec<String> = ctx
        .my_subjects(|s| s.ty().any(&mut |t| matches!(t, Ty::Array(_, _) | Ty::ByteArray(_) | Ty::Bytes | Ty::BigInt), &mut Vec::new()))
        .iter()
        .map(|s| s.id().to_string())
        .collect();
    for id in ids {
        let plan = Plan {
            exhaustive_len: if cfg!(miri) { 0 } else { 2 },
            tamper_values: ctx.n(60, 1500),
            tampers_per_value: if cfg!(miri) { 4 } else { 20 },
            random: ctx.n(100, 3000),
        };
        // budgets and panics are C05's business: here the monitors are the sanitizer of the lane and the content oracle
        hostile_for_subject(ctx, acc, &id, &plan, false, true);
        // valid data through the same paths
        let s = ctx.reg.get(&id).unwrap();
        let ty = s.ty();
        for idx in 0..ctx.n(60, 1500) {
            let mut rng = ctx.rng_for(0xC19, &id, idx);
            let v = gen_val(&ty, &mut rng, &ctx.gen);
            let Some((_x, bytes)) = encode_case(acc, s, &v) else { continue };
            let j = judge_total(acc, s, "valid", &bytes, false);
            judge_content(acc, "C19", s, &ty, "valid", &bytes, &j.real);
            acc.case(Some(sig(&[id.as_bytes(), &bytes])));
        }
        acc.count("types_with_unsafe_decode_paths");
    }
    // the library regaining control after a nested failure, under the sanitizer of the lane
    tolerant_workload(ctx, acc, false, true);
    0
}

/// C05 (f): one hostile decode in a process of its own — for inputs that may end in an allocation failure, which is an
/// abort and cannot be caught: prints the outcome and the allocation statistics, the driver judges
pub fn oneshot(ctx: &mut Ctx) -> i32 {
    let subject = ctx.extra.get("subject").cloned().unwrap_or_default();
    let hex_in = ctx.extra.get("hex").cloned().unwrap_or_default();
    let bytes: Vec<u8> = (0..hex_in.len() / 2).filter_map(|i| u8::from_str_radix(&hex_in[2 * i..2 * i + 2], 16).ok()).collect();
    ctx.crumb(&subject, "oneshot", &bytes);
    let Some(s) = ctx.reg.get(&subject) else {
        println!("ONESHOT unknown subject {subject}");
        return 2;
    };
    let (real, stats) = dec_hostile(s, &bytes);
    println!(
        "ONESHOT subject={subject} input_len={} outcome={} largest_single_request={} total_requested={} steps={}",
        bytes.len(),
        real.class().replace(' ', "_"),
        stats.alloc.max_single,
        stats.alloc.total,
        stats.steps
    );
    0
}

/// C05 (e): one nesting-depth probe, run in its own process on a thread with the default 8 MiB stack
pub fn depthprobe(ctx: &mut Ctx) -> i32 {
    let subject = ctx.extra.get("subject").cloned().unwrap_or_else(|| "DeepRec".to_string());
    let depth: usize = ctx.extra.get("depth").and_then(|d| d.parse().ok()).unwrap_or(100);
    let mut bytes = Vec::with_capacity(depth * 3 + 8);
    match subject.as_str() {
        "DeepRec" => {
            for _ in 0..depth {
                bytes.extend_from_slice(&[0, 7, 1]);
            }
            bytes.extend_from_slice(&[0, 7, 0]);
        }
        "DeepVec" => {
            for _ in 0..depth {
                bytes.extend_from_slice(&[0, 2]);
            }
            bytes.extend_from_slice(&[0, 0]);
        }
        "DeepEnum" => {
            for _ in 0..depth {
                bytes.extend_from_slice(&[0, 1, 0]);
            }
            bytes.extend_from_slice(&[0, 0, 0, 0, 9]);
        }
        other => {
            println!("DEPTHPROBE unknown subject {other}");
            return 2;
        }
    }
    ctx.crumb(&subject, &format!("depth {depth}"), &bytes[..bytes.len().min(64)]);
    let Some(s) = ctx.reg.get(&subject) else {
        println!("DEPTHPROBE unknown subject {subject}");
        return 2;
    };
    let outcome = std::thread::scope(|sc| {
        std::thread::Builder::new()
            .stack_size(8 << 20)
            .spawn_scoped(sc, || {
                let (c, _) = sbase::monitored(None, || {
                    let v = s.decode(&bytes)?;
                    std::mem::forget(v); // releasing a deep value is the caller's recursion, not the decoder's
                    Ok(())
                });
                c.class()
            })
            .expect("spawn")
            .join()
            .unwrap_or_else(|_| "thread panicked".to_string())
    });
    println!("DEPTHPROBE subject={subject} depth={depth} input_len={} outcome={outcome}", bytes.len());
    if outcome == "Ok" {
        0
    } else {
        1
    }
}
