//! `dv replay FILE` — re-execute exactly one recorded case (any lane) and print what the real code and the
//! reference model do with it.

use crate::common::*;
use monitors::json::J;
use refmodel::{canon, gen_val, ref_decode, unhex};
use sbase::{dec_hostile, dec_val_rest, Call};

fn show(c: &Call<refmodel::Val>) -> String {
    match c {
        Call::Ok(v) => format!("Ok({})", v.render(600)),
        Call::Err(e) => format!("Err({}: {})", e.variant, e.payload),
        Call::Panic(p) => format!("PANIC at {} — {}", monitors::normalise_site(&p.site), p.msg),
        Call::StepBudget(n) => format!("STEP BUDGET EXCEEDED ({n} sequence items)"),
    }
}

pub fn run(ctx: &mut Ctx, positional: &[String]) -> i32 {
    let Some(path) = positional.first() else {
        eprintln!("usage: dv replay FILE");
        return 2;
    };
    let text = std::fs::read_to_string(path).expect("read replay file");
    let j = J::parse(&text).expect("replay file is JSON");
    // a replay file is either one detail object or {signature, detail}
    let d = j.get("detail").cloned().unwrap_or(j.clone());
    let mode = d.get("mode").and_then(|m| m.as_str()).unwrap_or("decode").to_string();
    println!("replay {} mode={mode}", d.get("check").and_then(|c| c.as_str()).unwrap_or("?"));
    match mode.as_str() {
        "decode" => {
            let id = d.get("subject").and_then(|s| s.as_str()).expect("subject");
            let bytes = unhex(d.get("hex").and_then(|s| s.as_str()).expect("hex"));
            let Some(s) = ctx.reg.get(id) else {
                eprintln!("unknown subject {id} (fresh subjects need the same VERIF_FRESH_DIR build)");
                return 2;
            };
            let ty = s.ty();
            println!("type     : {id}");
            println!("input    : {} ({} bytes)", short(&bytes), bytes.len());
            let (real, stats) = dec_hostile(s, &bytes);
            println!("real     : {}", show(&real));
            println!("           largest single allocation {} B, total requested {} B, {} sequence items", stats.alloc.max_single, stats.alloc.total, stats.steps);
            let (_, rest) = dec_val_rest(s, &bytes);
            println!("unread   : {rest} bytes left after decoding through an explicit context");
            match ref_decode(&ty, &bytes) {
                Ok((v, used)) => println!(
                    "reference: Ok({}) consuming {used}",
                    canon(&ty, &v).map(|c| c.render(600)).unwrap_or_else(|e| format!("{e:?}"))
                ),
                Err(e) => println!("reference: Err({:?}: {})", e.kind, e.msg),
            }
            0
        }
        "value" => {
            let id = d.get("subject").and_then(|s| s.as_str()).expect("subject");
            let seed = d.get("seed").and_then(|s| s.as_u64()).expect("seed");
            let tag = d.get("tag").and_then(|s| s.as_u64()).expect("tag");
            let idx = d.get("idx").and_then(|s| s.as_u64()).expect("idx");
            let Some(s) = ctx.reg.get(id) else {
                eprintln!("unknown subject {id}");
                return 2;
            };
            let ty = s.ty();
            ctx.seed = seed;
            let mut rng = ctx.rng_for(tag, id, idx);
            let v = gen_val(&ty, &mut rng, &ctx.gen);
            println!("type     : {id}");
            println!("value    : {}", v.render(600));
            let x = s.make(&v);
            for sink in sbase::ALL_SINKS {
                let c = sbase::enc(s, x.as_ref(), sink);
                match c {
                    Call::Ok(b) => println!("encode {sink:?}: Ok({})", short(&b)),
                    other => println!("encode {sink:?}: {}", other.class()),
                }
            }
            match refmodel::ref_encode(&ty, &v) {
                Ok(b) => println!("reference: {}", short(&b)),
                Err(e) => println!("reference: {e:?}"),
            }
            0
        }
        other => {
            println!("no generic replay for mode {other}; the record itself:\n{}", d.to_string());
            0
        }
    }
}
