//! C10 — reference tracking.  A harness-owned codec written only against the public API, in safe Rust: nodes are
//! `Rc<Node>` built with `Rc::new_cyclic`, identity is the address of the heap node on both sides.

use crate::common::*;
use desert::{BinaryDeserializer, BinaryInput, BinaryOutput, BinarySerializer, DeserializationContext, SerializationContext};
use monitors::json::J;
use refmodel::enc::{vi_bytes, vu_bytes};
use refmodel::{hex, Rng};
use sbase::{classify, monitored, Call, ErrClass};
use std::cell::RefCell;
use std::rc::{Rc, Weak};

pub struct Node {
    me: Weak<Node>,
    label: u32,
    edges: RefCell<Vec<Rc<Node>>>,
}

fn new_node(label: u32) -> Rc<Node> {
    Rc::new_cyclic(|w| Node { me: w.clone(), label, edges: RefCell::new(Vec::new()) })
}

/// a graph given as adjacency lists; node 0 is the root
#[derive(Clone, Debug, PartialEq)]
pub struct Shape {
    pub labels: Vec<u32>,
    pub edges: Vec<Vec<usize>>,
}

fn build(shape: &Shape) -> Vec<Rc<Node>> {
    let nodes: Vec<Rc<Node>> = shape.labels.iter().map(|l| new_node(*l)).collect();
    for (i, es) in shape.edges.iter().enumerate() {
        for t in es {
            nodes[i].edges.borrow_mut().push(nodes[*t].clone());
        }
    }
    nodes
}

/// break the cycles so that the nodes are released (keeps leak-sensitive lanes quiet)
fn dismantle(nodes: &[Rc<Node>]) {
    for n in nodes {
        n.edges.borrow_mut().clear();
    }
}

fn write_node<O: BinaryOutput>(node: &Rc<Node>, ctx: &mut SerializationContext<O>) -> desert::Result<()> {
    // first offer: `new` marker + body; later offers: the 1-based first-encounter number only
    if ctx.store_ref_or_object(&**node)? {
        node.label.serialize(ctx)?;
        let edges = node.edges.borrow();
        ctx.write_var_i32(edges.len() as i32);
        for e in edges.iter() {
            write_node(e, ctx)?;
        }
    }
    Ok(())
}

fn read_node(ctx: &mut DeserializationContext<'_>, made: &mut Vec<Rc<Node>>) -> desert::Result<Rc<Node>> {
    match ctx.try_read_ref()? {
        Some(any) => {
            let node = any.downcast_ref::<Node>().ok_or_else(|| desert::Error::DeserializationFailure("not a Node".into()))?;
            node.me.upgrade().ok_or_else(|| desert::Error::DeserializationFailure("node is gone".into()))
        }
        None => {
            let label = u32::deserialize(ctx)?;
            let node = new_node(label);
            made.push(node.clone());
            ctx.state_mut().store_ref(&*node);
            let n = ctx.read_var_i32()?;
            if n < 0 {
                return Err(desert::Error::DeserializationFailure("negative edge count".into()));
            }
            for _ in 0..n {
                let e = read_node(ctx, made)?;
                node.edges.borrow_mut().push(e);
            }
            Ok(node)
        }
    }
}

// ---- the same codec as a field of derived records: reference numbering must continue across fields, and back-references
// written while a chunk buffer is active must land in that chunk

thread_local! {
    static MADE: RefCell<Vec<Rc<Node>>> = const { RefCell::new(Vec::new()) };
}

pub struct G(pub Rc<Node>);

impl BinarySerializer for G {
    fn serialize<O: BinaryOutput>(&self, ctx: &mut SerializationContext<O>) -> desert::Result<()> {
        write_node(&self.0, ctx)
    }
}

impl BinaryDeserializer for G {
    fn deserialize(ctx: &mut DeserializationContext<'_>) -> desert::Result<Self> {
        let mut made = Vec::new();
        let r = read_node(ctx, &mut made);
        MADE.with(|m| m.borrow_mut().extend(made));
        r.map(G)
    }
}

mod holder_types {
    use super::{new_node, G};
    use desert::BinaryCodec;

    /// version-0 record: two graph fields (the second may cite nodes of the first) between ordinary fields
    #[derive(BinaryCodec)]
    pub struct HolderV0 {
        pub tag: u8,
        pub g: G,
        pub h: G,
        pub tail: String,
    }

    /// evolved record: the graph fields live in chunks of their own
    #[derive(BinaryCodec)]
    #[evolution(FieldAdded("g", G(new_node(0))), FieldAdded("h", G(new_node(0))))]
    pub struct HolderEvolved {
        pub tag: u8,
        pub g: G,
        pub h: G,
        pub tail: String,
    }

    /// evolved record whose added graph field is declared first: fields are written and read in declaration order, so the
    /// graph is introduced in chunk 1 and cited from chunk 0, which precedes it in the bytes
    #[derive(BinaryCodec)]
    #[evolution(FieldAdded("h", G(new_node(0))))]
    pub struct HolderAddedFirst {
        pub h: G,
        pub tag: u8,
        pub g: G,
        pub tail: String,
    }
}

/// bytes of a second offer of the whole graph after it has been written once: the root's number
fn second_offer_bytes() -> Vec<u8> {
    vu_bytes(1)
}

fn embedded_graph(acc: &mut Acc, shape: &Shape) {
    use holder_types::*;
    let (g_bytes, reachable) = model(shape);
    let tail = "tail".to_string();
    let tail_bytes = [8u8, b't', b'a', b'i', b'l'];
    let nodes = build(shape);
    let detail = |what: &str, got: String| {
        J::obj().with("check", J::s("C10")).with("mode", J::s("graph_in_record")).with("edges", J::s(format!("{:?}", shape.edges))).with("what", J::s(what)).with("got", J::s(got))
    };
    acc.case(Some(sig(&[b"embedded", format!("{shape:?}").as_bytes()])));
    // field h offers the root again: all of it has been written, so it is one back-reference
    let v0 = HolderV0 { tag: 9, g: G(nodes[0].clone()), h: G(nodes[0].clone()), tail: tail.clone() };
    let ev = HolderEvolved { tag: 9, g: G(nodes[0].clone()), h: G(nodes[0].clone()), tail: tail.clone() };
    let exp0: Vec<u8> = [&[0u8, 9][..], &g_bytes[..], &second_offer_bytes()[..], &tail_bytes[..]].concat();
    let c0: Vec<u8> = [&[9u8][..], &tail_bytes[..]].concat();
    let exp1: Vec<u8> = [
        &[2u8][..],
        &vi_bytes(c0.len() as i32)[..],
        &vi_bytes(g_bytes.len() as i32)[..],
        &vi_bytes(second_offer_bytes().len() as i32)[..],
        &c0[..],
        &g_bytes[..],
        &second_offer_bytes()[..],
    ]
    .concat();
    let af = HolderAddedFirst { h: G(nodes[0].clone()), tag: 9, g: G(nodes[0].clone()), tail: tail.clone() };
    let c0af: Vec<u8> = [&[9u8][..], &second_offer_bytes()[..], &tail_bytes[..]].concat();
    let exp2: Vec<u8> = [&[1u8][..], &vi_bytes(c0af.len() as i32)[..], &vi_bytes(g_bytes.len() as i32)[..], &c0af[..], &g_bytes[..]].concat();
    let (w0, _) = monitored(None, || desert::serialize_to_byte_vec(&v0).map_err(|e| classify(&e)));
    let (w1, _) = monitored(None, || desert::serialize_to_byte_vec(&ev).map_err(|e| classify(&e)));
    let (w2, _) = monitored(None, || desert::serialize_to_byte_vec(&af).map_err(|e| classify(&e)));
    drop(v0);
    drop(ev);
    drop(af);
    dismantle(&nodes);
    for (name, written, expected) in [("version-0 record", &w0, &exp0), ("evolved record", &w1, &exp1), ("evolved record, added field declared first", &w2, &exp2)] {
        match written {
            Call::Ok(b) if b == expected => acc.count("embedded_graph_bytes_ok"),
            Call::Ok(b) => acc.violation(format!("C10|embedded|bytes|{name}"), detail("bytes of a graph written as a record field differ from the model", short(b)).with("expected", J::s(short(expected)))),
            other => acc.violation(format!("C10|embedded|encode|{}", other.class()), detail("encoding failed", other.class())),
        }
    }
    // decode both: g isomorphic, h the very same object as g
    let check = |acc: &mut Acc, name: &str, ok: Result<(Rc<Node>, Rc<Node>, String, u8), String>| match ok {
        Ok((g, h, t, tag)) => {
            if let Err(why) = isomorphic(shape, &g) {
                acc.violation(format!("C10|embedded|shape|{name}"), detail("graph decoded from a record field is not isomorphic", why));
            } else if !Rc::ptr_eq(&g, &h) {
                acc.violation(format!("C10|embedded|sharing|{name}"), detail("the second field cites the first field's root but decodes to another object", String::new()));
            } else if t != "tail" || tag != 9 {
                acc.violation(format!("C10|embedded|neighbours|{name}"), detail("neighbouring fields disturbed", format!("{tag} {t:?}")));
            } else {
                acc.count("embedded_graph_rebuilt");
            }
        }
        Err(e) => acc.violation(format!("C10|embedded|decode|{name}"), detail("decoding failed", e)),
    };
    if let Call::Ok(b) = &w0 {
        let (r, _) = monitored(None, || desert::deserialize::<HolderV0>(b).map_err(|e| classify(&e)));
        check(acc, "version-0 record", match r {
            Call::Ok(x) => Ok((x.g.0.clone(), x.h.0.clone(), x.tail.clone(), x.tag)),
            other => Err(other.class()),
        });
    }
    if let Call::Ok(b) = &w1 {
        let (r, _) = monitored(None, || desert::deserialize::<HolderEvolved>(b).map_err(|e| classify(&e)));
        check(acc, "evolved record", match r {
            Call::Ok(x) => Ok((x.g.0.clone(), x.h.0.clone(), x.tail.clone(), x.tag)),
            other => Err(other.class()),
        });
    }
    if let Call::Ok(b) = &w2 {
        let (r, _) = monitored(None, || desert::deserialize::<HolderAddedFirst>(b).map_err(|e| classify(&e)));
        check(acc, "evolved record, added field declared first", match r {
            Call::Ok(x) => Ok((x.h.0.clone(), x.g.0.clone(), x.tail.clone(), x.tag)),
            other => Err(other.class()),
        });
    }
    let made: Vec<Rc<Node>> = MADE.with(|m| std::mem::take(&mut *m.borrow_mut()));
    dismantle(&made);
    let _ = reachable;
}

/// graph model: DFS pre-order numbering from the root; expected bytes; number of reachable nodes
fn model(shape: &Shape) -> (Vec<u8>, usize) {
    fn go(shape: &Shape, i: usize, ids: &mut Vec<Option<u32>>, next: &mut u32, out: &mut Vec<u8>) {
        if let Some(id) = ids[i] {
            out.extend_from_slice(&vu_bytes(id));
            return;
        }
        *next += 1;
        ids[i] = Some(*next);
        out.extend_from_slice(&vu_bytes(0));
        out.extend_from_slice(&shape.labels[i].to_be_bytes());
        out.extend_from_slice(&vi_bytes(shape.edges[i].len() as i32));
        for t in &shape.edges[i] {
            go(shape, *t, ids, next, out);
        }
    }
    let mut ids = vec![None; shape.labels.len()];
    let mut next = 0;
    let mut out = Vec::new();
    go(shape, 0, &mut ids, &mut next, &mut out);
    (out, next as usize)
}

/// is the decoded graph isomorphic to the shape (labels, ordered out-edges), sharing exactly as the shape shares?
fn isomorphic(shape: &Shape, root: &Rc<Node>) -> Result<(), String> {
    // simultaneous traversal building the map shape index -> decoded node; the map must be a bijection on reachable nodes
    let mut map: Vec<Option<Rc<Node>>> = vec![None; shape.labels.len()];
    let mut stack: Vec<(usize, Rc<Node>)> = vec![(0, root.clone())];
    let mut images: Vec<(*const Node, usize)> = Vec::new();
    while let Some((i, n)) = stack.pop() {
        if let Some(prev) = &map[i] {
            if !Rc::ptr_eq(prev, &n) {
                return Err(format!("node {i} of the original is shared, its copies are distinct objects"));
            }
            continue;
        }
        let p = Rc::as_ptr(&n);
        if let Some((_, j)) = images.iter().find(|(q, _)| *q == p) {
            return Err(format!("distinct nodes {j} and {i} of the original became one object"));
        }
        images.push((p, i));
        if n.label != shape.labels[i] {
            return Err(format!("label of node {i}: {} instead of {}", n.label, shape.labels[i]));
        }
        let es = n.edges.borrow();
        if es.len() != shape.edges[i].len() {
            return Err(format!("node {i} has {} edges instead of {}", es.len(), shape.edges[i].len()));
        }
        map[i] = Some(n.clone());
        for (k, t) in shape.edges[i].iter().enumerate() {
            stack.push((*t, es[k].clone()));
        }
    }
    Ok(())
}

fn encode(shape: &Shape) -> Call<Vec<u8>> {
    let nodes = build(shape);
    let (c, _) = monitored(None, || {
        let mut sc = SerializationContext::new(Vec::new());
        write_node(&nodes[0], &mut sc).map_err(|e| classify(&e))?;
        Ok(sc.into_output())
    });
    dismantle(&nodes);
    c
}

fn decode_and_compare(shape: &Shape, bytes: &[u8]) -> Call<Result<(), String>> {
    let mut made: Vec<Rc<Node>> = Vec::new();
    let (c, _) = monitored(None, || {
        let mut dc = DeserializationContext::new(bytes);
        let root = read_node(&mut dc, &mut made).map_err(|e| classify(&e))?;
        let mut rest = 0;
        while dc.read_u8().is_ok() {
            rest += 1;
        }
        if rest != 0 {
            return Ok(Err(format!("{rest} bytes left unread")));
        }
        Ok(isomorphic(shape, &root))
    });
    dismantle(&made);
    c
}

fn decode_only(bytes: &[u8]) -> Call<()> {
    let mut made: Vec<Rc<Node>> = Vec::new();
    let (c, _) = monitored(None, || -> Result<(), ErrClass> {
        let mut dc = DeserializationContext::new(bytes);
        read_node(&mut dc, &mut made).map_err(|e| classify(&e))?;
        Ok(())
    });
    dismantle(&made);
    c
}

fn one_graph(acc: &mut Acc, shape: &Shape, how: &str) {
    let (exp, reachable) = model(shape);
    let has_sharing = {
        // more offers than objects = some node is offered again (sharing, cycle or self-loop)
        let offers: usize = 1 + (0..shape.labels.len()).filter(|i| exp_reaches(shape, *i)).map(|i| shape.edges[i].len()).sum::<usize>();
        offers > reachable
    };
    let detail = |what: &str, got: String| {
        J::obj()
            .with("check", J::s("C10"))
            .with("mode", J::s("graph"))
            .with("labels", J::s(format!("{:?}", shape.labels)))
            .with("edges", J::s(format!("{:?}", shape.edges)))
            .with("expected_bytes", J::s(short(&exp)))
            .with("what", J::s(what))
            .with("got", J::s(got))
    };
    acc.case(if has_sharing { Some(sig(&[format!("{shape:?}").as_bytes()])) } else { None });
    acc.count(&format!("graphs:{how}"));
    let written = encode(shape);
    let Call::Ok(bytes) = written else {
        acc.violation(format!("C10|encode|{}", written.class()), detail("encoding the graph failed or did not terminate", written.class()));
        return;
    };
    if bytes != exp {
        // object count, ids in pre-order of first encounter, each distinct object once
        acc.violation("C10|bytes".to_string(), detail("bytes differ from the graph model (new marker / first-encounter numbering)", short(&bytes)));
        return;
    }
    acc.add("objects_written", reachable as u64);
    match decode_and_compare(shape, &bytes) {
        Call::Ok(Ok(())) => acc.count("graphs_rebuilt_isomorphic"),
        Call::Ok(Err(why)) => acc.violation("C10|shape".to_string(), detail("decoded graph is not isomorphic / does not share like the original", why).with("hex", J::s(hex(&bytes)))),
        other => acc.violation(format!("C10|decode|{}", other.class()), detail("decoding the library's own encoding failed", other.class()).with("hex", J::s(hex(&bytes)))),
    }
    if acc.samples.len() < 4 && has_sharing && shape.labels.len() >= 3 {
        acc.sample(J::obj().with("edges", J::s(format!("{:?}", shape.edges))).with("bytes", J::s(short(&bytes))).with("objects", J::u(reachable as u64)));
    }
}

fn exp_reaches(shape: &Shape, target: usize) -> bool {
    let mut seen = vec![false; shape.labels.len()];
    let mut st = vec![0];
    while let Some(i) = st.pop() {
        if seen[i] {
            continue;
        }
        seen[i] = true;
        for t in &shape.edges[i] {
            st.push(*t);
        }
    }
    seen[target]
}

/// all edge lists of length 0..=2 over n nodes
fn edge_options(n: usize) -> Vec<Vec<usize>> {
    let mut v = vec![vec![]];
    for a in 0..n {
        v.push(vec![a]);
    }
    for a in 0..n {
        for b in 0..n {
            v.push(vec![a, b]);
        }
    }
    v
}

/// Two tracked objects of different types at one address: a wrapper whose only non-zero-sized field is itself tracked
/// (same address, same size, same alignment — only the type tells them apart).  Both are distinct objects: each first
/// offer writes `new` + body, each later offer its own number.
fn same_address_different_types(acc: &mut Acc) {
    struct Inner(u32);
    struct Wrapper {
        inner: Inner,
        _marker: std::marker::PhantomData<u8>,
    }
    let w = Wrapper { inner: Inner(7), _marker: std::marker::PhantomData };
    acc.case(Some(0x5a3e));
    let (r, _) = monitored(None, || {
        let mut sc = SerializationContext::new(Vec::new());
        // offers: wrapper (new, 1), its inner (new, 2), wrapper again (1), inner again (2)
        let mut marks = Vec::new();
        for k in 0..2 {
            let new_w = sc.store_ref_or_object(&w).map_err(|e| classify(&e))?;
            if new_w {
                sc.write_u8(0xAA);
            }
            let new_i = sc.store_ref_or_object(&w.inner).map_err(|e| classify(&e))?;
            if new_i {
                sc.write_u8(w.inner.0 as u8);
            }
            marks.push((k, new_w, new_i));
        }
        Ok((sc.into_output(), marks))
    });
    let want: Vec<u8> = [&vu_bytes(0)[..], &[0xAA], &vu_bytes(0)[..], &[7], &vu_bytes(1)[..], &vu_bytes(2)[..]].concat();
    match r {
        Call::Ok((bytes, marks)) if bytes == want && marks == vec![(0, true, true), (1, false, false)] => acc.count("same_address_objects_of_different_types_kept_apart"),
        other => acc.violation(
            "C10|same_address_different_types".to_string(),
            J::obj()
                .with("check", J::s("C10"))
                .with("mode", J::s("content"))
                .with("what", J::s("a wrapper and its only field, both offered to the reference table"))
                .with("expected", J::s(hex(&want)))
                .with("got", J::s(match &other {
                    Call::Ok((b, m)) => format!("{} offers {:?}", hex(b), m),
                    o => o.class(),
                })),
        ),
    }
}

/// A zero-sized object with an address of its own (the payload of an `Rc`, a `static`) is an object like any other:
/// its second offer is a back-reference.
fn zero_sized_objects(acc: &mut Acc) {
    struct Nil;
    static GLOBAL_NIL: Nil = Nil;
    let shared = Rc::new(Nil);
    let other = Rc::new(Nil);
    acc.case(Some(0x2e50));
    let (r, _) = monitored(None, || {
        let mut sc = SerializationContext::new(Vec::new());
        let mut flags = Vec::new();
        for obj in [&*shared, &*other, &*shared, &GLOBAL_NIL, &*other, &GLOBAL_NIL] {
            flags.push(sc.store_ref_or_object(obj).map_err(|e| classify(&e))?);
        }
        Ok((sc.into_output(), flags))
    });
    let want: Vec<u8> = [vu_bytes(0), vu_bytes(0), vu_bytes(1), vu_bytes(0), vu_bytes(2), vu_bytes(3)].concat();
    match r {
        Call::Ok((bytes, flags)) if bytes == want && flags == vec![true, true, false, true, false, false] => acc.count("zero_sized_objects_tracked_like_any_other"),
        other => acc.violation(
            "C10|zero_sized_objects".to_string(),
            J::obj().with("check", J::s("C10")).with("mode", J::s("content")).with("expected", J::s(hex(&want))).with("got", J::s(match &other {
                Call::Ok((b, f)) => format!("{} offers {f:?}", hex(b)),
                o => o.class(),
            })),
        ),
    }
}

pub fn c10(ctx: &mut Ctx, acc: &mut Acc) -> i32 {
    if ctx.shard == 0 {
        zero_sized_objects(acc);
        same_address_different_types(acc);
    }
    // exhaustive: all rooted graphs with <= N nodes and out-degree <= 2 (unreachable parts do not matter and are skipped)
    let max_nodes: usize = ctx.extra.get("max_nodes").and_then(|v| v.parse().ok()).unwrap_or(if ctx.thorough() { 4 } else { 3 });
    let mut index: u64 = 0;
    for n in 1..=max_nodes {
        let opts = edge_options(n);
        let total = (opts.len() as u64).pow(n as u32);
        for code in 0..total {
            index += 1;
            if index as usize % ctx.shards != ctx.shard {
                continue;
            }
            let mut c = code;
            let edges: Vec<Vec<usize>> = (0..n)
                .map(|_| {
                    let e = opts[(c % opts.len() as u64) as usize].clone();
                    c /= opts.len() as u64;
                    e
                })
                .collect();
            let shape = Shape { labels: (0..n as u32).map(|i| 100 + i).collect(), edges };
            // canonical representative only: every node reachable (others are the same graph with junk attached)
            if (0..n).any(|i| !exp_reaches(&shape, i)) {
                continue;
            }
            one_graph(acc, &shape, "exhaustive");
        }
    }
    if ctx.shard == 0 {
        acc.add("exhaustive_max_nodes", max_nodes as u64);
    }
    // random larger graphs
    let rounds = ctx.n(30_000, 300_000);
    for r in 0..rounds {
        if r as usize % ctx.shards != ctx.shard {
            continue;
        }
        let mut rng = ctx.rng_for(0xC10, "graph", r);
        let shape = random_shape(&mut rng);
        one_graph(acc, &shape, "random");
        embedded_graph(acc, &shape);
    }
    // wide graphs: object numbers that need two and three varint bytes (>= 128, >= 16384)
    if !cfg!(miri) {
        let sizes: Vec<usize> = if ctx.thorough() { vec![130, 300, 16_500, 40_000] } else { vec![130, 16_500] };
        for (i, n) in sizes.iter().enumerate() {
            if i % ctx.shards != ctx.shard {
                continue;
            }
            let mut rng = ctx.rng_for(0xC10 ^ 0x71DE, "wide", *n as u64);
            let mut edges: Vec<Vec<usize>> = vec![Vec::new(); *n];
            // the root introduces every other node, then cites a sample of them again (incl. the last ones introduced)
            edges[0] = (1..*n).collect();
            for _ in 0..200 {
                edges[0].push(1 + rng.below(*n as u64 - 1) as usize);
            }
            for k in [*n - 1, *n - 2, 126, 127, 128, 16_382, 16_383, 16_384] {
                if k >= 1 && k < *n {
                    edges[0].push(k);
                }
            }
            let shape = Shape { labels: (0..*n as u32).collect(), edges };
            one_graph(acc, &shape, "wide");
            acc.max("largest_object_number_cited", *n as u64);
        }
    }
    // streams citing an object number that was never introduced
    let rounds = ctx.n(30_000, 300_000);
    for r in 0..rounds {
        if r as usize % ctx.shards != ctx.shard {
            continue;
        }
        let mut rng = ctx.rng_for(0xC10 ^ 0xBAD, "id", r);
        let shape = random_shape(&mut rng);
        let (bytes, objects) = model(&shape);
        // replace one reference (or append one as an extra edge of the root) by an id beyond the objects introduced so far
        let far = rng.chance(1, 8);
        let bad = objects as u32 + 1 + rng.below(3) as u32 + if far { 1 << 20 } else { 0 };
        // root with one extra edge citing `bad`: rebuild the root header by hand
        let mut hostile = Vec::new();
        hostile.extend_from_slice(&vu_bytes(0));
        hostile.extend_from_slice(&shape.labels[0].to_be_bytes());
        hostile.extend_from_slice(&vi_bytes(shape.edges[0].len() as i32 + 1));
        let body_start = 1 + 4 + vi_bytes(shape.edges[0].len() as i32).len();
        // cite the unknown id first: at that point only the root has been introduced
        let first_bad = if rng.chance(1, 2) { 2 + rng.below(3) as u32 } else { bad };
        hostile.extend_from_slice(&vu_bytes(first_bad));
        hostile.extend_from_slice(&bytes[body_start..]);
        acc.case(Some(sig(&[b"badid", &hostile])));
        match decode_only(&hostile) {
            Call::Err(e) if e.variant == "InvalidRefId" => acc.count("unknown_object_numbers_rejected"),
            other => acc.violation(
                format!("C10|unknown_id|{}", other.class()),
                J::obj().with("check", J::s("C10")).with("mode", J::s("graph_bytes")).with("hex", J::s(hex(&hostile))).with("cited", J::u(first_bad)).with("got", J::s(other.class())),
            ),
        }
    }
    0
}

fn random_shape(rng: &mut Rng) -> Shape {
    let big = rng.chance(1, 10);
    // the interpreter is about three orders of magnitude slower: small graphs only there
    let n = 1 + rng.below(if cfg!(miri) { 6 } else if big { 200 } else { 12 }) as usize;
    let labels: Vec<u32> = (0..n).map(|_| rng.next_u32()).collect();
    let mut edges: Vec<Vec<usize>> = Vec::with_capacity(n);
    for i in 0..n {
        let d = rng.below(5) as usize;
        let mut es: Vec<usize> = (0..d).map(|_| rng.below(n as u64) as usize).collect();
        // a spanning chain keeps most nodes reachable
        if i + 1 < n && rng.chance(3, 4) {
            es.push(i + 1);
        }
        edges.push(es);
    }
    Shape { labels, edges }
}
