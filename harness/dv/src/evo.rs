//! C03 — schema evolution: every writer/reader version pair of every generated history, in four embeddings.
//! Also provides the cross-version parts of C07 (consumption) and C08 (truncation).

use crate::common::*;
use crate::rt::encode_case;
use monitors::json::J;
use refmodel::dec::ErrKind;
use refmodel::evo::{History, OUTCOME_CLASSES};
use refmodel::{canon, gen_val, ref_decode, Ty, Val};
use sbase::{dec_val_rest, Call, HistoryEntry, Subject};
use std::sync::Arc;

pub const TAG_C03: u64 = 0xC03;

fn wrap(flavour: &str, inner: Val, before: &Val, after: &Val) -> Val {
    match flavour {
        "struct" => inner,
        "variant" => match inner {
            Val::Rec(fields) => Val::Ctor(1, fields),
            other => other,
        },
        "deep" => Val::Rec(vec![Val::U(5), Val::Rec(vec![before.clone(), inner, after.clone()]), Val::U(0xC0FFEE)]),
        _ => Val::Rec(vec![before.clone(), inner, after.clone()]),
    }
}

fn real_error_matches(e: &sbase::ErrClass, k: &ErrKind) -> bool {
    match k {
        ErrKind::FieldRemoved(f) => e.variant == "FieldRemovedInSerializedVersion" && &e.payload == f,
        ErrKind::NonOptionalNone(f) => e.variant == "NonOptionalFieldSerializedAsNone" && &e.payload == f,
        ErrKind::FieldMissing(f) => {
            (e.variant == "FieldWithoutDefaultValueIsMissing" && &e.payload == f)
                || (e.variant == "DeserializationFailure" && e.payload.contains(f.as_str()))
        }
        _ => false,
    }
}

pub struct Pair<'a> {
    pub h: &'a History,
    pub hid: String,
    pub flavour: &'a str,
    pub w: usize,
    pub r: usize,
    pub writer: &'a dyn Subject,
    pub reader: &'a dyn Subject,
}

/// all (history, flavour, w, r) combinations of this shard
pub fn pairs<'a>(ctx: &'a Ctx) -> Vec<Pair<'a>> {
    let mut out = Vec::new();
    for (i, he) in ctx.reg.histories.iter().enumerate() {
        if i % ctx.shards != ctx.shard {
            continue;
        }
        if ctx.only_fresh() && !is_fresh_id(&he.history.id) {
            continue;
        }
        let HistoryEntry { history, flavours } = he;
        for (flavour, ids) in flavours {
            for w in 0..ids.len() {
                for r in 0..ids.len() {
                    out.push(Pair {
                        h: history,
                        hid: history.id.clone(),
                        flavour: flavour.as_str(),
                        w,
                        r,
                        writer: ctx.reg.get(&ids[w]).expect("writer subject"),
                        reader: ctx.reg.get(&ids[r]).expect("reader subject"),
                    });
                }
            }
        }
    }
    out
}

pub struct Case {
    pub inner: Val,
    pub written: Val,
    pub before: Val,
    pub after: Val,
}

pub fn gen_case(ctx: &Ctx, p: &Pair, tag: u64, idx: u64) -> Case {
    let mut rng = ctx.rng_for(tag, &format!("{}:{}:{}:{}", p.hid, p.flavour, p.w, p.r), idx);
    let wty = Ty::Record(Arc::new(p.h.version(p.w)));
    let inner = gen_val(&wty, &mut rng, &ctx.gen);
    let (before, after) = match p.flavour {
        "sibling" => (gen_val(&Ty::U32, &mut rng, &ctx.gen), gen_val(&Ty::Str, &mut rng, &ctx.gen)),
        "nested" | "deep" => (gen_val(&Ty::U16, &mut rng, &ctx.gen), gen_val(&Ty::Bytes, &mut rng, &ctx.gen)),
        _ => (Val::Unit, Val::Unit),
    };
    let written = wrap(p.flavour, inner.clone(), &before, &after);
    Case { inner, written, before, after }
}

/// expected outcome of the reader, wrapped like the reader's type
pub fn expected_outcome(p: &Pair, c: &Case) -> Result<Val, ErrKind> {
    let rty = p.reader.ty();
    p.h.expected(p.w, p.r, &c.inner).map(|inner| canon(&rty, &wrap(p.flavour, inner, &c.before, &c.after)).expect("canonical"))
}

/// DESIGN §9-1: the combination the format cannot frame
pub fn excluded(p: &Pair) -> bool {
    p.flavour == "sibling" && p.h.reader_dropped_v0_field(p.w, p.r)
}

pub fn c03(ctx: &mut Ctx, acc: &mut Acc) -> i32 {
    let n = ctx.n(100, 600);
    let ps = pairs(ctx);
    let mut histories = std::collections::HashSet::new();
    for p in &ps {
        histories.insert(p.hid.clone());
        if excluded(p) {
            acc.count("excluded_embedded_v0_with_removal");
            continue;
        }
        acc.count(&format!("pairs:{}", p.flavour));
        let rty = p.reader.ty();
        for idx in 0..n {
            let c = gen_case(ctx, p, TAG_C03, idx);
            let Some((_x, bytes)) = encode_case(acc, p.writer, &c.written) else {
                acc.case(None);
                // a legal history whose writer cannot encode at all is itself an undocumented outcome
                acc.violation(
                    format!("C03|{}|writer_cannot_encode", p.writer.id()),
                    replay_value("C03", p.writer.id(), ctx.seed, TAG_C03, idx, &c.written, "every encode of this version fails"),
                );
                break;
            };
            let exp = expected_outcome(p, &c);
            for cl in p.h.outcome_classes(p.w, p.r, &c.inner) {
                acc.count(&format!("outcome:{cl}"));
            }
            acc.case(if p.w != p.r { Some(sig(&[p.reader.id().as_bytes(), &bytes])) } else { None });
            let (got, rest) = dec_val_rest(p.reader, &bytes);

            // oracle (ii): the strict reference decoder with the reader's schema — must agree with the history table
            let ref_out = ref_decode(&rty, &bytes).map(|(v, used)| (canon(&rty, &v).expect("canonical"), used));
            let models_agree = match (&exp, &ref_out) {
                (Ok(a), Ok((b, _))) => a == b,
                (Err(k), Err(e)) => &e.kind == k,
                _ => false,
            };
            if !models_agree {
                acc.inconclusive(format!(
                    "model disagreement on {} -> {}: table {:?} vs reference decoder {:?}",
                    p.writer.id(),
                    p.reader.id(),
                    exp.as_ref().map(|v| v.render(120)),
                    ref_out.as_ref().map(|(v, _)| v.render(120))
                ));
                acc.count("model_disagreements");
                continue;
            }

            let verdict = match (&got, &exp) {
                (Call::Ok(v), Ok(e)) => {
                    if canon(&rty, v).map(|c| &c == e).unwrap_or(false) {
                        None
                    } else {
                        Some("silently_different_value".to_string())
                    }
                }
                (Call::Err(e), Err(k)) => {
                    if real_error_matches(e, k) {
                        None
                    } else {
                        Some(format!("wrong_error:{}", e.variant))
                    }
                }
                (Call::Ok(_), Err(_)) => Some("accepted_where_error_is_documented".to_string()),
                (Call::Err(e), Ok(_)) => Some(format!("rejected_where_value_is_documented:{}", e.variant)),
                (other, _) => Some(other.class()),
            };
            // data that follows: at top level everything written must have been consumed whenever the data is framed
            let framed = p.w >= 1 || !p.h.reader_dropped_v0_field(p.w, p.r);
            let verdict = match verdict {
                None if got.is_ok() && framed && rest != 0 => Some(format!("left_{rest}_bytes_unread")),
                v => v,
            };
            match verdict {
                None => acc.count(if exp.is_ok() { "outcome_value_as_documented" } else { "outcome_error_as_documented" }),
                Some(class) => acc.violation(
                    format!("C03|{}->{}|{class}", p.writer.id(), p.reader.id()),
                    replay_decode("C03", p.reader.id(), &bytes, "written by another version of the same history")
                        .with("writer", J::s(p.writer.id()))
                        .with("written_value", J::s(c.written.render(300)))
                        .with("documented", J::s(format!("{:?}", exp.as_ref().map(|v| v.render(300)))))
                        .with("got", J::s(format!("{:?}", got_render(&got))))
                        .with("left_unread", J::u(rest as u64)),
                ),
            }
            if idx == 0 && p.w != p.r && acc.samples.len() < 6 {
                acc.sample(
                    J::obj()
                        .with("history", J::s(format!("{:?}", p.h.steps).chars().take(300).collect::<String>()))
                        .with("embedding", J::s(p.flavour))
                        .with("writer_version", J::u(p.w as u64))
                        .with("reader_version", J::u(p.r as u64))
                        .with("written", J::s(c.written.render(160)))
                        .with("bytes", J::s(short(&bytes)))
                        .with("documented_outcome", J::s(format!("{:?}", exp.as_ref().map(|v| v.render(160))))),
                );
            }
        }
    }
    acc.add("histories", histories.len() as u64);
    let _ = OUTCOME_CLASSES;
    if ctx.shard == 0 && !ctx.only_fresh() {
        skipped_chunks(acc);
        adt_module_client(acc);
        position_limits(acc);
    }
    0
}

/// A made-optional step is written as one signed byte: 0 / negative = position in chunk 0, positive = chunk number.
/// The last values that fit are position 128 and chunk 127; the scenarios sit on both sides of each limit.  Writer = the
/// definition with the step, reader = the definition just before it: the reader must see the value, not the option tag.
fn position_limits(acc: &mut Acc) {
    use sbase::Model;
    use subjects::special::{Chunk127, Chunk127O, Chunk128, Chunk128O, Wide129, Wide129O, Wide130, Wide130O};
    fn run<W: Model + desert::BinarySerializer, R: Model + desert::BinaryDeserializer>(acc: &mut Acc, what: &str, n_fields: usize) {
        // every field carries its index + 1 (so that an option tag read as a value — 1 — is told apart), the last one 200
        let plain: Vec<Val> = (0..n_fields).map(|i| Val::U(if i + 1 == n_fields { 200 } else { (i as u128 % 100) + 2 })).collect();
        let mut written = plain.clone();
        written[n_fields - 1] = Val::some(Val::U(200));
        acc.case(Some(refmodel::rng::fnv64_str(what)));
        let (r, _) = sbase::monitored(None, || {
            let w = W::from_val(&Val::Rec(written.clone()));
            let bytes = desert::serialize_to_byte_vec(&w).map_err(|e| sbase::classify(&e))?;
            let back: R = desert::deserialize(&bytes).map_err(|e| sbase::classify(&e))?;
            Ok(back.to_val())
        });
        match r {
            Call::Ok(v) if v == Val::Rec(plain.clone()) => acc.count(&format!("position_limit:{what}:as_documented")),
            Call::Ok(v) => {
                let last = match &v {
                    Val::Rec(f) => f.last().map(|x| x.render(40)).unwrap_or_default(),
                    other => other.render(40),
                };
                acc.violation(
                    format!("C03|position_limit|{what}|silently_different_value"),
                    J::obj().with("check", J::s("C03")).with("mode", J::s("content")).with("what", J::s(what)).with("last_field_read", J::s(last)).with("documented", J::s("200")),
                )
            }
            other => acc.violation(
                format!("C03|position_limit|{what}|{}", other.class()),
                J::obj().with("check", J::s("C03")).with("mode", J::s("content")).with("what", J::s(what)).with("got", J::s(other.class())),
            ),
        }
    }
    run::<Chunk127O, Chunk127>(acc, "made_optional_in_chunk_127", 128);
    run::<Wide129O, Wide129>(acc, "made_optional_at_position_128", 129);
    run::<Chunk128O, Chunk128>(acc, "made_optional_in_chunk_128", 129);
    run::<Wide130O, Wide130>(acc, "made_optional_at_position_129", 130);
}

/// An added field whose type is itself a derived record: a reader from before the addition skips its chunk unread.
/// What follows the record in the stream must still read as written.  Three cases: the skipped record has no names
/// in its header (control), has a removed-field name and the same record type follows (the name is then cited by id),
/// and the same with the sibling *before* the record (control).
fn skipped_chunks(acc: &mut Acc) {
    use desert::BinaryCodec;
    #[derive(BinaryCodec, Debug, PartialEq, Clone)]
    #[evolution(FieldRemoved("gone"))]
    struct InnerNamed {
        a: u8,
    }
    #[derive(BinaryCodec, Debug, PartialEq, Clone)]
    #[evolution(FieldAdded("b", 0u8))]
    struct InnerPlain {
        a: u8,
        b: u8,
    }
    #[derive(BinaryCodec, Debug, PartialEq, Clone)]
    struct OuterOld {
        x: u8,
    }
    #[derive(BinaryCodec, Debug, PartialEq, Clone)]
    #[evolution(FieldAdded("n", InnerNamed { a: 0 }))]
    struct OuterNamed {
        x: u8,
        n: InnerNamed,
    }
    #[derive(BinaryCodec, Debug, PartialEq, Clone)]
    #[evolution(FieldAdded("n", InnerPlain { a: 0, b: 0 }))]
    struct OuterPlain {
        x: u8,
        n: InnerPlain,
    }
    fn run<W: desert::BinarySerializer, R: desert::BinaryDeserializer + PartialEq + std::fmt::Debug>(
        acc: &mut Acc,
        what: &str,
        written: &W,
        want: &R,
    ) {
        acc.case(Some(refmodel::rng::fnv64_str(what)));
        let (r, _) = sbase::monitored(None, || {
            let bytes = desert::serialize_to_byte_vec(written).map_err(|e| sbase::classify(&e))?;
            let back: R = desert::deserialize(&bytes).map_err(|e| sbase::classify(&e))?;
            Ok((bytes, back == *want, format!("{back:?}")))
        });
        match r {
            Call::Ok((_, true, _)) => acc.count(&format!("skipped_chunk:{what}:as_documented")),
            Call::Ok((bytes, false, got)) => acc.violation(
                format!("C03|skipped_chunk|{what}|silently_different_value"),
                J::obj().with("check", J::s("C03")).with("mode", J::s("content")).with("what", J::s(what)).with("hex", J::s(refmodel::hex(&bytes))).with("got", J::s(got)).with("documented", J::s(format!("{want:?}"))),
            ),
            other => acc.violation(
                format!("C03|skipped_chunk|{what}|{}", other.class()),
                J::obj().with("check", J::s("C03")).with("mode", J::s("content")).with("what", J::s(what)).with("got", J::s(other.class())).with("documented", J::s(format!("{want:?}"))),
            ),
        }
    }
    let old = OuterOld { x: 9 };
    // control: nothing in the skipped chunk that the string table would need
    run(acc, "nested_record_without_header_names_then_sibling", &(OuterPlain { x: 9, n: InnerPlain { a: 1, b: 2 } }, InnerPlain { a: 3, b: 4 }), &(old.clone(), InnerPlain { a: 3, b: 4 }));
    // control: the sibling comes first, the skipped record cites the name
    run(acc, "sibling_then_nested_record_with_header_name", &(InnerNamed { a: 3 }, OuterNamed { x: 9, n: InnerNamed { a: 1 } }), &(InnerNamed { a: 3 }, old.clone()));
    // the skipped chunk introduces the name, the sibling cites it
    run(acc, "nested_record_with_header_name_then_sibling", &(OuterNamed { x: 9, n: InnerNamed { a: 1 } }, InnerNamed { a: 3 }), &(old.clone(), InnerNamed { a: 3 }));
    run(acc, "two_records_each_skipping_a_header_name", &vec![OuterNamed { x: 9, n: InnerNamed { a: 1 } }, OuterNamed { x: 9, n: InnerNamed { a: 2 } }], &vec![old.clone(), old.clone()]);
}

/// A client of the public `adt` module: a codec written by hand with `AdtSerializer` / `AdtDeserializer` and its own
/// `AdtMetadata` (what the derive generates, minus the defaults — the low-level API lets a field be added without one).
/// Written and read across versions against derived definitions of the same history: same bytes as the derived codec,
/// values when the data has the field, the two dedicated errors when it has not.
fn adt_module_client(acc: &mut Acc) {
    use desert::adt::{AdtDeserializer, AdtMetadata, AdtSerializer};
    use desert::{BinaryCodec, BinaryDeserializer, BinaryOutput, BinarySerializer, DeserializationContext, Evolution, SerializationContext};
    #[derive(Debug, PartialEq, Clone)]
    struct Client {
        a: u32,
        b: String,
        c: Option<u8>,
    }
    fn metadata() -> &'static AdtMetadata {
        static M: std::sync::OnceLock<AdtMetadata> = std::sync::OnceLock::new();
        M.get_or_init(|| AdtMetadata::new(vec![Evolution::InitialVersion, Evolution::FieldAdded { name: "b".to_string() }, Evolution::FieldAdded { name: "c".to_string() }]))
    }
    impl BinarySerializer for Client {
        fn serialize<O: BinaryOutput>(&self, context: &mut SerializationContext<O>) -> desert::Result<()> {
            let mut ser = AdtSerializer::new(metadata(), context);
            ser.write_field("a", &self.a)?;
            ser.write_field("b", &self.b)?;
            ser.write_field("c", &self.c)?;
            ser.finish()
        }
    }
    impl BinaryDeserializer for Client {
        fn deserialize(context: &mut DeserializationContext<'_>) -> desert::Result<Self> {
            use desert::BinaryInput;
            let stored_version = context.read_u8()?;
            let mut de = if stored_version == 0 { AdtDeserializer::new_v0(metadata(), context)? } else { AdtDeserializer::new(metadata(), context, stored_version)? };
            Ok(Client { a: de.read_field("a", None)?, b: de.read_field("b", None)?, c: de.read_optional_field("c", None)? })
        }
    }
    #[derive(BinaryCodec, Debug, PartialEq, Clone)]
    struct V0 {
        a: u32,
    }
    #[derive(BinaryCodec, Debug, PartialEq, Clone)]
    #[evolution(FieldAdded("b", String::new()))]
    struct V1 {
        a: u32,
        b: String,
    }
    #[derive(BinaryCodec, Debug, PartialEq, Clone)]
    #[evolution(FieldAdded("b", String::new()), FieldAdded("c", None))]
    struct V2 {
        a: u32,
        b: String,
        c: Option<u8>,
    }
    #[derive(BinaryCodec, Debug, PartialEq, Clone)]
    #[evolution(FieldAdded("b", String::new()), FieldAdded("c", None), FieldAdded("d", 0u64))]
    struct V3 {
        a: u32,
        b: String,
        c: Option<u8>,
        d: u64,
    }
    let mut verdict = |what: &str, ok: bool, got: String| {
        acc.case(Some(refmodel::rng::fnv64_str(what)));
        if ok {
            acc.count(&format!("adt_module_client:{what}:as_documented"));
        } else {
            acc.violation(format!("C03|adt_module_client|{what}"), J::obj().with("check", J::s("C03")).with("mode", J::s("content")).with("what", J::s(what)).with("got", J::s(got)));
        }
    };
    for (a, b, c) in [(7u32, "x".to_string(), Some(3u8)), (u32::MAX, "é".repeat(70), None), (0, String::new(), Some(0))] {
        let client = Client { a, b: b.clone(), c };
        let (r, _) = sbase::monitored(None, || {
            let mine = desert::serialize_to_byte_vec(&client).map_err(|e| sbase::classify(&e))?;
            let derived = desert::serialize_to_byte_vec(&V2 { a, b: b.clone(), c }).map_err(|e| sbase::classify(&e))?;
            let back: Client = desert::deserialize(&mine).map_err(|e| sbase::classify(&e))?;
            let newer: Client = desert::deserialize(&desert::serialize_to_byte_vec(&V3 { a, b: b.clone(), c, d: 99 }).map_err(|e| sbase::classify(&e))?).map_err(|e| sbase::classify(&e))?;
            let as_v1: V1 = desert::deserialize(&mine).map_err(|e| sbase::classify(&e))?;
            Ok((mine == derived, back == client, newer == client, as_v1 == V1 { a, b: b.clone() }))
        });
        verdict("same_bytes_and_round_trips_as_the_derived_codec", matches!(r, Call::Ok((true, true, true, true))), format!("{:?}", r.ok()));
        let from = |bytes: desert::Result<Vec<u8>>| -> Call<Client> { sbase::monitored(None, || desert::deserialize::<Client>(&bytes.map_err(|e| sbase::classify(&e))?).map_err(|e| sbase::classify(&e))).0 };
        let r0 = from(desert::serialize_to_byte_vec(&V0 { a }));
        verdict("required_field_without_default_missing_from_older_data", matches!(&r0, Call::Err(e) if e.variant == "FieldWithoutDefaultValueIsMissing" && e.payload == "b"), r0.class());
        let r1 = from(desert::serialize_to_byte_vec(&V1 { a, b: b.clone() }));
        verdict("optional_field_without_default_missing_from_older_data", matches!(&r1, Call::Err(e) if e.variant == "DeserializationFailure" && e.payload.contains('c')), r1.class());
    }
}

fn got_render(c: &Call<Val>) -> String {
    match c {
        Call::Ok(v) => format!("Ok({})", v.render(300)),
        Call::Err(e) => format!("Err({}: {})", e.variant, e.payload),
        other => other.class(),
    }
}

/// cross-version part of C07: writer w's bytes followed by a suffix, read by r — whenever the documented outcome is a value
pub fn c07_cross(ctx: &mut Ctx, acc: &mut Acc) {
    let n = ctx.n(10, 100);
    let ps = pairs(ctx);
    for p in &ps {
        if p.w == p.r || !(p.flavour == "struct" || p.flavour == "variant") {
            continue;
        }
        // stored version >= 1, or version 0 without removals
        if p.w == 0 && p.h.reader_dropped_v0_field(p.w, p.r) {
            continue;
        }
        let rty = p.reader.ty();
        for idx in 0..n {
            let c = gen_case(ctx, p, crate::rt::TAG_C07 ^ 0xE0, idx);
            let Ok(exp) = expected_outcome(p, &c) else { continue };
            let Some((_x, bytes)) = encode_case(acc, p.writer, &c.written) else { continue };
            let mut rng = ctx.rng_for(crate::rt::TAG_C07 ^ 0xE1, p.reader.id(), idx);
            let k = rng.below(20) as usize;
            let suffix = rng.bytes(k);
            let mut buf = bytes.clone();
            buf.extend_from_slice(&suffix);
            acc.case(Some(sig(&[p.reader.id().as_bytes(), &buf])));
            let (got, rest) = dec_val_rest(p.reader, &buf);
            let ok = match &got {
                Call::Ok(v) => canon(&rty, v).map(|c| c == exp).unwrap_or(false) && rest == suffix.len(),
                _ => false,
            };
            if ok {
                acc.count("cross_version_exact_consumption");
            } else {
                acc.violation(
                    format!("C07|{}->{}|cross_version|{}", p.writer.id(), p.reader.id(), got.class()),
                    replay_decode("C07", p.reader.id(), &buf, "another version's encoding followed by a suffix")
                        .with("writer", J::s(p.writer.id()))
                        .with("suffix_len", J::u(suffix.len() as u64))
                        .with("left_unread", J::u(rest as u64)),
                );
            }
        }
    }
}

/// cross-version part of C08: every strict prefix of writer w's bytes (stored version >= 1) under reader r is an error
pub fn c08_cross(ctx: &mut Ctx, acc: &mut Acc) {
    let n = ctx.n(3, 30);
    let ps = pairs(ctx);
    for p in &ps {
        if p.w == p.r || p.w == 0 {
            continue;
        }
        for idx in 0..n {
            let c = gen_case(ctx, p, crate::rt::TAG_C08 ^ 0xE0, idx);
            let Some((_x, bytes)) = encode_case(acc, p.writer, &c.written) else { continue };
            for k in 0..bytes.len().min(2048) {
                let prefix = &bytes[..k];
                acc.case(Some(sig(&[p.reader.id().as_bytes(), prefix])));
                match sbase::dec(p.reader, prefix) {
                    Call::Err(_) => acc.count("cross_version_rejected"),
                    other => {
                        let class = if other.is_ok() { "decoded_ok".to_string() } else { other.class() };
                        acc.violation(
                            format!("C08|{}->{}|cross_version|{class}", p.writer.id(), p.reader.id()),
                            replay_decode("C08", p.reader.id(), prefix, "strict prefix of another version's encoding")
                                .with("writer", J::s(p.writer.id()))
                                .with("cut", J::u(k as u64))
                                .with("full_len", J::u(bytes.len() as u64)),
                        );
                    }
                }
            }
        }
    }
}
