//! Primitive read sequences over the three `BinaryInput` implementations: they must agree result by result
//! (C15) and must reject any requested length that does not fit, without panicking (C05).

use crate::common::*;
use desert::{BinaryInput, DeserializationContext, OwnedInput, SliceInput};
use monitors::json::J;
use monitors::{guarded, Outcome};
use refmodel::{hex, Rng};

#[derive(Clone, Debug)]
pub enum Op {
    U8,
    I8,
    U16,
    I16,
    U32,
    I32,
    U64,
    I64,
    U128,
    I128,
    F32,
    F64,
    VarU32,
    VarI32,
    Bytes(usize),
    Skip(usize),
    Compressed,
}

#[derive(Clone, Debug, PartialEq)]
pub enum R {
    Num(String),
    Bytes(Vec<u8>),
    Unit,
    Err(&'static str),
    Panic(String),
}

fn err_name(e: &desert::Error) -> &'static str {
    sbase::classify(e).variant
}

fn step<I: BinaryInput>(input: &mut I, op: &Op) -> R {
    let r = guarded(
        || -> Result<R, desert::Error> {
            Ok(match op {
                Op::U8 => R::Num(input.read_u8()?.to_string()),
                Op::I8 => R::Num(input.read_i8()?.to_string()),
                Op::U16 => R::Num(input.read_u16()?.to_string()),
                Op::I16 => R::Num(input.read_i16()?.to_string()),
                Op::U32 => R::Num(input.read_u32()?.to_string()),
                Op::I32 => R::Num(input.read_i32()?.to_string()),
                Op::U64 => R::Num(input.read_u64()?.to_string()),
                Op::I64 => R::Num(input.read_i64()?.to_string()),
                Op::U128 => R::Num(input.read_u128()?.to_string()),
                Op::I128 => R::Num(input.read_i128()?.to_string()),
                Op::F32 => R::Num(input.read_f32()?.to_bits().to_string()),
                Op::F64 => R::Num(input.read_f64()?.to_bits().to_string()),
                Op::VarU32 => R::Num(input.read_var_u32()?.to_string()),
                Op::VarI32 => R::Num(input.read_var_i32()?.to_string()),
                Op::Bytes(n) => R::Bytes(input.read_bytes(*n)?.to_vec()),
                Op::Skip(n) => {
                    input.skip(*n)?;
                    R::Unit
                }
                Op::Compressed => R::Bytes(input.read_compressed()?),
            })
        },
        |_| None,
    );
    match r {
        Outcome::Done(Ok(x)) => x,
        Outcome::Done(Err(e)) => R::Err(err_name(&e)),
        Outcome::Panicked(p) => R::Panic(monitors::normalise_site(&p.site)),
        Outcome::StepBudget(_) => R::Panic("step budget".into()),
    }
}

fn run<I: BinaryInput>(input: &mut I, ops: &[Op], total: usize) -> (Vec<R>, usize) {
    let mut out = Vec::with_capacity(ops.len());
    for op in ops {
        out.push(step(input, op));
    }
    // where does the input report its end?
    let mut rest = 0;
    while rest <= total {
        match guarded(|| input.read_u8(), |_| None) {
            Outcome::Done(Ok(_)) => rest += 1,
            _ => break,
        }
    }
    (out, rest)
}

fn gen_ops(rng: &mut Rng, len: usize, hostile: bool) -> Vec<Op> {
    let n = 1 + rng.below(30) as usize;
    let mut ops = Vec::with_capacity(n);
    let mut approx_pos = 0usize;
    for _ in 0..n {
        let op = match rng.below(20) {
            0 => Op::U8,
            1 => Op::I8,
            2 => Op::U16,
            3 => Op::I16,
            4 => Op::U32,
            5 => Op::I32,
            6 => Op::U64,
            7 => Op::I64,
            8 => Op::U128,
            9 => Op::I128,
            10 => Op::F32,
            11 => Op::F64,
            12 | 13 => Op::VarU32,
            14 => Op::VarI32,
            15 | 16 | 17 => {
                let remaining = len.saturating_sub(approx_pos);
                let count = if hostile {
                    match rng.below(8) {
                        0 => 0,
                        1 => 1,
                        2 => remaining,
                        3 => remaining + 1,
                        4 => usize::MAX,
                        5 => (usize::MAX - approx_pos).wrapping_add(rng.below(3) as usize),
                        6 => usize::MAX - approx_pos,
                        _ => rng.below(remaining as u64 + 3) as usize,
                    }
                } else {
                    rng.below(remaining as u64 + 3) as usize
                };
                if rng.chance(1, 2) {
                    Op::Bytes(count)
                } else {
                    Op::Skip(count)
                }
            }
            _ => {
                if rng.chance(1, 4) {
                    Op::Compressed
                } else {
                    Op::VarU32
                }
            }
        };
        approx_pos += match &op {
            Op::U8 | Op::I8 => 1,
            Op::U16 | Op::I16 => 2,
            Op::U32 | Op::I32 | Op::F32 => 4,
            Op::U64 | Op::I64 | Op::F64 => 8,
            Op::U128 | Op::I128 => 16,
            Op::VarU32 | Op::VarI32 => 1,
            Op::Bytes(k) | Op::Skip(k) => {
                if *k <= len {
                    *k
                } else {
                    0
                }
            }
            Op::Compressed => 2,
        };
        approx_pos = approx_pos.min(len);
        ops.push(op);
    }
    ops
}

fn gen_buffer(rng: &mut Rng) -> Vec<u8> {
    let n = match rng.below(6) {
        0 => 0,
        1 => rng.below(4) as usize,
        _ => rng.below(96) as usize,
    };
    let mut b = rng.bytes(n);
    // structured: small varints and lengths, so that compressed / bytes reads get somewhere
    if rng.chance(1, 2) {
        for x in b.iter_mut() {
            if rng.chance(1, 2) {
                *x &= 0x0f;
            }
        }
    }
    b
}

/// returns the number of sequences run
pub fn op_sequences(ctx: &mut Ctx, acc: &mut Acc, check: &str, hostile: bool, rounds: u64) {
    for round in 0..rounds {
        if round as usize % ctx.shards != ctx.shard {
            continue;
        }
        let mut rng = ctx.rng_for(0x10F5 ^ (hostile as u64), check, round);
        let buf = gen_buffer(&mut rng);
        let ops = gen_ops(&mut rng, buf.len(), hostile);
        if ctx.crumb.active() {
            ctx.crumb.set(&format!(
                "{{\"check\":\"{check}\",\"subject\":\"BinaryInput\",\"what\":\"ops {}\",\"len\":{},\"hex\":\"{}\"}}",
                format!("{ops:?}").replace('"', "'"),
                buf.len(),
                hex(&buf)
            ));
        }
        monitors::alloc::begin();
        let (a, ra) = run(&mut SliceInput::new(&buf), &ops, buf.len());
        let (b, rb) = run(&mut OwnedInput::new(buf.clone()), &ops, buf.len());
        let (c, rc) = run(&mut DeserializationContext::new(&buf), &ops, buf.len());
        let st = monitors::alloc::end();
        acc.case(Some(sig(&[&buf, format!("{ops:?}").as_bytes()])));
        acc.add("primitive_reads", 3 * ops.len() as u64);
        let detail = |what: &str| {
            J::obj()
                .with("check", J::s(check))
                .with("mode", J::s("ops"))
                .with("hex", J::s(hex(&buf)))
                .with("ops", J::s(format!("{ops:?}")))
                .with("what", J::s(what))
                .with("slice_input", J::s(format!("{a:?} rest={ra}")))
                .with("owned_input", J::s(format!("{b:?} rest={rb}")))
                .with("deserialization_context", J::s(format!("{c:?} rest={rc}")))
        };
        if check == "C15" {
            if a != b || a != c || ra != rb || ra != rc {
                acc.violation("C15|inputs_disagree".to_string(), detail("the three inputs disagree"));
            } else {
                acc.count("input_sequences_agree");
            }
        } else {
            for (name, rs) in [("SliceInput", &a), ("OwnedInput", &b), ("DeserializationContext", &c)] {
                for (i, r) in rs.iter().enumerate() {
                    if let R::Panic(site) = r {
                        acc.violation(format!("C05|panic:{site}"), detail(&format!("{name} panicked on op {i} {:?}", ops[i])));
                    }
                }
            }
            // the only legitimate big request here is an inflated block, which C16 judges
            if !ops.iter().any(|o| matches!(o, Op::Compressed)) && st.max_single > 64 * 1024 + 256 * buf.len() {
                acc.violation("C05|alloc|BinaryInput".to_string(), detail(&format!("single allocation of {} bytes", st.max_single)));
            }
            // a SliceInput whose cursor already lies behind the data (its fields are public): nothing can be read from it
            let beyond = buf.len() + 1 + (round as usize % 3);
            let (d, _) = run(&mut SliceInput { data: &buf, pos: beyond }, &ops, buf.len());
            for (i, r) in d.iter().enumerate() {
                match r {
                    R::Panic(site) => acc.violation(format!("C05|panic:{site}"), detail(&format!("SliceInput with pos {beyond} > len panicked on op {i} {:?}", ops[i]))),
                    R::Num(_) => acc.violation("C05|read_behind_the_data".to_string(), detail(&format!("SliceInput with pos {beyond} > len returned a number on op {i} {:?}", ops[i]))),
                    R::Bytes(b) if !b.is_empty() => acc.violation("C05|read_behind_the_data".to_string(), detail(&format!("SliceInput with pos {beyond} > len returned bytes on op {i} {:?}", ops[i]))),
                    _ => {}
                }
            }
            acc.count("slice_input_cursor_behind_the_data");
            acc.count("hostile_op_sequences");
        }
    }
}

pub fn hostile_ops(ctx: &mut Ctx, acc: &mut Acc, check: &str) {
    let rounds = ctx.n(200_000, 2_000_000);
    op_sequences(ctx, acc, check, true, rounds);
}
