//! xoshiro256** — the harness's own PRNG (no crates), seeded through splitmix64.

#[derive(Clone, Debug)]
pub struct Rng {
    s: [u64; 4],
}

fn splitmix(x: &mut u64) -> u64 {
    *x = x.wrapping_add(0x9E37_79B9_7F4A_7C15);
    let mut z = *x;
    z = (z ^ (z >> 30)).wrapping_mul(0xBF58_476D_1CE4_E5B9);
    z = (z ^ (z >> 27)).wrapping_mul(0x94D0_49BB_1331_11EB);
    z ^ (z >> 31)
}

impl Rng {
    pub fn new(seed: u64) -> Self {
        let mut x = seed;
        let s = [splitmix(&mut x), splitmix(&mut x), splitmix(&mut x), splitmix(&mut x)];
        Rng { s }
    }

    /// Derive an independent stream from a seed and a list of words (check id, type id, case index …).
    pub fn derive(seed: u64, words: &[u64]) -> Self {
        let mut x = seed ^ 0xD1B5_4A32_D192_ED03;
        let mut acc = splitmix(&mut x);
        for w in words {
            x ^= *w;
            acc ^= splitmix(&mut x).rotate_left(17);
        }
        Rng::new(acc)
    }

    pub fn next_u64(&mut self) -> u64 {
        let result = self.s[1].wrapping_mul(5).rotate_left(7).wrapping_mul(9);
        let t = self.s[1] << 17;
        self.s[2] ^= self.s[0];
        self.s[3] ^= self.s[1];
        self.s[1] ^= self.s[2];
        self.s[0] ^= self.s[3];
        self.s[2] ^= t;
        self.s[3] = self.s[3].rotate_left(45);
        result
    }

    pub fn next_u32(&mut self) -> u32 {
        (self.next_u64() >> 32) as u32
    }

    pub fn next_u128(&mut self) -> u128 {
        ((self.next_u64() as u128) << 64) | self.next_u64() as u128
    }

    /// Uniform in `0..n` (n > 0).
    pub fn below(&mut self, n: u64) -> u64 {
        if n <= 1 {
            return 0;
        }
        // multiply-shift; bias is irrelevant for workload generation
        ((self.next_u64() as u128 * n as u128) >> 64) as u64
    }

    pub fn range(&mut self, lo: i64, hi_incl: i64) -> i64 {
        let span = (hi_incl as i128 - lo as i128 + 1) as u64;
        if span == 0 {
            return self.next_u64() as i64;
        }
        (lo as i128 + self.below(span) as i128) as i64
    }

    pub fn chance(&mut self, num: u64, den: u64) -> bool {
        self.below(den) < num
    }

    pub fn pick<'a, T>(&mut self, xs: &'a [T]) -> &'a T {
        &xs[self.below(xs.len() as u64) as usize]
    }

    pub fn bytes(&mut self, n: usize) -> Vec<u8> {
        let mut v = Vec::with_capacity(n);
        while v.len() < n {
            let w = self.next_u64().to_le_bytes();
            let take = (n - v.len()).min(8);
            v.extend_from_slice(&w[..take]);
        }
        v
    }
}

/// FNV-1a, used for case signatures (distinct-case counting) — deterministic across processes.
pub fn fnv64(data: &[u8]) -> u64 {
    let mut h: u64 = 0xcbf2_9ce4_8422_2325;
    for b in data {
        h ^= *b as u64;
        h = h.wrapping_mul(0x0000_0100_0000_01B3);
    }
    h
}

pub fn fnv64_str(s: &str) -> u64 {
    fnv64(s.as_bytes())
}
