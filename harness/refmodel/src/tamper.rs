//! Structure-aware tampering of valid encodings, driven by the reference decoder's annotated parse (DESIGN §5).

use crate::dec::{Annot, AnnotKind};
use crate::enc::{vi_bytes, vu_bytes};
use crate::rng::Rng;

pub const TAMPER_CLASSES: [&str; 12] = [
    "rewrite_chunk_size",
    "rewrite_count",
    "rewrite_length",
    "rewrite_tag",
    "rewrite_position",
    "rewrite_version",
    "rewrite_ctor",
    "rewrite_string_id",
    "chunk_surgery",
    "splice",
    "bitflip",
    "overwrite",
];

fn class_of(kind: AnnotKind) -> &'static str {
    match kind {
        AnnotKind::ChunkSize | AnnotKind::StepCode => "rewrite_chunk_size",
        AnnotKind::Count => "rewrite_count",
        AnnotKind::StrLen | AnnotKind::BytesLen => "rewrite_length",
        AnnotKind::Tag | AnnotKind::ItemFlag => "rewrite_tag",
        AnnotKind::PositionByte => "rewrite_position",
        AnnotKind::Version => "rewrite_version",
        AnnotKind::CtorIndex => "rewrite_ctor",
        AnnotKind::StringId => "rewrite_string_id",
        AnnotKind::Chunk | AnnotKind::Record => "chunk_surgery",
    }
}

fn new_value(rng: &mut Rng, old: i64) -> i64 {
    match rng.below(12) {
        0 => 0,
        1 => -1,
        2 => old + 1,
        3 => old - 1,
        4 => old + rng.range(2, 9),
        5 => old - rng.range(2, 9),
        6 => i32::MAX as i64,
        7 => i32::MIN as i64,
        8 => -old,
        9 => old * 2,
        10 => -2,
        _ => rng.range(-3, 300),
    }
}

fn splice(bytes: &[u8], off: usize, len: usize, with: &[u8]) -> Vec<u8> {
    let mut v = Vec::with_capacity(bytes.len() + with.len());
    v.extend_from_slice(&bytes[..off]);
    v.extend_from_slice(with);
    v.extend_from_slice(&bytes[off + len..]);
    v
}

/// rewrite one annotated scalar; returns None if the rewrite would not change the bytes
pub fn rewrite(bytes: &[u8], a: &Annot, rng: &mut Rng) -> Option<(&'static str, Vec<u8>)> {
    let class = class_of(a.kind);
    let repl: Vec<u8> = match a.kind {
        AnnotKind::ChunkSize | AnnotKind::StepCode | AnnotKind::Count | AnnotKind::StrLen | AnnotKind::StringId => {
            let v = new_value(rng, a.value).clamp(i32::MIN as i64, i32::MAX as i64) as i32;
            vi_bytes(v)
        }
        AnnotKind::BytesLen | AnnotKind::CtorIndex => {
            let v = new_value(rng, a.value);
            let v = if v < 0 { (v as i32) as u32 } else { v.min(u32::MAX as i64) as u32 };
            vu_bytes(v)
        }
        AnnotKind::Tag | AnnotKind::ItemFlag | AnnotKind::Version | AnnotKind::PositionByte => {
            let v = match rng.below(8) {
                0 => 0u8,
                1 => 1,
                2 => 2,
                3 => 0xff,
                4 => 0x80,
                5 => (a.value as u8).wrapping_add(1),
                6 => (a.value as u8).wrapping_sub(1),
                _ => rng.below(256) as u8,
            };
            vec![v]
        }
        AnnotKind::Chunk | AnnotKind::Record => return None,
    };
    let out = splice(bytes, a.off, a.len, &repl);
    if out == bytes {
        None
    } else {
        Some((class, out))
    }
}

/// delete / duplicate / swap / zero-fill whole chunks without repairing the sizes in the header
pub fn chunk_surgery(bytes: &[u8], annots: &[Annot], rng: &mut Rng) -> Option<(&'static str, Vec<u8>)> {
    let chunks: Vec<&Annot> = annots.iter().filter(|a| a.kind == AnnotKind::Chunk || a.kind == AnnotKind::Record).collect();
    if chunks.is_empty() {
        return None;
    }
    let a = *rng.pick(&chunks);
    let out = match rng.below(4) {
        0 => splice(bytes, a.off, a.len, &[]),
        1 => {
            let dup = [&bytes[a.off..a.off + a.len], &bytes[a.off..a.off + a.len]].concat();
            splice(bytes, a.off, a.len, &dup)
        }
        2 => {
            let b = *rng.pick(&chunks);
            if b.off >= a.off + a.len {
                // swap a and b
                let mut v = Vec::new();
                v.extend_from_slice(&bytes[..a.off]);
                v.extend_from_slice(&bytes[b.off..b.off + b.len]);
                v.extend_from_slice(&bytes[a.off + a.len..b.off]);
                v.extend_from_slice(&bytes[a.off..a.off + a.len]);
                v.extend_from_slice(&bytes[b.off + b.len..]);
                v
            } else {
                splice(bytes, a.off, a.len, &vec![0u8; a.len])
            }
        }
        _ => {
            // drop the tail of the chunk
            let keep = rng.below(a.len as u64) as usize;
            splice(bytes, a.off + keep, a.len - keep, &[])
        }
    };
    if out == bytes {
        None
    } else {
        Some(("chunk_surgery", out))
    }
}

pub fn bitflip(bytes: &[u8], rng: &mut Rng) -> Option<(&'static str, Vec<u8>)> {
    if bytes.is_empty() {
        return None;
    }
    let mut out = bytes.to_vec();
    let i = rng.below(bytes.len() as u64) as usize;
    out[i] ^= 1 << rng.below(8);
    Some(("bitflip", out))
}

pub fn overwrite(bytes: &[u8], rng: &mut Rng) -> Option<(&'static str, Vec<u8>)> {
    if bytes.is_empty() {
        return None;
    }
    let mut out = bytes.to_vec();
    let i = rng.below(bytes.len() as u64) as usize;
    let n = 1 + rng.below(8.min(bytes.len() - i) as u64) as usize;
    let dict: [&[u8]; 8] = [
        &[0xff, 0xff, 0xff, 0xff, 0x0f],
        &[0xfe, 0xff, 0xff, 0xff, 0x0f],
        &[0x01],
        &[0x03],
        &[0x80, 0x80, 0x80, 0x80, 0x00],
        &[0x00],
        &[0xff],
        &[0x80],
    ];
    if rng.chance(1, 2) {
        let d = *rng.pick(&dict);
        let n = d.len().min(bytes.len() - i);
        out[i..i + n].copy_from_slice(&d[..n]);
    } else {
        let r = rng.bytes(n);
        out[i..i + n].copy_from_slice(&r);
    }
    if out == bytes {
        None
    } else {
        Some(("overwrite", out))
    }
}

pub fn splice_two(a: &[u8], b: &[u8], rng: &mut Rng) -> Option<(&'static str, Vec<u8>)> {
    if a.is_empty() || b.is_empty() {
        return None;
    }
    let i = rng.below(a.len() as u64 + 1) as usize;
    let j = rng.below(b.len() as u64 + 1) as usize;
    let out = [&a[..i], &b[j..]].concat();
    if out == a {
        None
    } else {
        Some(("splice", out))
    }
}

/// one random tampering of `bytes`; `other` is another valid encoding of the same type for splicing
pub fn tamper(bytes: &[u8], annots: &[Annot], other: &[u8], rng: &mut Rng) -> Option<(&'static str, Vec<u8>)> {
    let scalars: Vec<&Annot> =
        annots.iter().filter(|a| a.kind != AnnotKind::Chunk && a.kind != AnnotKind::Record).collect();
    for _ in 0..8 {
        let r = match rng.below(10) {
            0..=5 if !scalars.is_empty() => {
                // pick a kind first so that rare kinds (sizes, positions) are not drowned by tags and lengths
                let mut kinds: Vec<AnnotKind> = scalars.iter().map(|a| a.kind).collect();
                kinds.sort();
                kinds.dedup();
                let k = *rng.pick(&kinds);
                let of_kind: Vec<&Annot> = scalars.iter().filter(|a| a.kind == k).copied().collect();
                let a = *rng.pick(&of_kind);
                rewrite(bytes, a, rng)
            }
            6 => chunk_surgery(bytes, annots, rng),
            7 => splice_two(bytes, other, rng),
            8 => bitflip(bytes, rng),
            _ => overwrite(bytes, rng),
        };
        if r.is_some() {
            return r;
        }
    }
    None
}
