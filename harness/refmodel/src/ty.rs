//! Vocabulary of the reference model: type expressions, plain value trees, record / enum schemas.

use std::collections::HashMap;
use std::sync::{Arc, OnceLock, RwLock};

#[derive(Clone, Debug, PartialEq)]
pub enum Ty {
    U8,
    I8,
    U16,
    I16,
    U32,
    I32,
    U64,
    I64,
    U128,
    I128,
    F32,
    F64,
    Bool,
    Unit,
    Char,
    Str,
    DedupStr,
    /// a u32 written as an unsigned varint (used by hand-written codecs, e.g. the Scala stack-trace element)
    VarU32,
    Duration,
    Opt(Box<Ty>),
    /// Result<Ok, Err>
    Res(Box<Ty>, Box<Ty>),
    Tuple(Vec<Ty>),
    /// ordered sequence in the generic (count / unknown-size) form: Vec<T≠u8>, LinkedList, slices
    Seq(Box<Ty>),
    Set(Box<Ty>),
    Map(Box<Ty>, Box<Ty>),
    /// [T; N], T ≠ u8
    Array(Box<Ty>, usize),
    /// byte-array form (var_u32 length + raw): Vec<u8>, bytes::Bytes, &[u8]
    Bytes,
    /// [u8; N]
    ByteArray(usize),
    /// Box / Rc / Arc / & — nothing on the wire, but `Vec<Box<u8>>` is not `Vec<u8>`
    Wrap(Box<Ty>),
    /// a client codec that tries to read the inner type and carries on when that fails (`Tolerant<T>` of the harness):
    /// the value at this position and the cursor afterwards are the client's business — the reference decoder only
    /// answers for what lies in *other* chunk windows (see `Dec::lenient`)
    Lenient(Box<Ty>),
    Uuid,
    BigInt,
    BigDecimal,
    Weekday,
    Month,
    FixedOffset,
    Tz,
    DateTimeUtc,
    NaiveDate,
    NaiveTime,
    NaiveDateTime,
    DateTimeLocal,
    DateTimeFixed,
    DateTimeTz,
    Record(Arc<RecordSchema>),
    Enum(Arc<EnumSchema>),
    /// reference to a registered declaration (recursion, and to keep schemas small)
    Named(String),
}

#[derive(Clone, Debug, PartialEq, Eq, PartialOrd, Ord, Hash)]
pub enum Val {
    Unit,
    Bool(bool),
    U(u128),
    I(i128),
    /// bit pattern
    F32(u32),
    /// bit pattern
    F64(u64),
    /// Unicode scalar value
    Char(u32),
    Str(String),
    Bytes(Vec<u8>),
    None,
    Some(Box<Val>),
    Ok(Box<Val>),
    Err(Box<Val>),
    Tuple(Vec<Val>),
    /// sequences, sets (elements), maps (Tuple[k, v] items), arrays
    Seq(Vec<Val>),
    /// all declared fields in declaration order (transient ones included)
    Rec(Vec<Val>),
    /// constructor by *declaration* index, with all declared fields
    Ctor(usize, Vec<Val>),
}

#[derive(Clone, Debug, PartialEq)]
pub struct FieldSchema {
    pub name: String,
    pub ty: Ty,
    /// what the derive macro sees: the type is spelled `Option<..>` / `std::option::Option<..>` / `core::option::Option<..>`
    pub opt_by_name: bool,
    pub transient: bool,
    /// transient default, or the default given in `FieldAdded(name, default)`
    pub default: Option<Val>,
}

#[derive(Clone, Debug, PartialEq)]
pub enum Step {
    Added(String),
    MadeOptional(String),
    Removed(String),
    MadeTransient(String),
}

impl Step {
    pub fn field(&self) -> &str {
        match self {
            Step::Added(n) | Step::MadeOptional(n) | Step::Removed(n) | Step::MadeTransient(n) => n,
        }
    }
}

#[derive(Clone, Debug, PartialEq)]
pub struct RecordSchema {
    pub name: String,
    pub fields: Vec<FieldSchema>,
    /// evolution steps after the implicit InitialVersion; version = steps.len()
    pub steps: Vec<Step>,
}

#[derive(Clone, Copy, Debug, PartialEq, Eq)]
pub enum VariantKind {
    Unit,
    Tuple,
    Struct,
}

#[derive(Clone, Debug, PartialEq)]
pub struct VariantSchema {
    pub name: String,
    pub kind: VariantKind,
    pub transient: bool,
    /// fields + evolution of the variant (name = variant name)
    pub record: RecordSchema,
}

#[derive(Clone, Debug, PartialEq)]
pub struct EnumSchema {
    pub name: String,
    pub sorted: bool,
    /// in declaration order
    pub variants: Vec<VariantSchema>,
}

impl EnumSchema {
    /// wire index of the variant with declaration index `decl`
    pub fn wire_index(&self, decl: usize) -> u32 {
        self.order().iter().position(|d| *d == decl).unwrap() as u32
    }

    /// declaration indices in wire-index order
    pub fn order(&self) -> Vec<usize> {
        let mut idx: Vec<usize> = (0..self.variants.len()).collect();
        if self.sorted {
            // stable sort by name, as `sort_by_key(ident.to_string())`
            idx.sort_by(|a, b| self.variants[*a].name.cmp(&self.variants[*b].name));
        }
        idx
    }

    pub fn decl_of_wire(&self, wire: u32) -> Option<usize> {
        self.order().get(wire as usize).copied()
    }
}

impl RecordSchema {
    pub fn version(&self) -> usize {
        self.steps.len()
    }

    /// chunk ("generation") of a field: index of the last FieldAdded step that names it (a name may come back after its
    /// field was removed: the declared field is the latest one of that name), else 0
    pub fn generation(&self, field: &str) -> usize {
        let mut r = 0;
        for (i, s) in self.steps.iter().enumerate() {
            if let Step::Added(n) = s {
                if n == field {
                    r = i + 1;
                }
            }
        }
        r
    }

    /// step number (1-based) of the *reader's* FieldMadeOptional for the field, 0 if none
    pub fn made_optional_at(&self, field: &str) -> usize {
        let mut r = 0;
        for (i, s) in self.steps.iter().enumerate() {
            if let Step::MadeOptional(n) = s {
                if n == field {
                    r = i + 1; // collect() into a map: the last one wins
                }
            }
        }
        r
    }
}

// -------------------------------------------------------------------------------------------------
// registry of named declarations

fn registry() -> &'static RwLock<HashMap<String, Ty>> {
    static R: OnceLock<RwLock<HashMap<String, Ty>>> = OnceLock::new();
    R.get_or_init(|| RwLock::new(HashMap::new()))
}

pub fn register(name: &str, ty: Ty) {
    registry().write().unwrap().insert(name.to_string(), ty);
}

pub fn is_registered(name: &str) -> bool {
    registry().read().unwrap().contains_key(name)
}

pub fn resolve(name: &str) -> Ty {
    match registry().read().unwrap().get(name) {
        Some(t) => t.clone(),
        None => panic!("refmodel: unresolved type name {name}"),
    }
}

impl Ty {
    pub fn boxed(self) -> Box<Ty> {
        Box::new(self)
    }

    /// follow Named links
    pub fn resolved(&self) -> Ty {
        let mut t = self.clone();
        let mut guard = 0;
        while let Ty::Named(n) = &t {
            t = resolve(n);
            guard += 1;
            assert!(guard < 100, "Named cycle");
        }
        t
    }

    /// short rendering for ids and evidence
    pub fn render(&self) -> String {
        match self {
            Ty::Opt(t) => format!("Option<{}>", t.render()),
            Ty::Res(a, b) => format!("Result<{},{}>", a.render(), b.render()),
            Ty::Tuple(ts) => format!(
                "({})",
                ts.iter().map(|t| t.render()).collect::<Vec<_>>().join(",")
            ),
            Ty::Seq(t) => format!("Seq<{}>", t.render()),
            Ty::Set(t) => format!("Set<{}>", t.render()),
            Ty::Map(k, v) => format!("Map<{},{}>", k.render(), v.render()),
            Ty::Array(t, n) => format!("[{};{}]", t.render(), n),
            Ty::ByteArray(n) => format!("[u8;{n}]"),
            Ty::Wrap(t) => format!("Box<{}>", t.render()),
            Ty::Lenient(t) => format!("Tolerant<{}>", t.render()),
            Ty::Record(r) => format!("record {}", r.name),
            Ty::Enum(e) => format!("enum {}", e.name),
            Ty::Named(n) => n.clone(),
            other => format!("{other:?}"),
        }
    }

    /// does any value of this type have an empty encoding (unit, phantom, zero-length byte array …)
    pub fn may_encode_empty(&self) -> bool {
        match self.resolved() {
            Ty::Unit => true,
            Ty::Wrap(t) | Ty::Lenient(t) => t.may_encode_empty(),
            _ => false,
        }
    }

    /// does the type contain a set or map (whose wire order is not determined by the value)
    pub fn has_unordered(&self) -> bool {
        self.any(&mut |t| matches!(t, Ty::Set(_) | Ty::Map(_, _)), &mut Vec::new())
    }

    pub fn has_dedup(&self) -> bool {
        self.any(&mut |t| matches!(t, Ty::DedupStr), &mut Vec::new())
    }

    pub fn any(&self, f: &mut dyn FnMut(&Ty) -> bool, seen: &mut Vec<String>) -> bool {
        if f(self) {
            return true;
        }
        match self {
            Ty::Opt(t) | Ty::Seq(t) | Ty::Set(t) | Ty::Array(t, _) | Ty::Wrap(t) | Ty::Lenient(t) => t.any(f, seen),
            Ty::Res(a, b) | Ty::Map(a, b) => a.any(f, seen) || b.any(f, seen),
            Ty::Tuple(ts) => ts.iter().any(|t| t.any(f, seen)),
            Ty::Record(r) => r.fields.iter().any(|x| x.ty.any(f, seen)),
            Ty::Enum(e) => e
                .variants
                .iter()
                .any(|v| v.record.fields.iter().any(|x| x.ty.any(f, seen))),
            Ty::Named(n) => {
                if seen.contains(n) {
                    false
                } else {
                    seen.push(n.clone());
                    resolve(n).any(f, seen)
                }
            }
            _ => false,
        }
    }
}

impl Val {
    pub fn some(v: Val) -> Val {
        Val::Some(Box::new(v))
    }

    /// compact rendering for evidence samples (bounded length)
    pub fn render(&self, budget: usize) -> String {
        let s = format!("{self:?}");
        if s.len() > budget {
            let mut cut = budget;
            while !s.is_char_boundary(cut) {
                cut -= 1;
            }
            format!("{}…", &s[..cut])
        } else {
            s
        }
    }
}
