//! Boundary-biased value generator walking a `Ty` (DESIGN §5).  Values are returned in canonical form.

use crate::canon::canon;
use crate::rng::Rng;
use crate::ty::*;

pub struct GenCtx {
    pub tz_names: std::sync::Arc<Vec<String>>,
    /// only values the format can encode (BMP chars …)
    pub encodable: bool,
    pub max_depth: usize,
    /// upper bound for ordinary collection sizes
    pub max_len: usize,
    /// allow the occasional large string / collection (multi-byte counts)
    pub allow_large: bool,
    /// may pick transient constructors of enums (values whose encoding must fail with the dedicated error)
    pub transient_ctors: bool,
    /// numbers outside the value domain of the time types (month 13, year beyond chrono's range, offsets beyond a day,
    /// nanoseconds beyond a second …): well-framed but meaningless wire data for the hostile decode workloads
    pub out_of_domain: bool,
    /// DateTime<Local>: also draw wall-clock times next to typical daylight-saving transitions (some of them do not exist
    /// in a given zone — callers that need constructible values everywhere leave this off)
    pub dst_edges: bool,
}

impl Default for GenCtx {
    fn default() -> Self {
        GenCtx {
            tz_names: std::sync::Arc::new(vec![
                "UTC".into(),
                "Europe/Budapest".into(),
                "America/New_York".into(),
                "Asia/Kolkata".into(),
                "Pacific/Kiritimati".into(),
                "Etc/GMT+12".into(),
                "Australia/Lord_Howe".into(),
            ]),
            encodable: true,
            max_depth: 5,
            max_len: 6,
            allow_large: true,
            transient_ctors: false,
            out_of_domain: false,
            dst_edges: false,
        }
    }
}

pub fn is_leap(y: i64) -> bool {
    (y % 4 == 0 && y % 100 != 0) || y % 400 == 0
}

pub fn days_in_month(y: i64, m: u32) -> u32 {
    match m {
        1 | 3 | 5 | 7 | 8 | 10 | 12 => 31,
        4 | 6 | 9 | 11 => 30,
        _ => {
            if is_leap(y) {
                29
            } else {
                28
            }
        }
    }
}

pub const YEAR_MIN: i64 = -262_143;
pub const YEAR_MAX: i64 = 262_142;
pub const UTC_TS_MIN: i64 = -8_334_601_228_800;
pub const UTC_TS_MAX: i64 = 8_210_266_876_799;

fn uint(rng: &mut Rng, bits: u32) -> u128 {
    let max: u128 = if bits == 128 { u128::MAX } else { (1u128 << bits) - 1 };
    match rng.below(10) {
        0 => 0,
        1 => 1,
        2 => max,
        3 => max - 1,
        4 => {
            // around a 7-bit boundary
            let k = 1 + rng.below((bits as u64 - 1) / 7) as u32;
            let b = 1u128 << (7 * k).min(bits - 1);
            (b as i128 + rng.range(-1, 1) as i128) as u128 & max
        }
        5 => max >> 1,
        6 => (max >> 1) + 1,
        _ => rng.next_u128() & max,
    }
}

fn sint(rng: &mut Rng, bits: u32) -> i128 {
    let u = uint(rng, bits);
    // reinterpret as two's complement of that width
    if bits == 128 {
        u as i128
    } else if u >> (bits - 1) & 1 == 1 {
        u as i128 - (1i128 << bits)
    } else {
        u as i128
    }
}

const F32_EDGES: [u32; 12] = [
    0x0000_0000, 0x8000_0000, 0x7f80_0000, 0xff80_0000, 0x7fc0_0000, 0x7fa0_0001, 0xffff_ffff, 0x0000_0001, 0x007f_ffff,
    0x3f80_0000, 0x7f7f_ffff, 0x7fc1_2345,
];
const F64_EDGES: [u64; 10] = [
    0,
    0x8000_0000_0000_0000,
    0x7ff0_0000_0000_0000,
    0xfff0_0000_0000_0000,
    0x7ff8_0000_0000_0000,
    0x7ff4_0000_0000_0001,
    0xffff_ffff_ffff_ffff,
    1,
    0x3ff0_0000_0000_0000,
    0x7ff8_dead_beef_0001,
];

pub fn gen_char(rng: &mut Rng, encodable: bool) -> u32 {
    loop {
        let c = match rng.below(12) {
            0 => 0,
            1 => 0xFFFF,
            2 => 0xD7FF,
            3 => 0xE000,
            4 => 0x7f,
            5 => 0x80,
            6 => 0x7ff,
            7 => 0x800,
            8 if !encodable => 0x10000 + rng.below(0x100000) as u32,
            9 if !encodable => 0x10FFFF,
            _ => rng.below(0x10000) as u32,
        };
        if (0xD800..=0xDFFF).contains(&c) {
            continue;
        }
        return c;
    }
}

const WORDS: [&str; 14] = [
    "", "a", "hello", "ß", "árvíztűrő tükörfúrógép", "日本語", "\u{0}", "x\u{7f}y", "😀", "desert", "q", "\u{ffff}", " ", "\"quoted\"\n",
];

pub fn gen_string(rng: &mut Rng, allow_large: bool) -> String {
    match rng.below(20) {
        0 => String::new(),
        1..=8 => rng.pick(&WORDS).to_string(),
        9..=14 => {
            // mostly short; one in six is long with characters of mixed width (char boundaries at no regular offset)
            let n = if rng.chance(1, 6) { 12 + rng.below(150) as usize } else { rng.below(12) as usize };
            let mut s = String::new();
            for _ in 0..n {
                let bmp = rng.chance(3, 4);
                let c = gen_char(rng, bmp);
                s.push(char::from_u32(c).unwrap());
            }
            s
        }
        15 => "x".repeat(*rng.pick(&[63usize, 64, 65, 127, 128])),
        16 if allow_large => "é".repeat(*rng.pick(&[4095usize, 4096, 4097])), // 8190 / 8192 / 8194 bytes
        17 if allow_large => {
            let n = *rng.pick(&[8191usize, 8192, 8193, 20_000]);
            let mut s = String::with_capacity(n);
            for i in 0..n {
                s.push((b'a' + (i % 26) as u8) as char);
            }
            s
        }
        _ => {
            let n = rng.below(40) as usize;
            (0..n).map(|_| (b' ' + rng.below(95) as u8) as char).collect()
        }
    }
}

fn gen_len(rng: &mut Rng, ctx: &GenCtx, depth: usize) -> usize {
    if depth >= ctx.max_depth {
        return 0;
    }
    let cap = (ctx.max_len >> depth.min(3)).max(1) as u64;
    match rng.below(16) {
        0 | 1 => 0,
        2 => 1,
        3 if ctx.allow_large && depth == 0 => *rng.pick(&[63usize, 64, 65, 127, 128, 129]),
        _ => rng.below(cap + 1) as usize,
    }
}

fn gen_date(rng: &mut Rng) -> Val {
    let y: i64 = match rng.below(12) {
        0 => YEAR_MIN,
        1 => YEAR_MAX,
        2 => 0,
        3 => -1,
        4 => 1970,
        5 => 2000,
        6 => 1900,
        7 => rng.range(YEAR_MIN, YEAR_MAX),
        _ => rng.range(1600, 2400),
    };
    let m = match rng.below(6) {
        0 => 1,
        1 => 12,
        2 => 2,
        _ => rng.range(1, 12) as u32,
    };
    let dim = days_in_month(y, m);
    let d = match rng.below(4) {
        0 => 1,
        1 => dim,
        _ => rng.range(1, dim as i64) as u32,
    };
    Val::Tuple(vec![Val::I(y as i128), Val::U(m as u128), Val::U(d as u128)])
}

/// day of month of the last Sunday of (year, month) — proleptic Gregorian, Sakamoto's method
fn last_sunday(y: i64, m: u32) -> u32 {
    let dim = days_in_month(y, m);
    let t = [0, 3, 2, 5, 0, 3, 5, 1, 4, 6, 2, 4];
    let yy = if m < 3 { y - 1 } else { y };
    let dow = (yy + yy / 4 - yy / 100 + yy / 400 + t[(m - 1) as usize] + dim as i64).rem_euclid(7); // 0 = Sunday
    dim - dow as u32
}

/// a wall-clock time within a few hours of a typical daylight-saving transition (last Sunday of March / October, first
/// Sunday of November, second Sunday of March): where local-time arithmetic goes wrong if it goes wrong
fn near_dst_transition(rng: &mut Rng) -> Val {
    let y = rng.range(1985, 2035);
    let (m, d) = match rng.below(4) {
        0 => (3, last_sunday(y, 3)),
        1 => (10, last_sunday(y, 10)),
        2 => (11, last_sunday(y, 10) % 7 + 1), // first Sunday of November
        _ => (3, last_sunday(y, 3) % 7 + 8),   // second Sunday of March
    };
    let d = d.clamp(1, days_in_month(y, m));
    let h = rng.below(5);
    Val::Tuple(vec![
        Val::Tuple(vec![Val::I(y as i128), Val::U(m as u128), Val::U(d as u128)]),
        Val::Tuple(vec![Val::U(h as u128), Val::U(rng.below(60) as u128), Val::U(rng.below(60) as u128), Val::U(rng.below(1_000_000_000) as u128)]),
    ])
}

fn gen_time(rng: &mut Rng) -> Val {
    let (h, m, s) = match rng.below(5) {
        0 => (0, 0, 0),
        1 => (23, 59, 59),
        _ => (rng.below(24), rng.below(60), rng.below(60)),
    };
    let n: u64 = match rng.below(8) {
        0 => 0,
        1 => 999_999_999,
        2 if s == 59 => 1_000_000_000 + rng.below(1_000_000_000), // leap second representation
        3 if s == 59 => 1_999_999_999,
        4 => *rng.pick(&[127u64, 128, 16383, 16384, 2097151, 2097152, 268435455, 268435456]),
        _ => rng.below(1_000_000_000),
    };
    Val::Tuple(vec![Val::U(h as u128), Val::U(m as u128), Val::U(s as u128), Val::U(n as u128)])
}

/// a date well inside the representable range, so that ± one day of offset arithmetic cannot leave it
fn gen_date_inner(rng: &mut Rng) -> Val {
    loop {
        let d = gen_date(rng);
        if let Val::Tuple(xs) = &d {
            if let Val::I(y) = xs[0] {
                if y > (YEAR_MIN + 1) as i128 && y < (YEAR_MAX - 1) as i128 {
                    return d;
                }
            }
        }
    }
}

/// like `gen_val` but not canonicalised (out-of-domain numbers must reach the wire as drawn)
pub fn gen_raw(ty: &Ty, rng: &mut Rng, ctx: &GenCtx) -> Val {
    gen(ty, rng, ctx, 0)
}

fn wild(rng: &mut Rng, edges: &[i64], lo: i64, hi: i64) -> i64 {
    if rng.chance(1, 2) {
        *rng.pick(edges)
    } else {
        rng.range(lo, hi)
    }
}

fn wild_date(rng: &mut Rng) -> Val {
    let y = wild(rng, &[YEAR_MIN, YEAR_MAX, YEAR_MIN - 1, YEAR_MAX + 1, i32::MIN as i64, i32::MAX as i64, 0, -1], -300_000, 300_000);
    let m = wild(rng, &[0, 1, 12, 13, 255, 2], 0, 13);
    let d = wild(rng, &[0, 1, 28, 29, 30, 31, 32, 255], 0, 32);
    Val::Tuple(vec![Val::I(y as i128), Val::U(m as u128), Val::U(d as u128)])
}

fn wild_time(rng: &mut Rng) -> Val {
    let h = wild(rng, &[0, 23, 24, 255], 0, 25);
    let m = wild(rng, &[0, 59, 60, 255], 0, 61);
    let s = wild(rng, &[0, 59, 60, 255], 0, 61);
    let n = wild(rng, &[0, 999_999_999, 1_000_000_000, 1_999_999_999, 2_000_000_000, u32::MAX as i64], 0, u32::MAX as i64);
    Val::Tuple(vec![Val::U(h as u128), Val::U(m as u128), Val::U(s as u128), Val::U(n as u128)])
}

/// the corners of the representable range: first / last representable day x start / end of day
fn edge_datetime(rng: &mut Rng) -> Val {
    let date = if rng.chance(1, 2) {
        Val::Tuple(vec![Val::I(YEAR_MAX as i128), Val::U(12), Val::U(31)])
    } else {
        Val::Tuple(vec![Val::I(YEAR_MIN as i128), Val::U(1), Val::U(1)])
    };
    let time = match rng.below(4) {
        0 => Val::Tuple(vec![Val::U(0), Val::U(0), Val::U(0), Val::U(0)]),
        1 => Val::Tuple(vec![Val::U(23), Val::U(59), Val::U(59), Val::U(999_999_999)]),
        2 => Val::Tuple(vec![Val::U(23), Val::U(59), Val::U(59), Val::U(0)]),
        _ => Val::Tuple(vec![Val::U(rng.below(24) as u128), Val::U(rng.below(60) as u128), Val::U(rng.below(60) as u128), Val::U(0)]),
    };
    Val::Tuple(vec![date, time])
}

fn wild_datetime(rng: &mut Rng) -> Val {
    if rng.chance(1, 3) {
        edge_datetime(rng)
    } else {
        Val::Tuple(vec![wild_date(rng), wild_time(rng)])
    }
}

fn wild_offset(rng: &mut Rng) -> Val {
    Val::I(wild(rng, &[0, 86_399, -86_399, 86_400, -86_400, i32::MAX as i64, i32::MIN as i64, 1, -1, 3600], -100_000, 100_000) as i128)
}

pub fn gen_val(ty: &Ty, rng: &mut Rng, ctx: &GenCtx) -> Val {
    let v = gen(ty, rng, ctx, 0);
    canon(ty, &v).expect("generated value is canonicalisable")
}

fn gen(ty: &Ty, rng: &mut Rng, ctx: &GenCtx, depth: usize) -> Val {
    if ctx.out_of_domain {
        match ty {
            Ty::Weekday | Ty::Month => return Val::U(wild(rng, &[0, 1, 7, 8, 12, 13, 127, 128, 255], 0, 255) as u128),
            Ty::FixedOffset => return wild_offset(rng),
            Ty::Tz => {
                match rng.below(6) {
                    0..=1 => return Val::Str(gen_string(rng, false)),
                    2 => {
                        // longer than any real zone name, characters of mixed width
                        let n = 20 + rng.below(120) as usize;
                        let mut name = String::new();
                        for _ in 0..n {
                            let bmp = rng.chance(3, 4);
                            name.push(char::from_u32(gen_char(rng, bmp)).unwrap());
                        }
                        return Val::Str(name);
                    }
                    _ => {}
                }
            }
            Ty::DateTimeUtc => {
                let s = wild(rng, &[UTC_TS_MIN, UTC_TS_MAX, UTC_TS_MIN - 1, UTC_TS_MAX + 1, i64::MIN, i64::MAX, 0, 59, -1], i64::MIN / 2, i64::MAX / 2);
                let n = wild(rng, &[0, 999_999_999, 1_000_000_000, 1_999_999_999, 2_000_000_000, u32::MAX as i64], 0, u32::MAX as i64);
                return Val::Tuple(vec![Val::I(s as i128), Val::U(n as u128)]);
            }
            Ty::NaiveDate => return wild_date(rng),
            Ty::NaiveTime => return wild_time(rng),
            Ty::NaiveDateTime | Ty::DateTimeLocal => return wild_datetime(rng),
            Ty::DateTimeFixed => return Val::Tuple(vec![wild_datetime(rng), wild_offset(rng)]),
            Ty::DateTimeTz => {
                let tz = gen(&Ty::Tz, rng, ctx, depth);
                return Val::Tuple(vec![wild_datetime(rng), tz]);
            }
            Ty::Duration => {
                let s = if rng.chance(1, 2) { u64::MAX as u128 } else { uint(rng, 64) };
                return Val::Tuple(vec![Val::U(s), Val::U(wild(rng, &[0, 999_999_999, 1_000_000_000, u32::MAX as i64], 0, u32::MAX as i64) as u128)]);
            }
            Ty::BigDecimal => {
                if rng.chance(1, 2) {
                    return Val::Str(rng.pick(&["", "-", "1e", "1e99999999999999999999", "0x10", "1_000", ".", "1.2.3", "NaN", "inf", "1e-9223372036854775808", "+5", " 7 "]).to_string());
                }
            }
            _ => {}
        }
    }
    match ty {
        Ty::Named(n) => gen(&resolve(n), rng, ctx, depth),
        Ty::VarU32 => Val::U(uint(rng, 32)),
        Ty::U8 => Val::U(uint(rng, 8)),
        Ty::U16 => Val::U(uint(rng, 16)),
        Ty::U32 => Val::U(uint(rng, 32)),
        Ty::U64 => Val::U(uint(rng, 64)),
        Ty::U128 => Val::U(uint(rng, 128)),
        Ty::I8 => Val::I(sint(rng, 8)),
        Ty::I16 => Val::I(sint(rng, 16)),
        Ty::I32 => Val::I(sint(rng, 32)),
        Ty::I64 => Val::I(sint(rng, 64)),
        Ty::I128 => Val::I(sint(rng, 128)),
        Ty::F32 => Val::F32(if rng.chance(1, 2) { *rng.pick(&F32_EDGES) } else { rng.next_u32() }),
        Ty::F64 => Val::F64(if rng.chance(1, 2) { *rng.pick(&F64_EDGES) } else { rng.next_u64() }),
        Ty::Bool => Val::Bool(rng.chance(1, 2)),
        Ty::Unit => Val::Unit,
        Ty::Char => Val::Char(gen_char(rng, ctx.encodable)),
        Ty::Str | Ty::DedupStr => Val::Str(gen_string(rng, ctx.allow_large && depth <= 1)),
        Ty::Duration => {
            let s = match rng.below(6) {
                0 => 0,
                1 => u64::MAX as u128,
                _ => uint(rng, 64),
            };
            let n = match rng.below(5) {
                0 => 0,
                1 => 999_999_999,
                _ => rng.below(1_000_000_000) as u128,
            };
            Val::Tuple(vec![Val::U(s), Val::U(n)])
        }
        Ty::Opt(t) => {
            if depth >= ctx.max_depth || rng.chance(1, 3) {
                Val::None
            } else {
                Val::some(gen(t, rng, ctx, depth + 1))
            }
        }
        Ty::Res(ok, e) => {
            if rng.chance(1, 2) {
                Val::Ok(Box::new(gen(ok, rng, ctx, depth + 1)))
            } else {
                Val::Err(Box::new(gen(e, rng, ctx, depth + 1)))
            }
        }
        Ty::Tuple(ts) => Val::Tuple(ts.iter().map(|t| gen(t, rng, ctx, depth + 1)).collect()),
        Ty::Seq(t) | Ty::Set(t) => {
            // elements with an empty encoding cost nothing on the wire: now and then a count that needs three varint bytes
            let n = if ctx.allow_large && depth == 0 && matches!(ty, Ty::Seq(_)) && t.may_encode_empty() && rng.chance(1, 6) {
                *rng.pick(&[65_535usize, 65_536, 65_537, 70_000])
            } else {
                gen_len(rng, ctx, depth)
            };
            Val::Seq((0..n).map(|_| gen(t, rng, ctx, depth + 1)).collect())
        }
        Ty::Map(k, v) => {
            let n = gen_len(rng, ctx, depth);
            Val::Seq(
                (0..n)
                    .map(|_| Val::Tuple(vec![gen(k, rng, ctx, depth + 1), gen(v, rng, ctx, depth + 1)]))
                    .collect(),
            )
        }
        Ty::Array(t, n) => Val::Seq((0..*n).map(|_| gen(t, rng, ctx, depth + 1)).collect()),
        Ty::Bytes => {
            let n = match rng.below(10) {
                0 => 0,
                1 if ctx.allow_large && depth <= 1 => *rng.pick(&[127usize, 128, 129, 16383, 16384, 16385]),
                _ => rng.below(24) as usize,
            };
            Val::Bytes(rng.bytes(n))
        }
        Ty::ByteArray(n) => Val::Bytes(rng.bytes(*n)),
        Ty::Wrap(t) | Ty::Lenient(t) => gen(t, rng, ctx, depth),
        Ty::Uuid => Val::Bytes(match rng.below(4) {
            0 => vec![0; 16],
            1 => vec![0xff; 16],
            _ => rng.bytes(16),
        }),
        Ty::BigInt => {
            let n = match rng.below(8) {
                0 => 1,
                1 => 16,
                2 => 17,
                _ => 1 + rng.below(24) as usize,
            };
            let mut b = rng.bytes(n);
            match rng.below(6) {
                0 => b = vec![0],
                1 => b = vec![0xff],               // -1
                2 => b[0] = 0x80,                  // most negative of that width
                3 => {
                    b[0] = 0x00;
                    if b.len() > 1 {
                        b[1] |= 0x80; // positive number that needs the leading zero
                    }
                }
                4 => {
                    b[0] = 0xff;
                    if b.len() > 1 {
                        b[1] &= 0x7f; // negative number that needs the leading 0xff
                    }
                }
                _ => {}
            }
            Val::Bytes(b)
        }
        Ty::BigDecimal => {
            let digits: String = match rng.below(6) {
                0 => "0".into(),
                1 => "1".into(),
                2 => "9".repeat(1 + rng.below(40) as usize),
                _ => {
                    let n = 1 + rng.below(30) as usize;
                    let mut s: String = (0..n).map(|_| (b'0' + rng.below(10) as u8) as char).collect();
                    s.insert(0, (b'1' + rng.below(9) as u8) as char);
                    s
                }
            };
            let exp: i64 = match rng.below(6) {
                0 => 0,
                1 => -1,
                2 => rng.range(-400, 400),
                _ => rng.range(-12, 12),
            };
            let neg = digits != "0" && rng.chance(1, 2);
            Val::Str(format!("{}{}e{}", if neg { "-" } else { "" }, digits, exp))
        }
        Ty::Weekday => Val::U(rng.range(1, 7) as u128),
        Ty::Month => Val::U(rng.range(1, 12) as u128),
        Ty::FixedOffset => Val::I(match rng.below(8) {
            0 => 0,
            1 => 86_399,
            2 => -86_399,
            3 => 3600,
            4 => -1,
            5 => 64,
            _ => rng.range(-86_399, 86_399),
        } as i128),
        Ty::Tz => Val::Str(rng.pick(&ctx.tz_names[..]).clone()),
        Ty::DateTimeUtc => {
            let s: i64 = match rng.below(10) {
                0 => UTC_TS_MIN,
                1 => UTC_TS_MAX,
                2 => 0,
                3 => -1,
                4 => 59,
                5 => rng.range(UTC_TS_MIN, UTC_TS_MAX),
                _ => rng.range(-4_000_000_000, 4_000_000_000),
            };
            let leap_ok = s.rem_euclid(60) == 59;
            let n: u64 = match rng.below(6) {
                0 => 0,
                1 => 999_999_999,
                2 if leap_ok => 1_000_000_000 + rng.below(1_000_000_000),
                _ => rng.below(1_000_000_000),
            };
            Val::Tuple(vec![Val::I(s as i128), Val::U(n as u128)])
        }
        Ty::NaiveDate => gen_date(rng),
        Ty::NaiveTime => gen_time(rng),
        Ty::DateTimeLocal if ctx.dst_edges && rng.chance(1, 3) => near_dst_transition(rng),
        Ty::NaiveDateTime | Ty::DateTimeLocal => Val::Tuple(vec![gen_date(rng), gen_time(rng)]),
        Ty::DateTimeFixed => {
            let dt = Val::Tuple(vec![gen_date_inner(rng), gen_time(rng)]);
            let off = gen(&Ty::FixedOffset, rng, ctx, depth);
            Val::Tuple(vec![dt, off])
        }
        Ty::DateTimeTz => {
            let dt = Val::Tuple(vec![gen_date_inner(rng), gen_time(rng)]);
            Val::Tuple(vec![dt, gen(&Ty::Tz, rng, ctx, depth)])
        }
        Ty::Record(schema) => Val::Rec(schema.fields.iter().map(|f| gen(&f.ty, rng, ctx, depth + 1)).collect()),
        Ty::Enum(schema) => {
            let candidates: Vec<usize> =
                (0..schema.variants.len()).filter(|i| ctx.transient_ctors || !schema.variants[*i].transient).collect();
            assert!(!candidates.is_empty(), "enum {} has only transient constructors", schema.name);
            let pick = if depth >= ctx.max_depth {
                // the variant that recurses least
                *candidates
                    .iter()
                    .min_by_key(|i| {
                        schema.variants[**i]
                            .record
                            .fields
                            .iter()
                            .filter(|f| f.ty.any(&mut |t| matches!(t, Ty::Named(_)), &mut Vec::new()))
                            .count()
                    })
                    .unwrap()
            } else {
                *rng.pick(&candidates)
            };
            let fields = schema.variants[pick].record.fields.iter().map(|f| gen(&f.ty, rng, ctx, depth + 1)).collect();
            Val::Ctor(pick, fields)
        }
    }
}
