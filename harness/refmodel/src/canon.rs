//! Canonical form of values: sets sorted and collapsed, maps sorted with the last value of a key winning,
//! durations normalised, big integers in minimal two's complement, decimals as digits·10^exp.

use crate::ty::*;

#[derive(Clone, Debug, PartialEq)]
pub enum CanonErr {
    Duplicate(String),
    Shape(String),
    Unsupported(String),
}

pub fn canon(ty: &Ty, v: &Val) -> Result<Val, CanonErr> {
    canon_with(ty, v, false)
}

/// like `canon`, but a repeated set element / map key is an error (what a writer must never emit)
pub fn canon_strict(ty: &Ty, v: &Val) -> Result<Val, CanonErr> {
    canon_with(ty, v, true)
}

fn shape<T>(ty: &Ty, v: &Val) -> Result<T, CanonErr> {
    Err(CanonErr::Shape(format!("{} vs {}", ty.render(), v.render(80))))
}

pub fn minimal_twos_complement(b: &[u8]) -> Vec<u8> {
    if b.is_empty() {
        return vec![0];
    }
    let mut s = b;
    while s.len() > 1 {
        let (first, second) = (s[0], s[1]);
        if (first == 0x00 && second & 0x80 == 0) || (first == 0xff && second & 0x80 != 0) {
            s = &s[1..];
        } else {
            break;
        }
    }
    s.to_vec()
}

/// "digits e exp" with no trailing zeros in digits; None if the text is not a decimal numeral this model understands
pub fn canon_decimal(text: &str) -> Option<String> {
    let t = text.trim();
    let (mant, exp) = match t.find(['e', 'E']) {
        Some(i) => (&t[..i], Some(&t[i + 1..])),
        None => (t, None),
    };
    let mut exp: i128 = match exp {
        Some(e) => {
            let e = e.strip_prefix('+').unwrap_or(e);
            if e.is_empty() {
                return None;
            }
            e.parse::<i128>().ok()?
        }
        None => 0,
    };
    let (neg, mant) = match mant.strip_prefix('-') {
        Some(m) => (true, m),
        None => (false, mant.strip_prefix('+').unwrap_or(mant)),
    };
    let (int_part, frac_part) = match mant.find('.') {
        Some(i) => (&mant[..i], &mant[i + 1..]),
        None => (mant, ""),
    };
    if int_part.is_empty() && frac_part.is_empty() {
        return None;
    }
    let mut digits = String::new();
    for c in int_part.chars().chain(frac_part.chars()) {
        if c == '_' {
            continue;
        }
        if !c.is_ascii_digit() {
            return None;
        }
        digits.push(c);
    }
    if digits.is_empty() {
        return None;
    }
    exp -= frac_part.chars().filter(|c| *c != '_').count() as i128;
    let d = digits.trim_start_matches('0');
    if d.is_empty() {
        return Some("0e0".to_string());
    }
    let trimmed = d.trim_end_matches('0');
    exp += (d.len() - trimmed.len()) as i128;
    Some(format!("{}{}e{}", if neg { "-" } else { "" }, trimmed, exp))
}

fn canon_with(ty: &Ty, v: &Val, strict: bool) -> Result<Val, CanonErr> {
    match ty {
        Ty::Named(n) => canon_with(&resolve(n), v, strict),
        Ty::Wrap(t) => canon_with(t, v, strict),
        // never compared: the position belongs to the client codec
        Ty::Lenient(_) => Ok(Val::Unit),
        Ty::Opt(t) => match v {
            Val::None => Ok(Val::None),
            Val::Some(x) => Ok(Val::some(canon_with(t, x, strict)?)),
            _ => shape(ty, v),
        },
        Ty::Res(ok, e) => match v {
            Val::Ok(x) => Ok(Val::Ok(Box::new(canon_with(ok, x, strict)?))),
            Val::Err(x) => Ok(Val::Err(Box::new(canon_with(e, x, strict)?))),
            _ => shape(ty, v),
        },
        Ty::Tuple(ts) => match v {
            Val::Tuple(xs) if xs.len() == ts.len() => Ok(Val::Tuple(
                ts.iter().zip(xs).map(|(t, x)| canon_with(t, x, strict)).collect::<Result<_, _>>()?,
            )),
            _ => shape(ty, v),
        },
        Ty::Seq(t) | Ty::Array(t, _) => match v {
            Val::Seq(xs) => Ok(Val::Seq(xs.iter().map(|x| canon_with(t, x, strict)).collect::<Result<_, _>>()?)),
            _ => shape(ty, v),
        },
        Ty::Set(t) => match v {
            Val::Seq(xs) => {
                let mut items: Vec<Val> = xs.iter().map(|x| canon_with(t, x, strict)).collect::<Result<_, _>>()?;
                items.sort();
                let before = items.len();
                items.dedup();
                if strict && items.len() != before {
                    return Err(CanonErr::Duplicate(format!("set {}", ty.render())));
                }
                Ok(Val::Seq(items))
            }
            _ => shape(ty, v),
        },
        Ty::Map(k, val_ty) => match v {
            Val::Seq(xs) => {
                let mut items: Vec<(Val, Val)> = Vec::with_capacity(xs.len());
                for x in xs {
                    match x {
                        Val::Tuple(kv) if kv.len() == 2 => {
                            let key = canon_with(k, &kv[0], strict)?;
                            let val = canon_with(val_ty, &kv[1], strict)?;
                            if let Some(slot) = items.iter_mut().find(|(k2, _)| *k2 == key) {
                                if strict {
                                    return Err(CanonErr::Duplicate(format!("map {}", ty.render())));
                                }
                                slot.1 = val; // the last value of a key wins
                            } else {
                                items.push((key, val));
                            }
                        }
                        _ => return shape(ty, v),
                    }
                }
                items.sort();
                Ok(Val::Seq(items.into_iter().map(|(k, v)| Val::Tuple(vec![k, v])).collect()))
            }
            _ => shape(ty, v),
        },
        Ty::Duration => match v {
            Val::Tuple(xs) if xs.len() == 2 => match (&xs[0], &xs[1]) {
                (Val::U(s), Val::U(n)) => {
                    let secs = s + n / 1_000_000_000;
                    if secs > u64::MAX as u128 {
                        return Err(CanonErr::Unsupported("duration overflow".into()));
                    }
                    Ok(Val::Tuple(vec![Val::U(secs), Val::U(n % 1_000_000_000)]))
                }
                _ => shape(ty, v),
            },
            _ => shape(ty, v),
        },
        Ty::BigInt => match v {
            Val::Bytes(b) => Ok(Val::Bytes(minimal_twos_complement(b))),
            _ => shape(ty, v),
        },
        Ty::BigDecimal => match v {
            Val::Str(s) => match canon_decimal(s) {
                Some(c) => Ok(Val::Str(c)),
                None => Err(CanonErr::Unsupported(format!("decimal numeral {s:?}"))),
            },
            _ => shape(ty, v),
        },
        Ty::Record(schema) => match v {
            Val::Rec(xs) if xs.len() == schema.fields.len() => Ok(Val::Rec(
                schema.fields.iter().zip(xs).map(|(f, x)| canon_with(&f.ty, x, strict)).collect::<Result<_, _>>()?,
            )),
            _ => shape(ty, v),
        },
        Ty::Enum(schema) => match v {
            Val::Ctor(d, xs) if *d < schema.variants.len() && xs.len() == schema.variants[*d].record.fields.len() => {
                Ok(Val::Ctor(
                    *d,
                    schema.variants[*d]
                        .record
                        .fields
                        .iter()
                        .zip(xs)
                        .map(|(f, x)| canon_with(&f.ty, x, strict))
                        .collect::<Result<_, _>>()?,
                ))
            }
            _ => shape(ty, v),
        },
        _ => Ok(v.clone()),
    }
}

/// the value a decoder must produce for `v`: transient fields replaced by their declared defaults
pub fn with_transient_defaults(ty: &Ty, v: &Val) -> Val {
    match ty {
        Ty::Named(n) => with_transient_defaults(&resolve(n), v),
        Ty::Wrap(t) | Ty::Lenient(t) => with_transient_defaults(t, v),
        Ty::Opt(t) => match v {
            Val::Some(x) => Val::some(with_transient_defaults(t, x)),
            _ => v.clone(),
        },
        Ty::Res(ok, e) => match v {
            Val::Ok(x) => Val::Ok(Box::new(with_transient_defaults(ok, x))),
            Val::Err(x) => Val::Err(Box::new(with_transient_defaults(e, x))),
            _ => v.clone(),
        },
        Ty::Tuple(ts) => match v {
            Val::Tuple(xs) => Val::Tuple(ts.iter().zip(xs).map(|(t, x)| with_transient_defaults(t, x)).collect()),
            _ => v.clone(),
        },
        Ty::Seq(t) | Ty::Array(t, _) | Ty::Set(t) => match v {
            Val::Seq(xs) => Val::Seq(xs.iter().map(|x| with_transient_defaults(t, x)).collect()),
            _ => v.clone(),
        },
        Ty::Map(k, val_ty) => match v {
            Val::Seq(xs) => {
                let pair = Ty::Tuple(vec![(**k).clone(), (**val_ty).clone()]);
                Val::Seq(xs.iter().map(|x| with_transient_defaults(&pair, x)).collect())
            }
            _ => v.clone(),
        },
        Ty::Record(schema) => match v {
            Val::Rec(xs) => Val::Rec(record_defaults(schema, xs)),
            _ => v.clone(),
        },
        Ty::Enum(schema) => match v {
            Val::Ctor(d, xs) => Val::Ctor(*d, record_defaults(&schema.variants[*d].record, xs)),
            _ => v.clone(),
        },
        _ => v.clone(),
    }
}

fn record_defaults(schema: &RecordSchema, xs: &[Val]) -> Vec<Val> {
    schema
        .fields
        .iter()
        .zip(xs)
        .map(|(f, x)| {
            if f.transient {
                f.default.clone().expect("transient default")
            } else {
                with_transient_defaults(&f.ty, x)
            }
        })
        .collect()
}

/// `v` with every transient field replaced by a freshly generated value of the field's type
/// (two values that differ only in transient fields must encode identically — C14)
pub fn scramble_transients(ty: &Ty, v: &Val, rng: &mut crate::rng::Rng, ctx: &crate::genval::GenCtx) -> Val {
    match ty {
        Ty::Named(n) => scramble_transients(&resolve(n), v, rng, ctx),
        Ty::Wrap(t) | Ty::Lenient(t) => scramble_transients(t, v, rng, ctx),
        Ty::Opt(t) => match v {
            Val::Some(x) => Val::some(scramble_transients(t, x, rng, ctx)),
            _ => v.clone(),
        },
        Ty::Res(ok, e) => match v {
            Val::Ok(x) => Val::Ok(Box::new(scramble_transients(ok, x, rng, ctx))),
            Val::Err(x) => Val::Err(Box::new(scramble_transients(e, x, rng, ctx))),
            _ => v.clone(),
        },
        Ty::Tuple(ts) => match v {
            Val::Tuple(xs) => Val::Tuple(ts.iter().zip(xs).map(|(t, x)| scramble_transients(t, x, rng, ctx)).collect()),
            _ => v.clone(),
        },
        Ty::Seq(t) | Ty::Array(t, _) => match v {
            Val::Seq(xs) => Val::Seq(xs.iter().map(|x| scramble_transients(t, x, rng, ctx)).collect()),
            _ => v.clone(),
        },
        // elements of sets and keys of maps are left alone: changing them could merge elements
        Ty::Map(_, val_ty) => match v {
            Val::Seq(xs) => Val::Seq(
                xs.iter()
                    .map(|x| match x {
                        Val::Tuple(kv) if kv.len() == 2 => Val::Tuple(vec![kv[0].clone(), scramble_transients(val_ty, &kv[1], rng, ctx)]),
                        other => other.clone(),
                    })
                    .collect(),
            ),
            _ => v.clone(),
        },
        Ty::Record(schema) => match v {
            Val::Rec(xs) => Val::Rec(scramble_record(schema, xs, rng, ctx)),
            _ => v.clone(),
        },
        Ty::Enum(schema) => match v {
            Val::Ctor(d, xs) => Val::Ctor(*d, scramble_record(&schema.variants[*d].record, xs, rng, ctx)),
            _ => v.clone(),
        },
        _ => v.clone(),
    }
}

fn scramble_record(schema: &RecordSchema, xs: &[Val], rng: &mut crate::rng::Rng, ctx: &crate::genval::GenCtx) -> Vec<Val> {
    schema
        .fields
        .iter()
        .zip(xs)
        .map(|(f, x)| {
            if f.transient {
                // a value different from the declared default whenever the type has more than one value
                let mut fresh = crate::genval::gen_val(&f.ty, rng, ctx);
                for _ in 0..4 {
                    if Some(&fresh) != f.default.as_ref() {
                        break;
                    }
                    fresh = crate::genval::gen_val(&f.ty, rng, ctx);
                }
                fresh
            } else {
                scramble_transients(&f.ty, x, rng, ctx)
            }
        })
        .collect()
}

/// does the type contain a transient field / a transient constructor anywhere
pub fn has_transient_field(ty: &Ty) -> bool {
    ty.any(
        &mut |t| match t {
            Ty::Record(r) => r.fields.iter().any(|f| f.transient),
            Ty::Enum(e) => e.variants.iter().any(|v| v.record.fields.iter().any(|f| f.transient)),
            _ => false,
        },
        &mut Vec::new(),
    )
}
