//! Schema-evolution semantics at the level of histories (DESIGN §4.4) — independent of bytes.

use crate::dec::ErrKind;
use crate::rng::Rng;
use crate::ty::*;

#[derive(Clone, Debug, PartialEq)]
pub struct HField {
    pub name: String,
    /// the non-optional type T
    pub base: Ty,
    /// declared as Option<T> from its introduction
    pub optional: bool,
}

#[derive(Clone, Debug, PartialEq)]
pub enum HStep {
    /// `default` has the field's declared type at the time of addition; `insert_at` = index in the declaration
    Added { field: HField, default: Val, insert_at: usize },
    MadeOptional(String),
    Removed(String),
    /// `default` has the field's type at that time
    MadeTransient { name: String, default: Val },
}

#[derive(Clone, Debug, PartialEq)]
pub struct History {
    pub id: String,
    pub initial: Vec<HField>,
    pub steps: Vec<HStep>,
}

#[derive(Clone, Debug, PartialEq)]
enum Presence {
    Present,
    Transient(Val),
    Removed,
}

#[derive(Clone, Debug)]
struct FState {
    /// identity of the field across versions: a name may come back after its field was removed (a new field, a new
    /// incarnation of the name); steps that cite a name mean its latest incarnation
    uid: usize,
    name: String,
    base: Ty,
    optional: bool,
    presence: Presence,
    /// Some(default at declaration time) for added fields
    added_default: Option<Val>,
    /// whether the field was optional when it was added (then the default already is an Option value)
    optional_when_added: bool,
}

impl History {
    pub fn len(&self) -> usize {
        self.steps.len()
    }

    pub fn is_empty(&self) -> bool {
        self.steps.is_empty()
    }

    fn states(&self, k: usize) -> Vec<FState> {
        let mut fields: Vec<FState> = self
            .initial
            .iter()
            .enumerate()
            .map(|(i, f)| FState {
                uid: i,
                name: f.name.clone(),
                base: f.base.clone(),
                optional: f.optional,
                presence: Presence::Present,
                added_default: None,
                optional_when_added: f.optional,
            })
            .collect();
        fn latest<'a>(fields: &'a mut [FState], n: &str) -> &'a mut FState {
            fields.iter_mut().filter(|f| f.name == n).max_by_key(|f| f.uid).expect("known field")
        }
        for (step_no, s) in self.steps[..k].iter().enumerate() {
            match s {
                HStep::Added { field, default, insert_at } => {
                    // insert_at counts declared (not removed) fields
                    let mut seen = 0;
                    let mut at = fields.len();
                    for (i, f) in fields.iter().enumerate() {
                        if f.presence == Presence::Removed {
                            continue;
                        }
                        if seen == *insert_at {
                            at = i;
                            break;
                        }
                        seen += 1;
                    }
                    fields.insert(
                        at,
                        FState {
                            uid: 1000 + step_no,
                            name: field.name.clone(),
                            base: field.base.clone(),
                            optional: field.optional,
                            presence: Presence::Present,
                            added_default: Some(default.clone()),
                            optional_when_added: field.optional,
                        },
                    );
                }
                HStep::MadeOptional(n) => {
                    latest(&mut fields, n).optional = true;
                }
                HStep::Removed(n) => {
                    latest(&mut fields, n).presence = Presence::Removed;
                }
                HStep::MadeTransient { name, default } => {
                    latest(&mut fields, name).presence = Presence::Transient(default.clone());
                }
            }
        }
        fields
    }

    fn field_ty(f: &FState) -> Ty {
        if f.optional {
            Ty::Opt(f.base.clone().boxed())
        } else {
            f.base.clone()
        }
    }

    fn added_default_now(f: &FState) -> Option<Val> {
        f.added_default.as_ref().map(|d| {
            if f.optional && !f.optional_when_added {
                Val::some(d.clone())
            } else {
                d.clone()
            }
        })
    }

    /// the declaration after the first `k` steps
    pub fn version(&self, k: usize) -> RecordSchema {
        let states = self.states(k);
        let fields = states
            .iter()
            .filter(|f| f.presence != Presence::Removed)
            .map(|f| match &f.presence {
                Presence::Transient(d) => FieldSchema {
                    name: f.name.clone(),
                    ty: Self::field_ty(f),
                    opt_by_name: f.optional,
                    transient: true,
                    default: Some(d.clone()),
                },
                _ => FieldSchema {
                    name: f.name.clone(),
                    ty: Self::field_ty(f),
                    opt_by_name: f.optional,
                    transient: false,
                    default: Self::added_default_now(f),
                },
            })
            .collect();
        let steps = self.steps[..k]
            .iter()
            .map(|s| match s {
                HStep::Added { field, .. } => Step::Added(field.name.clone()),
                HStep::MadeOptional(n) => Step::MadeOptional(n.clone()),
                HStep::Removed(n) => Step::Removed(n.clone()),
                HStep::MadeTransient { name, .. } => Step::MadeTransient(name.clone()),
            })
            .collect();
        RecordSchema { name: format!("{}V{}", self.id, k), fields, steps }
    }

    /// does reader version r, compared with writer version w, drop a chunk-0 field that w serialized?
    /// (the combination the format cannot frame when the stored version is 0 and data follows, DESIGN §9-1)
    pub fn reader_dropped_v0_field(&self, w: usize, r: usize) -> bool {
        if w != 0 {
            return false;
        }
        let ws = self.states(w);
        let rs = self.states(r);
        ws.iter().any(|f| {
            f.presence == Presence::Present
                && rs.iter().any(|g| g.uid == f.uid && g.presence != Presence::Present)
        })
    }

    /// The documented outcome of reading, with version `r`, what version `w` wrote for value `v`
    /// (`v` is a `Val::Rec` in the field order of `self.version(w)`).
    pub fn expected(&self, w: usize, r: usize, v: &Val) -> Result<Val, ErrKind> {
        let ws = self.states(w);
        let rs = self.states(r);
        let w_decl: Vec<&FState> = ws.iter().filter(|f| f.presence != Presence::Removed).collect();
        let vals = match v {
            Val::Rec(xs) if xs.len() == w_decl.len() => xs,
            _ => panic!("expected(): value is not a record of version {w}"),
        };
        let mut out = Vec::new();
        for f in rs.iter().filter(|f| f.presence != Presence::Removed) {
            if let Presence::Transient(d) = &f.presence {
                out.push(d.clone());
                continue;
            }
            let in_w = w_decl.iter().position(|g| g.uid == f.uid);
            let w_state = ws.iter().find(|g| g.uid == f.uid);
            match w_state {
                None => {
                    // added after w
                    match Self::added_default_now(f) {
                        Some(d) => out.push(d),
                        None => return Err(ErrKind::FieldMissing(f.name.clone())),
                    }
                }
                Some(g) if g.presence != Presence::Present => {
                    // w had already removed it / made it transient
                    if f.optional {
                        out.push(Val::None);
                    } else {
                        return Err(ErrKind::FieldRemoved(f.name.clone()));
                    }
                }
                Some(g) => {
                    let x = &vals[in_w.unwrap()];
                    match (g.optional, f.optional) {
                        (false, false) | (true, true) => out.push(x.clone()),
                        (false, true) => out.push(Val::some(x.clone())),
                        (true, false) => match x {
                            Val::Some(y) => out.push((**y).clone()),
                            Val::None => return Err(ErrKind::NonOptionalNone(f.name.clone())),
                            _ => panic!("optional field holds {x:?}"),
                        },
                    }
                }
            }
        }
        Ok(Val::Rec(out))
    }

    /// which outcome classes a (w, r, v) case exercises (for the coverage floor of C03)
    pub fn outcome_classes(&self, w: usize, r: usize, v: &Val) -> Vec<&'static str> {
        let ws = self.states(w);
        let rs = self.states(r);
        let w_decl: Vec<&FState> = ws.iter().filter(|f| f.presence != Presence::Removed).collect();
        let vals = match v {
            Val::Rec(xs) => xs,
            _ => return vec![],
        };
        let mut out = Vec::new();
        for f in rs.iter().filter(|f| f.presence == Presence::Present) {
            match ws.iter().find(|g| g.uid == f.uid) {
                None => {
                    out.push("default_taken");
                    if ws.iter().any(|g| g.name == f.name) {
                        out.push("name_of_an_earlier_field_reused");
                    }
                }
                Some(g) if g.presence != Presence::Present => {
                    out.push(if f.optional { "removed_reads_none" } else { "removed_is_error" })
                }
                Some(g) => {
                    let x = &vals[w_decl.iter().position(|h| h.uid == f.uid).unwrap()];
                    match (g.optional, f.optional) {
                        (false, true) => out.push("wrapped"),
                        (true, false) => out.push(if *x == Val::None { "none_is_error" } else { "unwrapped" }),
                        _ => out.push("as_written"),
                    }
                }
            }
        }
        if w > r {
            out.push("newer_data_skipped");
        }
        // a transient field of the reader that the writer still serialized
        for f in rs.iter() {
            if matches!(f.presence, Presence::Transient(_)) || f.presence == Presence::Removed {
                if let Some(g) = ws.iter().find(|g| g.uid == f.uid) {
                    if g.presence == Presence::Present {
                        out.push("dropped_field_ignored");
                    }
                }
            }
        }
        out.sort();
        out.dedup();
        out
    }
}

pub const OUTCOME_CLASSES: [&str; 10] = [
    "name_of_an_earlier_field_reused",
    "as_written",
    "wrapped",
    "unwrapped",
    "none_is_error",
    "default_taken",
    "removed_reads_none",
    "removed_is_error",
    "newer_data_skipped",
    "dropped_field_ignored",
];

/// a random legal history (DESIGN §4.4): chunk-0 order never changes, a field is removed / made transient only
/// while it is the last one serialized in its chunk, names are never reused.
/// `pool` = base types of fields, `mk_default(declared type, rng)` draws default values.
pub fn gen_history(
    id: &str,
    rng: &mut Rng,
    max_steps: usize,
    pool: &[Ty],
    mk_default: &mut dyn FnMut(&Ty, &mut Rng) -> Val,
    script: Option<&str>,
) -> History {
    let mut counter = 0;
    let mut fresh = |rng: &mut Rng| -> HField {
        counter += 1;
        let base = rng.pick(pool).clone();
        // a base type that already is an option is never declared optional on top
        let optional = !matches!(base, Ty::Opt(_)) && rng.chance(1, 5);
        // one field in six is declared with a raw identifier (`r#f3`): its name — in `#[evolution(..)]` steps, in the
        // header of removed / transient names — is the identifier as written, prefix included (no draw: the rest of
        // the history does not depend on the spelling)
        let raw = (crate::rng::fnv64_str(id) ^ (counter as u64).wrapping_mul(0x9E37_79B9)) % 6 == 0;
        HField { name: if raw { format!("r#f{counter}") } else { format!("f{counter}") }, base, optional }
    };
    // scripts starting with 'W' use a wide initial record: made-optional positions far from 0
    // … and with 'X' the widest record the format allows: 128 fields in chunk 0, the last one at position 127 (the
    // position byte of a made-optional step is a negated i8)
    // … and with 'Z' a record without fields (a unit struct, a unit variant) that grows its first field later
    let n_init = if script.map(|s| s.starts_with('Z')).unwrap_or(false) {
        0
    } else if script.map(|s| s.starts_with('X')).unwrap_or(false) {
        128
    } else if script.map(|s| s.starts_with('W')).unwrap_or(false) {
        18 + rng.below(6) as usize
    } else {
        1 + rng.below(4) as usize
    };
    let initial: Vec<HField> = (0..n_init).map(|_| fresh(rng)).collect();
    let mut h = History { id: id.to_string(), initial, steps: vec![] };
    if let Some(script) = script {
        // directed history: 'a' adds a field and targets it; 'o' / 't' / 'r' make the target optional / transient / removed.
        // The initial target is the last initial field (the last one serialized in chunk 0), declared required.
        let mut target = String::new();
        if let Some(last) = h.initial.len().checked_sub(1) {
            h.initial[last].optional = false;
            target = h.initial[last].name.clone();
        }
        for c in script.chars() {
            match c {
                'a' => {
                    let mut field = fresh(rng);
                    field.optional = false;
                    let declared = h.states(h.steps.len()).iter().filter(|f| f.presence != Presence::Removed).count();
                    let default = mk_default(&field.base.clone(), rng);
                    target = field.name.clone();
                    h.steps.push(HStep::Added { field, default, insert_at: rng.below(declared as u64 + 1) as usize });
                }
                'n' => {
                    // the name of the (removed) target comes back: a new field, possibly of another type
                    let mut field = fresh(rng);
                    field.optional = false;
                    field.name = target.clone();
                    let declared = h.states(h.steps.len()).iter().filter(|f| f.presence != Presence::Removed).count();
                    let default = mk_default(&field.base.clone(), rng);
                    h.steps.push(HStep::Added { field, default, insert_at: rng.below(declared as u64 + 1) as usize });
                }
                'o' => h.steps.push(HStep::MadeOptional(target.clone())),
                'r' => h.steps.push(HStep::Removed(target.clone())),
                't' => {
                    let st = h.states(h.steps.len());
                    let f = st.iter().filter(|f| f.name == target).max_by_key(|f| f.uid).unwrap();
                    let default = mk_default(&History::field_ty(f), rng);
                    h.steps.push(HStep::MadeTransient { name: target.clone(), default });
                }
                _ => {}
            }
        }
        return h;
    }
    let n_steps = 1 + rng.below(max_steps as u64) as usize;
    let mut guard = 0;
    while h.steps.len() < n_steps && guard < 100 {
        guard += 1;
        let k = h.steps.len();
        let states = h.states(k);
        let schema = h.version(k);
        let present: Vec<&FState> = states.iter().filter(|f| f.presence == Presence::Present).collect();
        match rng.below(10) {
            0..=3 => {
                let mut field = fresh(rng);
                // one added field in four takes the name of a field that was removed earlier, if there is one
                let free: Vec<&FState> = states
                    .iter()
                    .filter(|f| f.presence == Presence::Removed && !states.iter().any(|g| g.name == f.name && g.presence != Presence::Removed))
                    .collect();
                if !free.is_empty() && rng.chance(1, 4) {
                    field.name = rng.pick(&free).name.clone();
                }
                let declared = states.iter().filter(|f| f.presence != Presence::Removed).count();
                let ty = if field.optional { Ty::Opt(field.base.clone().boxed()) } else { field.base.clone() };
                let default = mk_default(&ty, rng);
                h.steps.push(HStep::Added { field, default, insert_at: rng.below(declared as u64 + 1) as usize });
            }
            4..=6 => {
                let cands: Vec<&&FState> = present.iter().filter(|f| !f.optional).collect();
                if let Some(f) = cands.get(rng.below(cands.len().max(1) as u64) as usize) {
                    h.steps.push(HStep::MadeOptional(f.name.clone()));
                }
            }
            _ => {
                // removable: last serialized field of its chunk
                let cands: Vec<&&FState> = present
                    .iter()
                    .filter(|f| {
                        let g = schema.generation(&f.name);
                        if g > 0 {
                            true
                        } else {
                            // last present chunk-0 field in declaration order
                            present.iter().filter(|x| schema.generation(&x.name) == 0).last().map(|x| &x.name)
                                == Some(&f.name)
                        }
                    })
                    .collect();
                // keep at least one serialized field in most histories
                if present.len() <= 1 && rng.chance(3, 4) {
                    continue;
                }
                if let Some(f) = cands.get(rng.below(cands.len().max(1) as u64) as usize) {
                    if rng.chance(1, 2) {
                        h.steps.push(HStep::Removed(f.name.clone()));
                    } else {
                        let ty = History::field_ty(f);
                        let default = mk_default(&ty, rng);
                        h.steps.push(HStep::MadeTransient { name: f.name.clone(), default });
                    }
                }
            }
        }
    }
    h
}
