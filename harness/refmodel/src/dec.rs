//! Strict reference decoder with explicit windows (DESIGN §4.3, §4.5, Appendix A).
//! Sets and maps are returned in wire order (`canon` sorts / collapses them).

use crate::enc::unzigzag;
use crate::ty::*;

#[derive(Clone, Debug, PartialEq)]
pub enum ErrKind {
    InputEnded,
    InvalidTag,
    NegativeLength,
    InvalidUtf8,
    InvalidChar,
    InvalidStringId,
    InvalidCtor,
    TransientCtor,
    CountMismatch,
    Framing,
    Domain,
    FieldRemoved(String),
    FieldMissing(String),
    NonOptionalNone(String),
    /// the reference model cannot judge this input (never a verdict about the library)
    Unsupported,
}

#[derive(Clone, Debug, PartialEq)]
pub struct DecErr {
    pub kind: ErrKind,
    pub msg: String,
}

fn err<T>(kind: ErrKind, msg: impl Into<String>) -> Result<T, DecErr> {
    Err(DecErr { kind, msg: msg.into() })
}

#[derive(Clone, Copy, Debug, PartialEq, Eq, Hash, PartialOrd, Ord)]
pub enum AnnotKind {
    Version,
    StepCode,
    ChunkSize,
    PositionByte,
    Count,
    StrLen,
    BytesLen,
    Tag,
    CtorIndex,
    StringId,
    ItemFlag,
    /// a whole chunk of an evolved record (off..off+len)
    Chunk,
    /// a whole record with header (off..off+len)
    Record,
}

pub const ALL_ANNOT_KINDS: [AnnotKind; 13] = [
    AnnotKind::Version,
    AnnotKind::StepCode,
    AnnotKind::ChunkSize,
    AnnotKind::PositionByte,
    AnnotKind::Count,
    AnnotKind::StrLen,
    AnnotKind::BytesLen,
    AnnotKind::Tag,
    AnnotKind::CtorIndex,
    AnnotKind::StringId,
    AnnotKind::ItemFlag,
    AnnotKind::Chunk,
    AnnotKind::Record,
];

#[derive(Clone, Debug)]
pub struct Annot {
    pub off: usize,
    pub len: usize,
    pub kind: AnnotKind,
    pub value: i64,
}

pub struct Dec<'a> {
    buf: &'a [u8],
    pos: usize,
    end: usize,
    strings: Vec<String>,
    pub annots: Vec<Annot>,
    pub annotate: bool,
    /// the size form met at every sequence position, in decode order (true = unknown-length form)
    pub forms: Vec<bool>,
    /// for every deduplicated string read: was it written in full (true) or as a back-reference (false)
    pub dedup_forms: Vec<bool>,
    /// the largest non-negative count met at a sequence whose elements have an empty encoding
    pub zero_width_max: usize,
    /// bytes of strings cited by id so far (what the citations stand for, not what they occupy on the wire)
    pub backref_bytes: usize,
    /// a lenient position was passed in the window being read: where the client codec left the cursor is not the
    /// format's business, so nothing more can be said about this window (reads answer `Unsupported`)
    cursor_lost: bool,
    /// … nor about the string table afterwards
    tables_lost: bool,
    depth: usize,
}

const MAX_DEPTH: usize = 4000;
/// window cursor after a lenient position
const POISONED: usize = usize::MAX;

impl<'a> Dec<'a> {
    pub fn new(buf: &'a [u8]) -> Self {
        Dec { buf, pos: 0, end: buf.len(), strings: Vec::new(), annots: Vec::new(), annotate: false, forms: Vec::new(), dedup_forms: Vec::new(), zero_width_max: 0, backref_bytes: 0, cursor_lost: false, tables_lost: false, depth: 0 }
    }

    pub fn pos(&self) -> usize {
        self.pos
    }

    fn note(&mut self, off: usize, kind: AnnotKind, value: i64) {
        if self.annotate {
            let len = self.pos - off;
            self.annots.push(Annot { off, len, kind, value });
        }
    }

    fn u8(&mut self) -> Result<u8, DecErr> {
        if self.cursor_lost {
            return err(ErrKind::Unsupported, "read after a lenient position in the same window");
        }
        if self.pos >= self.end {
            return err(ErrKind::InputEnded, "u8");
        }
        let b = self.buf[self.pos];
        self.pos += 1;
        Ok(b)
    }

    fn take(&mut self, n: usize) -> Result<&'a [u8], DecErr> {
        if self.cursor_lost {
            return err(ErrKind::Unsupported, "read after a lenient position in the same window");
        }
        if n > self.end - self.pos {
            return err(ErrKind::InputEnded, format!("need {n} bytes, {} left in window", self.end - self.pos));
        }
        let s = &self.buf[self.pos..self.pos + n];
        self.pos += n;
        Ok(s)
    }

    /// LEB128, at most five bytes; over-long encodings accepted; in the fifth byte only the low four bits count
    pub fn vu(&mut self) -> Result<u32, DecErr> {
        let mut r: u32 = 0;
        for i in 0..5 {
            let b = self.u8()?;
            if i < 4 {
                r |= ((b & 0x7f) as u32) << (7 * i);
                if b & 0x80 == 0 {
                    return Ok(r);
                }
            } else {
                r |= ((b & 0x0f) as u32) << 28;
            }
        }
        Ok(r)
    }

    pub fn vi(&mut self) -> Result<i32, DecErr> {
        Ok(unzigzag(self.vu()?))
    }

    fn be(&mut self, n: usize) -> Result<u128, DecErr> {
        let s = self.take(n)?;
        let mut r: u128 = 0;
        for b in s {
            r = (r << 8) | *b as u128;
        }
        Ok(r)
    }

    fn be_signed(&mut self, n: usize) -> Result<i128, DecErr> {
        let u = self.be(n)?;
        let bits = 8 * n as u32;
        if bits == 128 {
            Ok(u as i128)
        } else if u >> (bits - 1) & 1 == 1 {
            Ok(u as i128 - (1i128 << bits))
        } else {
            Ok(u as i128)
        }
    }

    fn utf8(&mut self, n: usize) -> Result<String, DecErr> {
        let s = self.take(n)?;
        match std::str::from_utf8(s) {
            Ok(s) => Ok(s.to_string()),
            Err(e) => err(ErrKind::InvalidUtf8, e.to_string()),
        }
    }

    fn plain_string(&mut self) -> Result<String, DecErr> {
        let off = self.pos;
        let n = self.vi()?;
        self.note(off, AnnotKind::StrLen, n as i64);
        if n < 0 {
            return err(ErrKind::NegativeLength, format!("string length {n}"));
        }
        self.utf8(n as usize)
    }

    fn dedup_string(&mut self) -> Result<String, DecErr> {
        if self.tables_lost {
            return err(ErrKind::Unsupported, "string table after a lenient position");
        }
        let off = self.pos;
        let n = self.vi()?;
        self.dedup_forms.push(n >= 0);
        if n < 0 {
            self.note(off, AnnotKind::StringId, n as i64);
            let id = -(n as i64);
            if id >= 1 && id as usize <= self.strings.len() {
                self.backref_bytes += self.strings[id as usize - 1].len();
                Ok(self.strings[id as usize - 1].clone())
            } else {
                err(ErrKind::InvalidStringId, format!("string id {id}, {} known", self.strings.len()))
            }
        } else {
            self.note(off, AnnotKind::StrLen, n as i64);
            let s = self.utf8(n as usize)?;
            if !self.strings.contains(&s) {
                self.strings.push(s.clone());
            }
            Ok(s)
        }
    }

    fn seq(&mut self, elem: &Ty, expect: Option<usize>) -> Result<Vec<Val>, DecErr> {
        let off = self.pos;
        let n = self.vi()?;
        self.note(off, AnnotKind::Count, n as i64);
        let mut items = Vec::new();
        self.forms.push(n == -1);
        if n == -1 {
            loop {
                let off = self.pos;
                let flag = self.u8()?;
                self.note(off, AnnotKind::ItemFlag, flag as i64);
                match flag {
                    0 => break,
                    1 => items.push(self.decode(elem)?),
                    other => return err(ErrKind::InvalidTag, format!("sequence item flag {other}")),
                }
                if let Some(e) = expect {
                    if items.len() > e {
                        return err(ErrKind::CountMismatch, format!("more than {e} items"));
                    }
                }
            }
        } else if n < 0 {
            return err(ErrKind::NegativeLength, format!("sequence count {n}"));
        } else {
            if elem.may_encode_empty() {
                self.zero_width_max = self.zero_width_max.max(n as usize);
            }
            if let Some(e) = expect {
                if n as usize != e {
                    return err(ErrKind::CountMismatch, format!("count {n}, container holds {e}"));
                }
            }
            // elements with an empty encoding: the count is not bounded by the window; the model does not
            // materialise millions of units (the library's behaviour on such input is known finding D9)
            if n as usize > (self.end - self.pos) + (1 << 20) && elem.may_encode_empty() {
                return err(ErrKind::Unsupported, format!("{n} zero-width elements"));
            }
            for _ in 0..n {
                items.push(self.decode(elem)?);
            }
        }
        if let Some(e) = expect {
            if items.len() != e {
                return err(ErrKind::CountMismatch, format!("{} items, container holds {e}", items.len()));
            }
        }
        Ok(items)
    }

    pub fn decode(&mut self, ty: &Ty) -> Result<Val, DecErr> {
        self.depth += 1;
        if self.depth > MAX_DEPTH {
            self.depth -= 1;
            return err(ErrKind::Unsupported, "nesting deeper than the reference decoder follows");
        }
        let r = self.decode_inner(ty);
        self.depth -= 1;
        r
    }

    fn decode_inner(&mut self, ty: &Ty) -> Result<Val, DecErr> {
        match ty {
            Ty::Named(n) => {
                let t = resolve(n);
                self.decode_inner(&t)
            }
            Ty::VarU32 => Ok(Val::U(self.vu()? as u128)),
            Ty::U8 => Ok(Val::U(self.be(1)?)),
            Ty::U16 => Ok(Val::U(self.be(2)?)),
            Ty::U32 => Ok(Val::U(self.be(4)?)),
            Ty::U64 => Ok(Val::U(self.be(8)?)),
            Ty::U128 => Ok(Val::U(self.be(16)?)),
            Ty::I8 => Ok(Val::I(self.be_signed(1)?)),
            Ty::I16 => Ok(Val::I(self.be_signed(2)?)),
            Ty::I32 => Ok(Val::I(self.be_signed(4)?)),
            Ty::I64 => Ok(Val::I(self.be_signed(8)?)),
            Ty::I128 => Ok(Val::I(self.be_signed(16)?)),
            Ty::F32 => Ok(Val::F32(self.be(4)? as u32)),
            Ty::F64 => Ok(Val::F64(self.be(8)? as u64)),
            Ty::Bool => Ok(Val::Bool(self.u8()? != 0)),
            Ty::Unit => Ok(Val::Unit),
            Ty::Char => {
                let c = self.be(2)? as u32;
                if (0xD800..=0xDFFF).contains(&c) {
                    err(ErrKind::InvalidChar, format!("unpaired surrogate {c:#x}"))
                } else {
                    Ok(Val::Char(c))
                }
            }
            Ty::Str | Ty::BigDecimal => Ok(Val::Str(self.plain_string()?)),
            Ty::DedupStr => Ok(Val::Str(self.dedup_string()?)),
            Ty::Duration => {
                let secs = self.be(8)?;
                let nanos = self.be(4)?;
                if secs + nanos / 1_000_000_000 > u64::MAX as u128 {
                    return err(ErrKind::Domain, "duration seconds overflow");
                }
                Ok(Val::Tuple(vec![Val::U(secs), Val::U(nanos)]))
            }
            Ty::Opt(t) => {
                let off = self.pos;
                let tag = self.u8()?;
                self.note(off, AnnotKind::Tag, tag as i64);
                match tag {
                    0 => Ok(Val::None),
                    1 => Ok(Val::some(self.decode(t)?)),
                    other => err(ErrKind::InvalidTag, format!("option tag {other}")),
                }
            }
            Ty::Res(ok, e) => {
                let off = self.pos;
                let tag = self.u8()?;
                self.note(off, AnnotKind::Tag, tag as i64);
                match tag {
                    0 => Ok(Val::Err(Box::new(self.decode(e)?))),
                    1 => Ok(Val::Ok(Box::new(self.decode(ok)?))),
                    other => err(ErrKind::InvalidTag, format!("result tag {other}")),
                }
            }
            Ty::Tuple(ts) => {
                let schema = tuple_schema(ts);
                match self.record(&schema)? {
                    Val::Rec(fields) => Ok(Val::Tuple(fields)),
                    _ => unreachable!(),
                }
            }
            Ty::Seq(t) | Ty::Set(t) => Ok(Val::Seq(self.seq(t, None)?)),
            Ty::Array(t, n) => Ok(Val::Seq(self.seq(t, Some(*n))?)),
            Ty::Map(k, v) => {
                let pair = Ty::Tuple(vec![(**k).clone(), (**v).clone()]);
                Ok(Val::Seq(self.seq(&pair, None)?))
            }
            Ty::Bytes | Ty::BigInt => {
                let off = self.pos;
                let n = self.vu()?;
                self.note(off, AnnotKind::BytesLen, n as i64);
                Ok(Val::Bytes(self.take(n as usize)?.to_vec()))
            }
            Ty::ByteArray(len) => {
                let off = self.pos;
                let n = self.vu()?;
                self.note(off, AnnotKind::BytesLen, n as i64);
                let b = self.take(n as usize)?;
                if n as usize != *len {
                    return err(ErrKind::CountMismatch, format!("{n} bytes for [u8; {len}]"));
                }
                Ok(Val::Bytes(b.to_vec()))
            }
            Ty::Wrap(t) => self.decode(t),
            Ty::Lenient(t) => self.lenient(t),
            Ty::Uuid => Ok(Val::Bytes(self.take(16)?.to_vec())),
            Ty::Weekday | Ty::Month => Ok(Val::U(self.be(1)?)),
            Ty::FixedOffset => {
                let off = self.pos;
                let tag = self.u8()?;
                self.note(off, AnnotKind::Tag, tag as i64);
                if tag != 0 {
                    return err(ErrKind::InvalidTag, format!("fixed offset type {tag}"));
                }
                Ok(Val::I(self.vi()? as i128))
            }
            Ty::Tz => {
                let off = self.pos;
                let tag = self.u8()?;
                self.note(off, AnnotKind::Tag, tag as i64);
                if tag != 1 {
                    return err(ErrKind::InvalidTag, format!("tz type {tag}"));
                }
                Ok(Val::Str(self.plain_string()?))
            }
            Ty::DateTimeUtc => {
                let secs = self.be_signed(8)?;
                let nanos = self.be(4)?;
                Ok(Val::Tuple(vec![Val::I(secs), Val::U(nanos)]))
            }
            Ty::NaiveDate => {
                let y = self.vu()? as i32;
                let m = self.u8()?;
                let d = self.u8()?;
                Ok(Val::Tuple(vec![Val::I(y as i128), Val::U(m as u128), Val::U(d as u128)]))
            }
            Ty::NaiveTime => {
                let h = self.u8()?;
                let m = self.u8()?;
                let s = self.u8()?;
                let n = self.vu()?;
                Ok(Val::Tuple(vec![
                    Val::U(h as u128),
                    Val::U(m as u128),
                    Val::U(s as u128),
                    Val::U(n as u128),
                ]))
            }
            Ty::NaiveDateTime | Ty::DateTimeLocal => {
                let d = self.decode(&Ty::NaiveDate)?;
                let t = self.decode(&Ty::NaiveTime)?;
                Ok(Val::Tuple(vec![d, t]))
            }
            Ty::DateTimeFixed => {
                let dt = self.decode(&Ty::NaiveDateTime)?;
                let off = self.decode(&Ty::FixedOffset)?;
                Ok(Val::Tuple(vec![dt, off]))
            }
            Ty::DateTimeTz => {
                let dt = self.decode(&Ty::NaiveDateTime)?;
                let tz = self.decode(&Ty::Tz)?;
                Ok(Val::Tuple(vec![dt, tz]))
            }
            Ty::Record(schema) => self.record(schema),
            Ty::Enum(schema) => self.enumeration(schema),
        }
    }

    /// header of a record / tuple / enum with stored version ≥ 1:
    /// returns chunk windows (absolute), made-optional positions, removed names
    #[allow(clippy::type_complexity)]
    fn header(&mut self, ver: usize) -> Result<(Vec<(usize, usize)>, Vec<(usize, usize)>, Vec<(String, usize)>), DecErr> {
        let mut sizes: Vec<usize> = Vec::with_capacity(ver + 1);
        let mut made_optional: Vec<(usize, usize)> = Vec::new();
        // removed names with the index of the step that removed them
        let mut removed: Vec<(String, usize)> = Vec::new();
        for step in 0..=ver {
            let off = self.pos;
            let code = self.vi()?;
            if code > 0 {
                self.note(off, AnnotKind::ChunkSize, code as i64);
                sizes.push(code as usize);
            } else if code == 0 {
                self.note(off, AnnotKind::StepCode, 0);
                sizes.push(0);
            } else if code == -1 {
                self.note(off, AnnotKind::StepCode, -1);
                let off = self.pos;
                let p = self.u8()? as i8;
                self.note(off, AnnotKind::PositionByte, p as i64);
                if p < 0 {
                    made_optional.push((0, (-(p as i64)) as usize));
                } else {
                    made_optional.push((p as usize, 0));
                }
                sizes.push(0);
            } else if code == -2 {
                self.note(off, AnnotKind::StepCode, -2);
                let name = self.dedup_string()?;
                removed.push((name, step));
                sizes.push(0);
            } else {
                return err(ErrKind::NegativeLength, format!("chunk size {code}"));
            }
        }
        let mut windows = Vec::with_capacity(ver + 1);
        let mut at = self.pos;
        for (i, s) in sizes.iter().enumerate() {
            if *s > self.end - at {
                return err(ErrKind::InputEnded, format!("chunk {i} of {s} bytes does not fit its window"));
            }
            if self.annotate && *s > 0 {
                self.annots.push(Annot { off: at, len: *s, kind: AnnotKind::Chunk, value: i as i64 });
            }
            windows.push((at, at + s));
            at += s;
        }
        self.pos = at;
        Ok((windows, made_optional, removed))
    }

    fn in_window<T>(
        &mut self,
        windows: &mut [(usize, usize)],
        chunk: usize,
        f: impl FnOnce(&mut Self) -> Result<T, DecErr>,
    ) -> Result<T, DecErr> {
        if windows[chunk].0 == POISONED {
            return err(ErrKind::Unsupported, "window read after a lenient position");
        }
        let (saved_pos, saved_end, saved_lost) = (self.pos, self.end, self.cursor_lost);
        self.pos = windows[chunk].0;
        self.end = windows[chunk].1;
        self.cursor_lost = false;
        let r = f(self);
        windows[chunk].0 = if self.cursor_lost { POISONED } else { self.pos };
        self.pos = saved_pos;
        self.end = saved_end;
        self.cursor_lost = saved_lost;
        r
    }

    /// A lenient position: whatever the client codec made of the bytes, the rest of *this* window is its business.
    /// The inner value is decoded on a best-effort basis for the annotations only; the result is never compared.
    fn lenient(&mut self, inner: &Ty) -> Result<Val, DecErr> {
        let r = self.decode(inner);
        if let Err(e) = &r {
            if e.kind == ErrKind::Unsupported {
                return r;
            }
        }
        self.cursor_lost = true;
        self.tables_lost = true;
        Ok(r.unwrap_or(Val::Unit))
    }

    pub fn record(&mut self, schema: &RecordSchema) -> Result<Val, DecErr> {
        let rec_off = self.pos;
        let off = self.pos;
        let ver = self.u8()? as usize;
        self.note(off, AnnotKind::Version, ver as i64);
        let mut out = Vec::with_capacity(schema.fields.len());
        if ver == 0 {
            for f in &schema.fields {
                if f.transient {
                    out.push(f.default.clone().expect("transient default"));
                    continue;
                }
                let g = schema.generation(&f.name);
                if g > 0 {
                    match &f.default {
                        Some(d) => out.push(d.clone()),
                        None => return err(ErrKind::FieldMissing(f.name.clone()), "no default"),
                    }
                    continue;
                }
                if f.opt_by_name {
                    let inner = opt_inner(&f.ty);
                    if schema.made_optional_at(&f.name) > 0 {
                        out.push(Val::some(self.decode(&inner)?));
                    } else {
                        out.push(self.decode(&f.ty)?);
                    }
                } else {
                    out.push(self.decode(&f.ty)?);
                }
            }
            return Ok(Val::Rec(out));
        }

        let (mut windows, made_optional, removed) = self.header(ver)?;
        let end_of_record = self.pos;
        let mut next_index = vec![0usize; schema.version().max(ver) + 1];
        for f in &schema.fields {
            if f.transient {
                out.push(f.default.clone().expect("transient default"));
                continue;
            }
            // a removal that precedes the step which added this field concerns an earlier field of the same name
            let is_removed = removed.iter().any(|(n, at)| n == &f.name && *at > schema.generation(&f.name));
            if !f.opt_by_name {
                if is_removed {
                    return err(ErrKind::FieldRemoved(f.name.clone()), "removed in stored version");
                }
                let g = schema.generation(&f.name);
                let idx = next_index[g];
                next_index[g] += 1;
                if ver < g {
                    match &f.default {
                        Some(d) => out.push(d.clone()),
                        None => return err(ErrKind::FieldMissing(f.name.clone()), "no default"),
                    }
                    continue;
                }
                let as_option = made_optional.contains(&(g, idx));
                let fty = f.ty.clone();
                let name = f.name.clone();
                let v = self.in_window(&mut windows, g, |d| {
                    if as_option {
                        let off = d.pos;
                        let tag = d.u8()?;
                        d.note(off, AnnotKind::Tag, tag as i64);
                        if tag != 0 {
                            d.decode(&fty)
                        } else {
                            err(ErrKind::NonOptionalNone(name), "required field stored as None")
                        }
                    } else {
                        d.decode(&fty)
                    }
                })?;
                out.push(v);
            } else {
                if is_removed {
                    out.push(Val::None);
                    continue;
                }
                let g = schema.generation(&f.name);
                next_index[g] += 1;
                if ver < g {
                    match &f.default {
                        Some(d) => out.push(d.clone()),
                        None => return err(ErrKind::FieldMissing(f.name.clone()), "optional field without default"),
                    }
                    continue;
                }
                let opt_since = schema.made_optional_at(&f.name);
                let fty = f.ty.clone();
                let v = self.in_window(&mut windows, g, |d| {
                    if ver < opt_since {
                        Ok(Val::some(d.decode(&opt_inner(&fty))?))
                    } else {
                        d.decode(&fty)
                    }
                })?;
                out.push(v);
            }
        }
        self.pos = end_of_record;
        if self.annotate {
            self.annots.push(Annot { off: rec_off, len: end_of_record - rec_off, kind: AnnotKind::Record, value: ver as i64 });
        }
        Ok(Val::Rec(out))
    }

    fn enumeration(&mut self, schema: &EnumSchema) -> Result<Val, DecErr> {
        let off = self.pos;
        let ver = self.u8()? as usize;
        self.note(off, AnnotKind::Version, ver as i64);
        if ver == 0 {
            return self.constructor(schema);
        }
        let (mut windows, _mo, _rm) = self.header(ver)?;
        let end_of_record = self.pos;
        let v = self.in_window(&mut windows, 0, |d| d.constructor(schema))?;
        self.pos = end_of_record;
        Ok(v)
    }

    fn constructor(&mut self, schema: &EnumSchema) -> Result<Val, DecErr> {
        let off = self.pos;
        let idx = self.vu()?;
        self.note(off, AnnotKind::CtorIndex, idx as i64);
        match schema.decl_of_wire(idx) {
            None => err(ErrKind::InvalidCtor, format!("constructor {idx} of {}", schema.name)),
            Some(decl) => {
                let variant = &schema.variants[decl];
                if variant.transient {
                    return err(ErrKind::TransientCtor, format!("{}::{}", schema.name, variant.name));
                }
                match self.record(&variant.record)? {
                    Val::Rec(fields) => Ok(Val::Ctor(decl, fields)),
                    _ => unreachable!(),
                }
            }
        }
    }
}

pub fn opt_inner(ty: &Ty) -> Ty {
    match ty.resolved() {
        Ty::Opt(t) => *t,
        other => panic!("opt_by_name field whose type is not Opt: {}", other.render()),
    }
}

pub fn tuple_schema(ts: &[Ty]) -> RecordSchema {
    RecordSchema {
        name: format!("Tuple{}", ts.len()),
        fields: ts
            .iter()
            .enumerate()
            .map(|(i, t)| FieldSchema {
                name: format!("_{i}"),
                ty: t.clone(),
                opt_by_name: false,
                transient: false,
                default: None,
            })
            .collect(),
        steps: vec![],
    }
}

/// decode a complete top-level value; returns the value (sets/maps in wire order) and the bytes consumed
pub fn ref_decode(ty: &Ty, bytes: &[u8]) -> Result<(Val, usize), DecErr> {
    let mut d = Dec::new(bytes);
    let v = d.decode(ty)?;
    Ok((v, d.pos))
}

/// total length of the strings the input cites by id on the path the strict decoder walks (whatever happens after)
pub fn ref_backref_cost(ty: &Ty, bytes: &[u8]) -> usize {
    let mut d = Dec::new(bytes);
    let _ = d.decode(ty);
    d.backref_bytes
}

/// the largest count of zero-width elements the input asks for on the path the strict decoder walks (whatever happens after)
pub fn ref_zero_width_demand(ty: &Ty, bytes: &[u8]) -> usize {
    let mut d = Dec::new(bytes);
    let _ = d.decode(ty);
    d.zero_width_max
}

/// decode and also return the size form met at every sequence position (for byte-exact re-encoding of foreign data)
pub fn ref_decode_forms(ty: &Ty, bytes: &[u8]) -> Result<(Val, usize, Vec<bool>, Vec<bool>), DecErr> {
    let mut d = Dec::new(bytes);
    let v = d.decode(ty)?;
    Ok((v, d.pos, d.forms, d.dedup_forms))
}

/// decode and return the annotated parse (offsets of counts, sizes, tags …) for the tamper operators
pub fn ref_annotate(ty: &Ty, bytes: &[u8]) -> Result<(Val, usize, Vec<Annot>), DecErr> {
    let mut d = Dec::new(bytes);
    d.annotate = true;
    let v = d.decode(ty)?;
    Ok((v, d.pos, d.annots))
}
