//! Reference encoder: the bytes the desert binary format prescribes for a value.
//! Written from the format description (DESIGN Appendix A), not from the library's code.

use crate::ty::*;
use std::collections::HashMap;

#[derive(Clone, Debug, PartialEq)]
pub enum EncErr {
    UnsupportedCharacter(u32),
    LengthTooLarge,
    TransientConstructor { type_name: String, constructor_name: String },
    UnknownFieldReference(String),
    /// the value does not have the shape of the type — a harness bug, never a verdict about the library
    Shape(String),
}

/// LEB128 of a u32, minimal length.
pub fn vu_bytes(mut x: u32) -> Vec<u8> {
    let mut v = Vec::with_capacity(5);
    loop {
        let low = (x & 0x7f) as u8;
        x >>= 7;
        if x == 0 {
            v.push(low);
            return v;
        }
        v.push(low | 0x80);
    }
}

pub fn zigzag(x: i32) -> u32 {
    // 0,-1,1,-2,2 … → 0,1,2,3,4 …
    if x >= 0 {
        (x as u32) << 1
    } else {
        (((-(x as i64)) as u32) << 1).wrapping_sub(1)
    }
}

pub fn unzigzag(z: u32) -> i32 {
    if z & 1 == 0 {
        (z >> 1) as i32
    } else {
        (-(((z >> 1) as i64) + 1)) as i32
    }
}

pub fn vi_bytes(x: i32) -> Vec<u8> {
    vu_bytes(zigzag(x))
}

#[derive(Clone, Copy, Debug, Default)]
pub struct Quirks {
    /// D12: the writer numbers the names in an evolution header after the strings of the fields
    pub dedup_header_last: bool,
    /// D11: FieldMadeOptional(f) followed by FieldMadeTransient(f) cannot be encoded
    pub made_optional_then_transient_fails: bool,
    /// D1: 1-tuples are written without their version byte
    pub tuple1_without_version: bool,
}

pub struct Enc<'a> {
    pub out: Vec<u8>,
    strings: HashMap<String, i32>,
    last_id: i32,
    pub quirks: Quirks,
    /// called at every sequence position: true = use the unknown-length form
    pub unknown_form: Option<&'a mut dyn FnMut() -> bool>,
    /// called for every deduplicated string: true = write it in full even if it is already known (a freedom of the
    /// format that the Scala writer uses; this library's writer never does)
    pub dedup_full: Option<&'a mut dyn FnMut() -> bool>,
    /// called at every tuple position (map entries included): n > 0 = write the tuple the way a writer n evolution steps
    /// ahead would (version byte n, header with the size of chunk 0 and n later entries, chunks the reader knows nothing
    /// about after chunk 0) — tuples are records, and a record of a newer version must stay readable
    pub tuple_newer: Option<&'a mut dyn FnMut() -> u32>,
}

impl<'a> Enc<'a> {
    pub fn new() -> Self {
        Enc {
            out: Vec::new(),
            strings: HashMap::new(),
            last_id: 0,
            quirks: Quirks::default(),
            unknown_form: None,
            dedup_full: None,
            tuple_newer: None,
        }
    }

    fn vu(&mut self, x: u32) {
        self.out.extend_from_slice(&vu_bytes(x));
    }

    fn vi(&mut self, x: i32) {
        self.out.extend_from_slice(&vi_bytes(x));
    }

    fn len_i32(n: usize) -> Result<i32, EncErr> {
        i32::try_from(n).map_err(|_| EncErr::LengthTooLarge)
    }

    fn shape<T>(ty: &Ty, v: &Val) -> Result<T, EncErr> {
        Err(EncErr::Shape(format!("{} vs {}", ty.render(), v.render(80))))
    }

    pub fn plain_string(&mut self, s: &str) -> Result<(), EncErr> {
        let n = Self::len_i32(s.len())?;
        self.vi(n);
        self.out.extend_from_slice(s.as_bytes());
        Ok(())
    }

    pub fn dedup_string(&mut self, s: &str) -> Result<(), EncErr> {
        let force_full = match self.dedup_full.as_mut() {
            Some(f) => f(),
            None => false,
        };
        if let Some(id) = self.strings.get(s) {
            if force_full {
                return self.plain_string(s);
            }
            let id = *id;
            self.vi(-id);
            Ok(())
        } else {
            self.last_id += 1;
            self.strings.insert(s.to_string(), self.last_id);
            self.plain_string(s)
        }
    }

    fn uint(&mut self, v: &Val, ty: &Ty, bytes: usize) -> Result<(), EncErr> {
        match v {
            Val::U(x) => {
                let b = x.to_be_bytes();
                self.out.extend_from_slice(&b[16 - bytes..]);
                Ok(())
            }
            _ => Self::shape(ty, v),
        }
    }

    fn sint(&mut self, v: &Val, ty: &Ty, bytes: usize) -> Result<(), EncErr> {
        match v {
            Val::I(x) => {
                let b = x.to_be_bytes();
                self.out.extend_from_slice(&b[16 - bytes..]);
                Ok(())
            }
            _ => Self::shape(ty, v),
        }
    }

    fn seq(&mut self, elem: &Ty, items: &[Val]) -> Result<(), EncErr> {
        let unknown = match self.unknown_form.as_mut() {
            Some(f) => f(),
            None => false,
        };
        if unknown {
            self.vi(-1);
            for it in items {
                self.out.push(1);
                self.encode(elem, it)?;
            }
            self.out.push(0);
        } else {
            let n = Self::len_i32(items.len())?;
            self.vi(n);
            for it in items {
                self.encode(elem, it)?;
            }
        }
        Ok(())
    }

    pub fn encode(&mut self, ty: &Ty, v: &Val) -> Result<(), EncErr> {
        match ty {
            Ty::Named(n) => {
                let t = resolve(n);
                self.encode(&t, v)
            }
            Ty::VarU32 => match v {
                Val::U(x) => {
                    self.vu(*x as u32);
                    Ok(())
                }
                _ => Self::shape(ty, v),
            },
            Ty::U8 => self.uint(v, ty, 1),
            Ty::U16 => self.uint(v, ty, 2),
            Ty::U32 => self.uint(v, ty, 4),
            Ty::U64 => self.uint(v, ty, 8),
            Ty::U128 => self.uint(v, ty, 16),
            Ty::I8 => self.sint(v, ty, 1),
            Ty::I16 => self.sint(v, ty, 2),
            Ty::I32 => self.sint(v, ty, 4),
            Ty::I64 => self.sint(v, ty, 8),
            Ty::I128 => self.sint(v, ty, 16),
            Ty::F32 => match v {
                Val::F32(b) => {
                    self.out.extend_from_slice(&b.to_be_bytes());
                    Ok(())
                }
                _ => Self::shape(ty, v),
            },
            Ty::F64 => match v {
                Val::F64(b) => {
                    self.out.extend_from_slice(&b.to_be_bytes());
                    Ok(())
                }
                _ => Self::shape(ty, v),
            },
            Ty::Bool => match v {
                Val::Bool(b) => {
                    self.out.push(*b as u8);
                    Ok(())
                }
                _ => Self::shape(ty, v),
            },
            Ty::Unit => match v {
                Val::Unit => Ok(()),
                _ => Self::shape(ty, v),
            },
            Ty::Char => match v {
                Val::Char(c) => {
                    if *c > 0xFFFF {
                        Err(EncErr::UnsupportedCharacter(*c))
                    } else {
                        self.out.extend_from_slice(&(*c as u16).to_be_bytes());
                        Ok(())
                    }
                }
                _ => Self::shape(ty, v),
            },
            Ty::Str | Ty::BigDecimal => match v {
                Val::Str(s) => self.plain_string(s),
                _ => Self::shape(ty, v),
            },
            Ty::DedupStr => match v {
                Val::Str(s) => self.dedup_string(s),
                _ => Self::shape(ty, v),
            },
            Ty::Duration => match v {
                Val::Tuple(xs) if xs.len() == 2 => {
                    self.uint(&xs[0], ty, 8)?;
                    self.uint(&xs[1], ty, 4)
                }
                _ => Self::shape(ty, v),
            },
            Ty::Opt(t) => match v {
                Val::None => {
                    self.out.push(0);
                    Ok(())
                }
                Val::Some(x) => {
                    self.out.push(1);
                    self.encode(t, x)
                }
                _ => Self::shape(ty, v),
            },
            Ty::Res(ok, err) => match v {
                Val::Ok(x) => {
                    self.out.push(1);
                    self.encode(ok, x)
                }
                Val::Err(x) => {
                    self.out.push(0);
                    self.encode(err, x)
                }
                _ => Self::shape(ty, v),
            },
            Ty::Tuple(ts) => match v {
                Val::Tuple(xs) if xs.len() == ts.len() => {
                    let newer = match self.tuple_newer.as_mut() {
                        Some(f) => f().min(200),
                        None => 0,
                    };
                    if newer > 0 {
                        let saved = std::mem::take(&mut self.out);
                        let mut r = Ok(());
                        for (t, x) in ts.iter().zip(xs) {
                            r = self.encode(t, x);
                            if r.is_err() {
                                break;
                            }
                        }
                        let chunk0 = std::mem::replace(&mut self.out, saved);
                        r?;
                        return self.wrap_newer(newer, chunk0);
                    }
                    if !(ts.len() == 1 && self.quirks.tuple1_without_version) {
                        self.out.push(0);
                    }
                    for (t, x) in ts.iter().zip(xs) {
                        self.encode(t, x)?;
                    }
                    Ok(())
                }
                _ => Self::shape(ty, v),
            },
            Ty::Seq(t) | Ty::Set(t) => match v {
                Val::Seq(xs) => self.seq(t, xs),
                _ => Self::shape(ty, v),
            },
            Ty::Array(t, n) => match v {
                Val::Seq(xs) if xs.len() == *n => self.seq(t, xs),
                _ => Self::shape(ty, v),
            },
            Ty::Map(k, val_ty) => match v {
                Val::Seq(xs) => {
                    let pair = Ty::Tuple(vec![(**k).clone(), (**val_ty).clone()]);
                    self.seq(&pair, xs)
                }
                _ => Self::shape(ty, v),
            },
            Ty::Bytes | Ty::BigInt => match v {
                Val::Bytes(b) => {
                    // a 31-bit count like every other length of the format, written as an unsigned varint
                    let n = Self::len_i32(b.len())? as u32;
                    self.vu(n);
                    self.out.extend_from_slice(b);
                    Ok(())
                }
                _ => Self::shape(ty, v),
            },
            Ty::ByteArray(n) => match v {
                Val::Bytes(b) if b.len() == *n => {
                    // a 31-bit count like every other length of the format, written as an unsigned varint
                    let n = Self::len_i32(b.len())? as u32;
                    self.vu(n);
                    self.out.extend_from_slice(b);
                    Ok(())
                }
                _ => Self::shape(ty, v),
            },
            Ty::Wrap(t) | Ty::Lenient(t) => self.encode(t, v),
            Ty::Uuid => match v {
                Val::Bytes(b) if b.len() == 16 => {
                    self.out.extend_from_slice(b);
                    Ok(())
                }
                _ => Self::shape(ty, v),
            },
            Ty::Weekday | Ty::Month => self.uint(v, ty, 1),
            Ty::FixedOffset => match v {
                Val::I(secs) => {
                    self.out.push(0);
                    self.vi(*secs as i32);
                    Ok(())
                }
                _ => Self::shape(ty, v),
            },
            Ty::Tz => match v {
                Val::Str(name) => {
                    self.out.push(1);
                    self.plain_string(name)
                }
                _ => Self::shape(ty, v),
            },
            Ty::DateTimeUtc => match v {
                Val::Tuple(xs) if xs.len() == 2 => {
                    self.sint(&xs[0], ty, 8)?;
                    self.uint(&xs[1], ty, 4)
                }
                _ => Self::shape(ty, v),
            },
            Ty::NaiveDate => match v {
                Val::Tuple(xs) if xs.len() == 3 => match (&xs[0], &xs[1], &xs[2]) {
                    (Val::I(y), Val::U(m), Val::U(d)) => {
                        self.vu(*y as i32 as u32);
                        self.out.push(*m as u8);
                        self.out.push(*d as u8);
                        Ok(())
                    }
                    _ => Self::shape(ty, v),
                },
                _ => Self::shape(ty, v),
            },
            Ty::NaiveTime => match v {
                Val::Tuple(xs) if xs.len() == 4 => match (&xs[0], &xs[1], &xs[2], &xs[3]) {
                    (Val::U(h), Val::U(m), Val::U(s), Val::U(n)) => {
                        self.out.push(*h as u8);
                        self.out.push(*m as u8);
                        self.out.push(*s as u8);
                        self.vu(*n as u32);
                        Ok(())
                    }
                    _ => Self::shape(ty, v),
                },
                _ => Self::shape(ty, v),
            },
            Ty::NaiveDateTime | Ty::DateTimeLocal => match v {
                Val::Tuple(xs) if xs.len() == 2 => {
                    self.encode(&Ty::NaiveDate, &xs[0])?;
                    self.encode(&Ty::NaiveTime, &xs[1])
                }
                _ => Self::shape(ty, v),
            },
            Ty::DateTimeFixed => match v {
                Val::Tuple(xs) if xs.len() == 2 => {
                    self.encode(&Ty::NaiveDateTime, &xs[0])?;
                    self.encode(&Ty::FixedOffset, &xs[1])
                }
                _ => Self::shape(ty, v),
            },
            Ty::DateTimeTz => match v {
                Val::Tuple(xs) if xs.len() == 2 => {
                    self.encode(&Ty::NaiveDateTime, &xs[0])?;
                    self.encode(&Ty::Tz, &xs[1])
                }
                _ => Self::shape(ty, v),
            },
            Ty::Record(schema) => match v {
                Val::Rec(fields) if fields.len() == schema.fields.len() => {
                    self.record(schema, fields)
                }
                _ => Self::shape(ty, v),
            },
            Ty::Enum(schema) => match v {
                Val::Ctor(decl, fields) if *decl < schema.variants.len() => {
                    let variant = &schema.variants[*decl];
                    if variant.transient {
                        return Err(EncErr::TransientConstructor {
                            type_name: schema.name.clone(),
                            constructor_name: variant.name.clone(),
                        });
                    }
                    if fields.len() != variant.record.fields.len() {
                        return Self::shape(ty, v);
                    }
                    let newer = match self.tuple_newer.as_mut() {
                        Some(f) => f().min(200),
                        None => 0,
                    };
                    if newer > 0 {
                        // an enum written by a definition n steps ahead: chunk 0 holds the constructor and its record
                        let saved = std::mem::take(&mut self.out);
                        self.vu(schema.wire_index(*decl));
                        let r = self.record(&variant.record, fields);
                        let chunk0 = std::mem::replace(&mut self.out, saved);
                        r?;
                        return self.wrap_newer(newer, chunk0);
                    }
                    self.out.push(0);
                    self.vu(schema.wire_index(*decl));
                    self.record(&variant.record, fields)
                }
                _ => Self::shape(ty, v),
            },
        }
    }

    /// version byte n, header (size of chunk 0, n entries of a writer this reader knows nothing about), chunk 0, their chunks
    fn wrap_newer(&mut self, newer: u32, chunk0: Vec<u8>) -> Result<(), EncErr> {
        self.out.push(newer as u8);
        let n0 = Self::len_i32(chunk0.len())?;
        self.vi(n0);
        let junk: Vec<usize> = (0..newer as usize).map(|j| (chunk0.len() + 3 * j + 1) % 5).collect();
        for &n in &junk {
            self.vi(n as i32); // 0 = a step this reader cannot know, n = a chunk of n bytes
        }
        self.out.extend_from_slice(&chunk0);
        for &n in &junk {
            self.out.extend(std::iter::repeat(0xEE).take(n));
        }
        Ok(())
    }

    fn record(&mut self, schema: &RecordSchema, fields: &[Val]) -> Result<(), EncErr> {
        let version = schema.version();
        assert!(version <= 255);
        self.out.push(version as u8);
        if version == 0 {
            for (f, x) in schema.fields.iter().zip(fields) {
                if !f.transient {
                    self.encode(&f.ty, x)?;
                }
            }
            return Ok(());
        }

        // header entries that are names, in step order (needed before or after the fields, see quirk)
        let written: Vec<&FieldSchema> = schema.fields.iter().filter(|f| !f.transient).collect();
        let removed: Vec<&str> = schema
            .steps
            .iter()
            .filter_map(|s| match s {
                Step::Removed(n) => Some(n.as_str()),
                Step::MadeTransient(n) if !self.quirks.made_optional_then_transient_fails => {
                    Some(n.as_str())
                }
                _ => None,
            })
            .collect();

        enum Entry {
            Size(usize),             // chunk index
            MadeOptional(u8),        // position byte
            Name(Vec<u8>),           // already encoded dedup string
            NamePending(String),     // to be encoded after the fields (quirk)
        }
        let mut entries: Vec<Entry> = Vec::with_capacity(version + 1);
        entries.push(Entry::Size(0));
        for (i, s) in schema.steps.iter().enumerate() {
            let k = i + 1;
            let e = match s {
                Step::Added(_) => Entry::Size(k),
                Step::MadeOptional(name) => {
                    // a later removal of that name means this step spoke about a field that is gone (the name may have
                    // come back since: that is another field)
                    let removed_later = schema.steps[i + 1..].iter().any(|t| match t {
                        Step::Removed(n) => n == name,
                        Step::MadeTransient(n) => n == name && !self.quirks.made_optional_then_transient_fails,
                        _ => false,
                    });
                    if removed_later {
                        Entry::NamePending(name.clone())
                    } else if let Some(f) = written.iter().find(|f| &f.name == name) {
                        let gen = schema.generation(&f.name);
                        let pos = written
                            .iter()
                            .filter(|g| schema.generation(&g.name) == gen)
                            .position(|g| g.name == f.name)
                            .unwrap();
                        let byte = if gen == 0 { (-(pos as i64)) as i8 as u8 } else { gen as u8 };
                        Entry::MadeOptional(byte)
                    } else if removed.contains(&name.as_str()) {
                        Entry::NamePending(name.clone())
                    } else {
                        return Err(EncErr::UnknownFieldReference(name.clone()));
                    }
                }
                Step::Removed(name) | Step::MadeTransient(name) => Entry::NamePending(name.clone()),
            };
            entries.push(e);
        }

        let encode_names = |this: &mut Self, entries: &mut Vec<Entry>| -> Result<(), EncErr> {
            for e in entries.iter_mut() {
                if let Entry::NamePending(name) = e {
                    let saved = std::mem::take(&mut this.out);
                    let r = this.dedup_string(name);
                    let bytes = std::mem::replace(&mut this.out, saved);
                    r?;
                    *e = Entry::Name(bytes);
                }
            }
            Ok(())
        };

        if !self.quirks.dedup_header_last {
            encode_names(self, &mut entries)?;
        }

        // fields into their chunks
        let mut chunks: Vec<Vec<u8>> = vec![Vec::new(); version + 1];
        for (f, x) in schema.fields.iter().zip(fields) {
            if f.transient {
                continue;
            }
            let gen = schema.generation(&f.name);
            let saved = std::mem::replace(&mut self.out, std::mem::take(&mut chunks[gen]));
            let r = self.encode(&f.ty, x);
            chunks[gen] = std::mem::replace(&mut self.out, saved);
            r?;
        }

        if self.quirks.dedup_header_last {
            encode_names(self, &mut entries)?;
        }

        for e in &entries {
            match e {
                Entry::Size(k) => {
                    let n = Self::len_i32(chunks[*k].len())?;
                    self.vi(n);
                }
                Entry::MadeOptional(b) => {
                    self.vi(-1);
                    self.out.push(*b);
                }
                Entry::Name(bytes) => {
                    self.vi(-2);
                    self.out.extend_from_slice(bytes);
                }
                Entry::NamePending(_) => unreachable!(),
            }
        }
        for c in &chunks {
            self.out.extend_from_slice(c);
        }
        Ok(())
    }
}

pub fn ref_encode(ty: &Ty, v: &Val) -> Result<Vec<u8>, EncErr> {
    let mut e = Enc::new();
    e.encode(ty, v)?;
    Ok(e.out)
}

/// sequence positions draw their form from `choose`, tuple positions their writer's version from `newer`, and a
/// deduplicated string that is already known is written in full again when `full` says so (it keeps its id)
pub fn ref_encode_newer_tuples(
    ty: &Ty,
    v: &Val,
    choose: &mut dyn FnMut() -> bool,
    newer: &mut dyn FnMut() -> u32,
    full: &mut dyn FnMut() -> bool,
) -> Result<Vec<u8>, EncErr> {
    let mut e = Enc::new();
    e.unknown_form = Some(choose);
    e.tuple_newer = Some(newer);
    e.dedup_full = Some(full);
    e.encode(ty, v)?;
    Ok(e.out)
}

pub fn ref_encode_quirks(ty: &Ty, v: &Val, quirks: Quirks) -> Result<Vec<u8>, EncErr> {
    let mut e = Enc::new();
    e.quirks = quirks;
    e.encode(ty, v)?;
    Ok(e.out)
}

/// every sequence position draws its form from `choose` (true = unknown-length form)
pub fn ref_encode_forms(
    ty: &Ty,
    v: &Val,
    choose: &mut dyn FnMut() -> bool,
) -> Result<Vec<u8>, EncErr> {
    let mut e = Enc::new();
    e.unknown_form = Some(choose);
    e.encode(ty, v)?;
    Ok(e.out)
}
