//! Independent reference model of the desert binary format and of its schema-evolution semantics.
//! No dependency on desert: this crate is the oracle (DESIGN §4).

pub mod canon;
pub mod dec;
pub mod enc;
pub mod evo;
pub mod genval;
pub mod rng;
pub mod tamper;
pub mod ty;

pub use canon::{canon, canon_strict, has_transient_field, scramble_transients, with_transient_defaults};
pub use dec::{ref_annotate, ref_decode, ref_decode_forms, ref_zero_width_demand, ref_backref_cost, Annot, AnnotKind, DecErr, ErrKind};
pub use enc::{ref_encode, ref_encode_forms, ref_encode_newer_tuples, ref_encode_quirks, EncErr, Quirks};
pub use genval::{gen_raw, gen_val, GenCtx};
pub use rng::Rng;
pub use ty::*;

pub fn hex(b: &[u8]) -> String {
    let mut s = String::with_capacity(b.len() * 2);
    for x in b {
        s.push_str(&format!("{x:02x}"));
    }
    s
}

pub fn unhex(s: &str) -> Vec<u8> {
    let s: Vec<u8> = s.bytes().filter(|c| c.is_ascii_hexdigit()).collect();
    s.chunks(2)
        .map(|p| u8::from_str_radix(std::str::from_utf8(p).unwrap(), 16).unwrap())
        .collect()
}
