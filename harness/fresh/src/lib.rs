//! Fresh declarations / type expressions of the thorough tier (see build.rs).
#![allow(warnings)]

pub mod corpus {
    use desert::BinaryCodec;
    use refmodel::evo::{HStep, History};
    use refmodel::{EnumSchema, RecordSchema, Step, Ty, Val, VariantKind, VariantSchema};
    use sbase::t::*;
    use sbase::{FamilyEntry, HistoryEntry, Model, Registry};
    pub type MyOpt<T> = Option<T>;
    include!(concat!(env!("OUT_DIR"), "/corpus.rs"));
}

pub mod catalogue {
    use sbase::t::*;
    include!(concat!(env!("OUT_DIR"), "/catalogue.rs"));
}

pub fn register(reg: &mut sbase::Registry) {
    catalogue::register(reg);
    corpus::register(reg);
}
