// The thorough tier generates fresh declarations and type expressions from VERIF_SEED; their sources are handed to
// this crate through VERIF_FRESH_DIR (corpus.rs, catalogue.rs).  Without it the crate is empty.
use std::path::PathBuf;

fn main() {
    println!("cargo:rerun-if-env-changed=VERIF_FRESH_DIR");
    let out = PathBuf::from(std::env::var("OUT_DIR").unwrap());
    let empty = "pub fn register(_reg: &mut sbase::Registry) {}\n";
    match std::env::var("VERIF_FRESH_DIR") {
        Ok(dir) if !dir.is_empty() => {
            for f in ["corpus.rs", "catalogue.rs"] {
                let p = PathBuf::from(&dir).join(f);
                println!("cargo:rerun-if-changed={}", p.display());
                let src = std::fs::read_to_string(&p).unwrap_or_else(|_| empty.to_string());
                std::fs::write(out.join(f), src).unwrap();
            }
        }
        _ => {
            for f in ["corpus.rs", "catalogue.rs"] {
                std::fs::write(out.join(f), empty).unwrap();
            }
        }
    }
}
