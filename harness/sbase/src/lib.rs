//! Subject base: `Model` for every built-in codec, the type-erased `Subject` interface and the monitored calls.

pub mod model;
pub mod subject;

pub use model::Model;
pub use subject::*;

use refmodel::{gen_val, GenCtx, Rng, Val};

/// deterministic default value of type `T` from a seed — used by generated declarations for
/// `#[transient(..)]` and `FieldAdded(.., ..)` defaults, and by their schemas
pub fn dflt<T: Model>(seed: u64) -> T {
    T::from_val(&dflt_val::<T>(seed))
}

pub fn dflt_val<T: Model>(seed: u64) -> Val {
    // cheap on purpose: default expressions run inside the library's decode call and are charged to its allocation budget
    let ctx = GenCtx { max_len: 3, allow_large: false, max_depth: 2, tz_names: tz_names(), encodable: true, transient_ctors: false, out_of_domain: false, dst_edges: false };
    gen_val(&T::ty(), &mut Rng::new(seed ^ 0x5eed_d0d0), &ctx)
}

/// `n` zero bytes that cost address space only (zero pages, never written), or None when the system will not hand
/// out that much right now: a failed `vec![0; n]` would abort the worker, and lack of memory on the test machine is
/// no verdict about the library
pub fn zeroed(n: usize) -> Option<Vec<u8>> {
    if n == 0 {
        return Some(Vec::new());
    }
    let layout = std::alloc::Layout::array::<u8>(n).ok()?;
    // SAFETY: the layout has a non-zero size; a non-null result is n zero-initialised bytes owned by nobody else
    unsafe {
        let p = std::alloc::alloc_zeroed(layout);
        if p.is_null() {
            None
        } else {
            Some(Vec::from_raw_parts(p, n, n))
        }
    }
}

/// every time-zone name chrono-tz knows (built once)
pub fn tz_names() -> std::sync::Arc<Vec<String>> {
    static NAMES: std::sync::OnceLock<std::sync::Arc<Vec<String>>> = std::sync::OnceLock::new();
    NAMES
        .get_or_init(|| std::sync::Arc::new(chrono_tz::TZ_VARIANTS.iter().map(|t| t.name().to_string()).collect()))
        .clone()
}

pub struct Registry {
    pub subjects: Vec<Box<dyn Subject>>,
    pub histories: Vec<HistoryEntry>,
    pub families: Vec<FamilyEntry>,
    /// free-form tags per subject id (features of generated declarations, for coverage tables)
    pub tags: std::collections::HashMap<String, Vec<String>>,
    /// readers with an error-swallowing hand-written codec, each with the id of the writer whose encodings seed its
    /// hostile inputs; judged for totality and memory safety only, hence not in `subjects`
    pub tolerant: Vec<(String, Box<dyn Subject>)>,
    /// declarations outside the legal histories (a field name removed and re-added): they cannot read their own data, so
    /// they are no subjects of the round-trip checks — but what they make of hostile input is still judged (C05, C06)
    pub hostile_only: Vec<Box<dyn Subject>>,
    /// types whose hostile inputs can take the whole process down (an allocation failure is an abort, not an unwind):
    /// only ever decoded by the one-input-per-process probes of C05
    pub probe_only: Vec<Box<dyn Subject>>,
}

/// one evolution history and the subjects of its versions, in several embeddings
pub struct HistoryEntry {
    pub history: refmodel::evo::History,
    /// flavour name ("struct", "variant", "sibling", "nested") → subject ids by version
    pub flavours: Vec<(String, Vec<String>)>,
}

/// an enum and its extensions (variants appended in index order): subject ids, base first
pub struct FamilyEntry {
    pub id: String,
    pub members: Vec<String>,
}

impl Registry {
    pub fn new() -> Self {
        Registry { subjects: Vec::new(), histories: Vec::new(), families: Vec::new(), tags: Default::default(), tolerant: Vec::new(), hostile_only: Vec::new(), probe_only: Vec::new() }
    }

    pub fn add<T: Model + desert::BinarySerializer + desert::BinaryDeserializer>(&mut self, id: &str) {
        self.subjects.push(Box::new(S::<T>::new(id)));
    }

    pub fn add_tagged<T: Model + desert::BinarySerializer + desert::BinaryDeserializer>(&mut self, id: &str, tags: &[&str]) {
        self.add::<T>(id);
        self.tags.insert(id.to_string(), tags.iter().map(|s| s.to_string()).collect());
    }

    pub fn add_hostile_only<T: Model + desert::BinarySerializer + desert::BinaryDeserializer>(&mut self, id: &str) {
        self.hostile_only.push(Box::new(S::<T>::new(id)));
    }

    pub fn add_probe_only<T: Model + desert::BinarySerializer + desert::BinaryDeserializer>(&mut self, id: &str) {
        self.probe_only.push(Box::new(S::<T>::new(id)));
    }

    pub fn add_tolerant<T: Model + desert::BinarySerializer + desert::BinaryDeserializer>(&mut self, writer: &str, id: &str) {
        self.tolerant.push((writer.to_string(), Box::new(S::<T>::new(id))));
    }

    pub fn get(&self, id: &str) -> Option<&dyn Subject> {
        self.subjects
            .iter()
            .find(|s| s.id() == id)
            .or_else(|| self.hostile_only.iter().find(|s| s.id() == id))
            .or_else(|| self.probe_only.iter().find(|s| s.id() == id))
            .or_else(|| self.tolerant.iter().map(|(_, s)| s).find(|s| s.id() == id))
            .map(|b| b.as_ref())
    }
}

impl Default for Registry {
    fn default() -> Self {
        Self::new()
    }
}

/// type names for generated code (so that corpus crates only depend on desert, lazy_static, sbase, refmodel)
pub mod t {
    pub use bigdecimal::num_bigint::BigInt;
    pub use bigdecimal::BigDecimal;
    pub use bytes::Bytes;
    pub use chrono::{DateTime, FixedOffset, Local, Month, NaiveDate, NaiveDateTime, NaiveTime, Utc, Weekday};
    pub use chrono_tz::Tz;
    pub use desert::DeduplicatedString;
    pub use std::collections::{BTreeMap, BTreeSet, HashMap, HashSet, LinkedList};
    pub use std::marker::PhantomData;
    pub use std::rc::Rc;
    pub use std::sync::Arc;
    pub use std::time::Duration;
    pub use uuid::Uuid;
}

/// field schema of a generated declaration: the field's `Ty` comes from the Rust type itself
pub fn fs<T: Model>(name: &str, opt_by_name: bool, transient: bool, default: Option<Val>) -> refmodel::FieldSchema {
    refmodel::FieldSchema { name: name.to_string(), ty: T::ty(), opt_by_name, transient, default }
}

/// history field of a generated history
pub fn hf<T: Model>(name: &str, optional: bool) -> refmodel::evo::HField {
    refmodel::evo::HField { name: name.to_string(), base: T::ty(), optional }
}
