//! Type-erased subject interface (DESIGN Appendix B): checks are non-generic code over bytes, `Ty` and `Val`.

use crate::model::Model;
use bytes::BytesMut;
use desert::{
    BinaryDeserializer, BinaryInput, BinaryOutput, BinarySerializer, DeserializationContext, SerializationContext,
    SizeCalculator,
};
use monitors::alloc::{self, AllocStats};
use monitors::{guarded, Outcome, PanicInfo};
use refmodel::{Ty, Val};
use std::any::Any;
use std::marker::PhantomData;

#[derive(Clone, Debug, PartialEq, Eq)]
pub struct ErrClass {
    /// name of the `desert::Error` variant
    pub variant: &'static str,
    /// the variant's fields, rendered
    pub payload: String,
}

pub fn classify(e: &desert::Error) -> ErrClass {
    use desert::Error::*;
    // a client logs the errors it gets: rendering them (Display, Debug) is part of every monitored call, so a panic in a
    // message builder is seen by the panic monitor of whichever check provoked the error
    let shown = e.to_string();
    let dbg = format!("{e:?}");
    assert!(!shown.is_empty() && !dbg.is_empty(), "an error renders to an empty message");
    let (variant, payload): (&'static str, String) = match e {
        UnsupportedCharacter(c) => ("UnsupportedCharacter", format!("{}", *c as u32)),
        FailedToDecodeCharacter(c) => ("FailedToDecodeCharacter", format!("{c}")),
        LengthTooLarge => ("LengthTooLarge", String::new()),
        InvalidTimeZone(s) => ("InvalidTimeZone", s.clone()),
        InputEndedUnexpectedly => ("InputEndedUnexpectedly", String::new()),
        CompressionFailure(s) => ("CompressionFailure", s.clone()),
        DecompressionFailure(s) => ("DecompressionFailure", s.clone()),
        FailedToDecodeString(s) => ("FailedToDecodeString", s.clone()),
        InvalidStringId(id) => ("InvalidStringId", format!("{}", id.0)),
        DeserializationFailure(s) => ("DeserializationFailure", s.clone()),
        UnknownFieldReferenceInEvolutionStep(s) => ("UnknownFieldReferenceInEvolutionStep", s.clone()),
        InvalidConstructorName { constructor_name, type_name } => {
            ("InvalidConstructorName", format!("{type_name}::{constructor_name}"))
        }
        DeserializingNonExistingChunk(c) => ("DeserializingNonExistingChunk", format!("{c}")),
        FieldRemovedInSerializedVersion(s) => ("FieldRemovedInSerializedVersion", s.clone()),
        FieldWithoutDefaultValueIsMissing(s) => ("FieldWithoutDefaultValueIsMissing", s.clone()),
        NonOptionalFieldSerializedAsNone(s) => ("NonOptionalFieldSerializedAsNone", s.clone()),
        InvalidRefId(id) => ("InvalidRefId", format!("{}", id.0)),
        InvalidConstructorId { constructor_id, type_name } => {
            ("InvalidConstructorId", format!("{type_name}::{constructor_id}"))
        }
        DeserializingTransientConstructor { constructor_name, type_name } => {
            ("DeserializingTransientConstructor", format!("{type_name}::{constructor_name}"))
        }
        SerializingTransientConstructor { constructor_name, type_name } => {
            ("SerializingTransientConstructor", format!("{type_name}::{constructor_name}"))
        }
    };
    ErrClass { variant, payload }
}

#[derive(Clone, Copy, Debug, PartialEq, Eq)]
pub enum Sink {
    /// `serialize(v, Vec::new())`
    VecU8,
    /// `serialize(v, BytesMut::new())`
    BytesMut,
    /// `serialize_to_bytes`
    ToBytes,
    /// `serialize_to_byte_vec`
    ToByteVec,
    /// a user-defined `BinaryOutput`
    Recording,
}

pub const ALL_SINKS: [Sink; 5] = [Sink::VecU8, Sink::BytesMut, Sink::ToBytes, Sink::ToByteVec, Sink::Recording];

/// A user-defined output: records the bytes and the shape of the call sequence.
#[derive(Default)]
pub struct Recording {
    pub bytes: Vec<u8>,
    pub u8_calls: usize,
    pub bytes_calls: usize,
}

impl BinaryOutput for Recording {
    fn write_u8(&mut self, value: u8) {
        self.u8_calls += 1;
        self.bytes.push(value);
    }
    fn write_bytes(&mut self, bytes: &[u8]) {
        self.bytes_calls += 1;
        self.bytes.extend_from_slice(bytes);
    }
}

pub trait Subject: Send + Sync {
    fn id(&self) -> &str;
    fn ty(&self) -> Ty;
    /// build a real value (outside any monitored region)
    fn make(&self, v: &Val) -> Box<dyn Any>;
    fn to_val(&self, x: &dyn Any) -> Val;
    fn encode(&self, x: &dyn Any, sink: Sink) -> Result<Vec<u8>, ErrClass>;
    fn size(&self, x: &dyn Any) -> Result<usize, ErrClass>;
    /// `desert::deserialize::<T>`
    fn decode(&self, bytes: &[u8]) -> Result<Box<dyn Any>, ErrClass>;
    /// decode through an explicit context and drain it: returns the number of bytes left unread
    fn decode_rest(&self, bytes: &[u8]) -> (Result<Box<dyn Any>, ErrClass>, usize);
    /// write one more value into an existing stream (shared string / reference numbering)
    fn encode_into(&self, x: &dyn Any, ctx: &mut SerializationContext<Vec<u8>>) -> Result<(), ErrClass>;
    /// read the next value from an existing stream
    fn decode_from(&self, ctx: &mut DeserializationContext<'_>) -> Result<Box<dyn Any>, ErrClass>;
}

pub struct S<T> {
    id: String,
    _t: PhantomData<fn() -> T>,
}

impl<T> S<T> {
    pub fn new(id: &str) -> Self {
        S { id: id.to_string(), _t: PhantomData }
    }
}

fn cast<T: 'static>(x: &dyn Any) -> &T {
    x.downcast_ref::<T>().expect("harness: subject handed a value of another type")
}

impl<T: Model + BinarySerializer + BinaryDeserializer> Subject for S<T> {
    fn id(&self) -> &str {
        &self.id
    }

    fn ty(&self) -> Ty {
        T::ty()
    }

    fn make(&self, v: &Val) -> Box<dyn Any> {
        Box::new(T::from_val(v))
    }

    fn to_val(&self, x: &dyn Any) -> Val {
        cast::<T>(x).to_val()
    }

    fn encode(&self, x: &dyn Any, sink: Sink) -> Result<Vec<u8>, ErrClass> {
        let value = cast::<T>(x);
        let r = match sink {
            Sink::VecU8 => desert::serialize(value, Vec::new()),
            Sink::BytesMut => desert::serialize(value, BytesMut::new()).map(|b| b.to_vec()),
            Sink::ToBytes => desert::serialize_to_bytes(value).map(|b| b.to_vec()),
            Sink::ToByteVec => desert::serialize_to_byte_vec(value),
            Sink::Recording => desert::serialize(value, Recording::default()).map(|r| r.bytes),
        };
        r.map_err(|e| classify(&e))
    }

    fn size(&self, x: &dyn Any) -> Result<usize, ErrClass> {
        let value = cast::<T>(x);
        let mut ctx = SerializationContext::new(SizeCalculator::new());
        value.serialize(&mut ctx).map_err(|e| classify(&e))?;
        Ok(ctx.into_output().size())
    }

    fn decode(&self, bytes: &[u8]) -> Result<Box<dyn Any>, ErrClass> {
        match desert::deserialize::<T>(bytes) {
            Ok(v) => Ok(Box::new(v)),
            Err(e) => Err(classify(&e)),
        }
    }

    fn encode_into(&self, x: &dyn Any, ctx: &mut SerializationContext<Vec<u8>>) -> Result<(), ErrClass> {
        cast::<T>(x).serialize(ctx).map_err(|e| classify(&e))
    }

    fn decode_from(&self, ctx: &mut DeserializationContext<'_>) -> Result<Box<dyn Any>, ErrClass> {
        match T::deserialize(ctx) {
            Ok(v) => Ok(Box::new(v)),
            Err(e) => Err(classify(&e)),
        }
    }

    fn decode_rest(&self, bytes: &[u8]) -> (Result<Box<dyn Any>, ErrClass>, usize) {
        let mut ctx = DeserializationContext::new(bytes);
        let r = T::deserialize(&mut ctx);
        let mut rest = 0usize;
        while ctx.read_u8().is_ok() {
            rest += 1;
            if rest > bytes.len() {
                break; // cannot happen with a sane input implementation; keeps the monitor itself total
            }
        }
        match r {
            Ok(v) => (Ok(Box::new(v)), rest),
            Err(e) => (Err(classify(&e)), rest),
        }
    }
}

// -------------------------------------------------------------------------------------------------
// monitored calls

#[derive(Clone, Debug, PartialEq, Eq)]
pub enum Call<T> {
    Ok(T),
    Err(ErrClass),
    Panic(PanicInfo),
    StepBudget(u64),
}

impl<T> Call<T> {
    pub fn class(&self) -> String {
        match self {
            Call::Ok(_) => "Ok".to_string(),
            Call::Err(e) => format!("Err({})", e.variant),
            Call::Panic(p) => format!("Panic({})", monitors::normalise_site(&p.site)),
            Call::StepBudget(_) => "StepBudget".to_string(),
        }
    }

    pub fn is_ok(&self) -> bool {
        matches!(self, Call::Ok(_))
    }

    pub fn is_err(&self) -> bool {
        matches!(self, Call::Err(_))
    }

    pub fn ok(self) -> Option<T> {
        match self {
            Call::Ok(t) => Some(t),
            _ => None,
        }
    }
}

fn budget_marker(p: &(dyn Any + Send)) -> Option<u64> {
    p.downcast_ref::<desert::verif::StepBudgetExceeded>().map(|b| b.steps)
}

#[derive(Clone, Copy, Debug, Default)]
pub struct CallStats {
    pub alloc: AllocStats,
    pub steps: u64,
}

/// run a library call under the panic, allocation and step monitors
pub fn monitored<T>(step_budget: Option<u64>, f: impl FnOnce() -> Result<T, ErrClass>) -> (Call<T>, CallStats) {
    desert::verif::arm_seq_budget(step_budget.unwrap_or(u64::MAX));
    alloc::begin();
    let out = guarded(f, budget_marker);
    let a = alloc::end();
    let steps = desert::verif::seq_items();
    desert::verif::arm_seq_budget(u64::MAX);
    let call = match out {
        Outcome::Done(Ok(v)) => Call::Ok(v),
        Outcome::Done(Err(e)) => Call::Err(e),
        Outcome::Panicked(p) => Call::Panic(p),
        Outcome::StepBudget(n) => Call::StepBudget(n),
    };
    (call, CallStats { alloc: a, steps })
}

pub fn enc(s: &dyn Subject, x: &dyn Any, sink: Sink) -> Call<Vec<u8>> {
    monitored(None, || s.encode(x, sink)).0
}

pub fn dec(s: &dyn Subject, bytes: &[u8]) -> Call<Box<dyn Any>> {
    monitored(None, || s.decode(bytes)).0
}

/// decode and render: Ok(Val) — the rendering itself (a full traversal of the decoded value) is monitored too
pub fn dec_val(s: &dyn Subject, bytes: &[u8]) -> Call<Val> {
    monitored(None, || s.decode(bytes).map(|x| s.to_val(x.as_ref()))).0
}

pub fn dec_val_rest(s: &dyn Subject, bytes: &[u8]) -> (Call<Val>, usize) {
    let mut rest = 0;
    let (c, _) = monitored(None, || {
        let (r, n) = s.decode_rest(bytes);
        rest = n;
        r.map(|x| s.to_val(x.as_ref()))
    });
    (c, rest)
}

/// hostile decode: step budget armed, allocation statistics returned
pub fn dec_hostile(s: &dyn Subject, bytes: &[u8]) -> (Call<Val>, CallStats) {
    let budget = bytes.len() as u64 + 65_536;
    let mut decode_only: Option<(AllocStats, u64)> = None;
    let (c, mut stats) = monitored(Some(budget), || {
        let r = s.decode(bytes);
        // the statistics are those of the library call alone, not of rendering the result
        decode_only = Some((alloc::end(), desert::verif::seq_items()));
        r.map(|x| s.to_val(x.as_ref()))
    });
    if let Some((a, steps)) = decode_only {
        stats.alloc = a;
        stats.steps = steps;
    }
    (c, stats)
}
