//! `Model`: the bridge between real Rust values of the library's supported types and the reference model's `Val`.

use bigdecimal::num_bigint::BigInt;
use bigdecimal::BigDecimal;
use bytes::Bytes;
use chrono::{DateTime, Datelike, FixedOffset, Local, Month, NaiveDate, NaiveDateTime, NaiveTime, TimeZone, Timelike, Utc, Weekday};
use chrono_tz::Tz;
use desert::DeduplicatedString;
use refmodel::{Ty, Val};
use std::collections::{BTreeMap, BTreeSet, HashMap, HashSet, LinkedList};
use std::hash::Hash;
use std::marker::PhantomData;
use std::rc::Rc;
use std::str::FromStr;
use std::sync::Arc;
use std::time::Duration;
use uuid::Uuid;

pub trait Model: Sized + 'static {
    fn ty() -> Ty;
    /// panics when the value does not have the shape of the type (a harness bug)
    fn from_val(v: &Val) -> Self;
    fn to_val(&self) -> Val;
}

fn bad<T>(what: &str, v: &Val) -> T {
    panic!("harness: from_val::<{what}> got {}", v.render(120))
}

macro_rules! uint_model {
    ($t:ty, $ty:expr) => {
        impl Model for $t {
            fn ty() -> Ty {
                $ty
            }
            fn from_val(v: &Val) -> Self {
                match v {
                    Val::U(x) => *x as $t,
                    _ => bad(stringify!($t), v),
                }
            }
            fn to_val(&self) -> Val {
                Val::U(*self as u128)
            }
        }
    };
}
macro_rules! sint_model {
    ($t:ty, $ty:expr) => {
        impl Model for $t {
            fn ty() -> Ty {
                $ty
            }
            fn from_val(v: &Val) -> Self {
                match v {
                    Val::I(x) => *x as $t,
                    _ => bad(stringify!($t), v),
                }
            }
            fn to_val(&self) -> Val {
                Val::I(*self as i128)
            }
        }
    };
}
uint_model!(u8, Ty::U8);
uint_model!(u16, Ty::U16);
uint_model!(u32, Ty::U32);
uint_model!(u64, Ty::U64);
uint_model!(u128, Ty::U128);
sint_model!(i8, Ty::I8);
sint_model!(i16, Ty::I16);
sint_model!(i32, Ty::I32);
sint_model!(i64, Ty::I64);
sint_model!(i128, Ty::I128);

impl Model for f32 {
    fn ty() -> Ty {
        Ty::F32
    }
    fn from_val(v: &Val) -> Self {
        match v {
            Val::F32(b) => f32::from_bits(*b),
            _ => bad("f32", v),
        }
    }
    fn to_val(&self) -> Val {
        Val::F32(self.to_bits())
    }
}

impl Model for f64 {
    fn ty() -> Ty {
        Ty::F64
    }
    fn from_val(v: &Val) -> Self {
        match v {
            Val::F64(b) => f64::from_bits(*b),
            _ => bad("f64", v),
        }
    }
    fn to_val(&self) -> Val {
        Val::F64(self.to_bits())
    }
}

impl Model for bool {
    fn ty() -> Ty {
        Ty::Bool
    }
    fn from_val(v: &Val) -> Self {
        match v {
            Val::Bool(b) => *b,
            _ => bad("bool", v),
        }
    }
    fn to_val(&self) -> Val {
        Val::Bool(*self)
    }
}

impl Model for () {
    fn ty() -> Ty {
        Ty::Unit
    }
    fn from_val(v: &Val) -> Self {
        match v {
            Val::Unit => (),
            _ => bad("()", v),
        }
    }
    fn to_val(&self) -> Val {
        Val::Unit
    }
}

impl<T: 'static> Model for PhantomData<T> {
    fn ty() -> Ty {
        Ty::Unit
    }
    fn from_val(v: &Val) -> Self {
        match v {
            Val::Unit => PhantomData,
            _ => bad("PhantomData", v),
        }
    }
    fn to_val(&self) -> Val {
        Val::Unit
    }
}

impl Model for char {
    fn ty() -> Ty {
        Ty::Char
    }
    fn from_val(v: &Val) -> Self {
        match v {
            Val::Char(c) => char::from_u32(*c).unwrap_or_else(|| bad("char", v)),
            _ => bad("char", v),
        }
    }
    fn to_val(&self) -> Val {
        Val::Char(*self as u32)
    }
}

impl Model for String {
    fn ty() -> Ty {
        Ty::Str
    }
    fn from_val(v: &Val) -> Self {
        match v {
            Val::Str(s) => s.clone(),
            _ => bad("String", v),
        }
    }
    fn to_val(&self) -> Val {
        Val::Str(self.clone())
    }
}

impl Model for DeduplicatedString {
    fn ty() -> Ty {
        Ty::DedupStr
    }
    fn from_val(v: &Val) -> Self {
        match v {
            Val::Str(s) => DeduplicatedString(s.clone()),
            _ => bad("DeduplicatedString", v),
        }
    }
    fn to_val(&self) -> Val {
        Val::Str(self.0.clone())
    }
}

impl Model for Duration {
    fn ty() -> Ty {
        Ty::Duration
    }
    fn from_val(v: &Val) -> Self {
        match v {
            Val::Tuple(xs) if xs.len() == 2 => match (&xs[0], &xs[1]) {
                (Val::U(s), Val::U(n)) => Duration::new(*s as u64, *n as u32),
                _ => bad("Duration", v),
            },
            _ => bad("Duration", v),
        }
    }
    fn to_val(&self) -> Val {
        Val::Tuple(vec![Val::U(self.as_secs() as u128), Val::U(self.subsec_nanos() as u128)])
    }
}

impl<T: Model> Model for Option<T> {
    fn ty() -> Ty {
        Ty::Opt(T::ty().boxed())
    }
    fn from_val(v: &Val) -> Self {
        match v {
            Val::None => None,
            Val::Some(x) => Some(T::from_val(x)),
            _ => bad("Option", v),
        }
    }
    fn to_val(&self) -> Val {
        match self {
            None => Val::None,
            Some(x) => Val::some(x.to_val()),
        }
    }
}

impl<R: Model, E: Model> Model for Result<R, E> {
    fn ty() -> Ty {
        Ty::Res(R::ty().boxed(), E::ty().boxed())
    }
    fn from_val(v: &Val) -> Self {
        match v {
            Val::Ok(x) => Ok(R::from_val(x)),
            Val::Err(x) => Err(E::from_val(x)),
            _ => bad("Result", v),
        }
    }
    fn to_val(&self) -> Val {
        match self {
            Ok(x) => Val::Ok(Box::new(x.to_val())),
            Err(x) => Val::Err(Box::new(x.to_val())),
        }
    }
}

macro_rules! tuple_model {
    ($($t:ident $i:tt),+) => {
        impl<$($t: Model),+> Model for ($($t,)+) {
            fn ty() -> Ty {
                Ty::Tuple(vec![$($t::ty()),+])
            }
            fn from_val(v: &Val) -> Self {
                match v {
                    Val::Tuple(xs) => ($($t::from_val(&xs[$i]),)+),
                    _ => bad("tuple", v),
                }
            }
            fn to_val(&self) -> Val {
                Val::Tuple(vec![$(self.$i.to_val()),+])
            }
        }
    };
}
tuple_model!(A 0);
tuple_model!(A 0, B 1);
tuple_model!(A 0, B 1, C 2);
tuple_model!(A 0, B 1, C 2, D 3);
tuple_model!(A 0, B 1, C 2, D 3, E 4);
tuple_model!(A 0, B 1, C 2, D 3, E 4, F 5);
tuple_model!(A 0, B 1, C 2, D 3, E 4, F 5, G 6);
tuple_model!(A 0, B 1, C 2, D 3, E 4, F 5, G 6, H 7);

fn items_from<T: Model>(v: &Val, what: &str) -> Vec<T> {
    match v {
        Val::Seq(xs) => xs.iter().map(T::from_val).collect(),
        Val::Bytes(b) => b.iter().map(|x| T::from_val(&Val::U(*x as u128))).collect(),
        _ => bad(what, v),
    }
}

fn bytes_val<'a, T: Model + 'a>(items: impl Iterator<Item = &'a T>) -> Val {
    Val::Bytes(
        items
            .map(|x| match x.to_val() {
                Val::U(b) => b as u8,
                other => panic!("harness: byte element renders as {other:?}"),
            })
            .collect(),
    )
}

impl<T: Model> Model for Vec<T> {
    fn ty() -> Ty {
        if T::ty() == Ty::U8 {
            Ty::Bytes
        } else {
            Ty::Seq(T::ty().boxed())
        }
    }
    fn from_val(v: &Val) -> Self {
        items_from(v, "Vec")
    }
    fn to_val(&self) -> Val {
        if T::ty() == Ty::U8 {
            bytes_val(self.iter())
        } else {
            Val::Seq(self.iter().map(|x| x.to_val()).collect())
        }
    }
}

impl<T: Model, const N: usize> Model for [T; N] {
    fn ty() -> Ty {
        if T::ty() == Ty::U8 {
            Ty::ByteArray(N)
        } else {
            Ty::Array(T::ty().boxed(), N)
        }
    }
    fn from_val(v: &Val) -> Self {
        let items: Vec<T> = items_from(v, "array");
        match items.try_into() {
            Ok(a) => a,
            Err(_) => bad("array (length)", v),
        }
    }
    fn to_val(&self) -> Val {
        if T::ty() == Ty::U8 {
            bytes_val(self.iter())
        } else {
            Val::Seq(self.iter().map(|x| x.to_val()).collect())
        }
    }
}

impl Model for Bytes {
    fn ty() -> Ty {
        Ty::Bytes
    }
    fn from_val(v: &Val) -> Self {
        match v {
            Val::Bytes(b) => Bytes::from(b.clone()),
            _ => bad("Bytes", v),
        }
    }
    fn to_val(&self) -> Val {
        Val::Bytes(self.to_vec())
    }
}

impl<T: Model> Model for LinkedList<T> {
    fn ty() -> Ty {
        Ty::Seq(T::ty().boxed())
    }
    fn from_val(v: &Val) -> Self {
        items_from::<T>(v, "LinkedList").into_iter().collect()
    }
    fn to_val(&self) -> Val {
        Val::Seq(self.iter().map(|x| x.to_val()).collect())
    }
}

impl<T: Model + Eq + Hash> Model for HashSet<T> {
    fn ty() -> Ty {
        Ty::Set(T::ty().boxed())
    }
    fn from_val(v: &Val) -> Self {
        items_from::<T>(v, "HashSet").into_iter().collect()
    }
    fn to_val(&self) -> Val {
        Val::Seq(self.iter().map(|x| x.to_val()).collect())
    }
}

impl<T: Model + Ord> Model for BTreeSet<T> {
    fn ty() -> Ty {
        Ty::Set(T::ty().boxed())
    }
    fn from_val(v: &Val) -> Self {
        items_from::<T>(v, "BTreeSet").into_iter().collect()
    }
    fn to_val(&self) -> Val {
        Val::Seq(self.iter().map(|x| x.to_val()).collect())
    }
}

fn pairs_from<K: Model, V: Model>(v: &Val, what: &str) -> Vec<(K, V)> {
    match v {
        Val::Seq(xs) => xs
            .iter()
            .map(|x| match x {
                Val::Tuple(kv) if kv.len() == 2 => (K::from_val(&kv[0]), V::from_val(&kv[1])),
                _ => bad(what, x),
            })
            .collect(),
        _ => bad(what, v),
    }
}

impl<K: Model + Eq + Hash, V: Model> Model for HashMap<K, V> {
    fn ty() -> Ty {
        Ty::Map(K::ty().boxed(), V::ty().boxed())
    }
    fn from_val(v: &Val) -> Self {
        pairs_from::<K, V>(v, "HashMap").into_iter().collect()
    }
    fn to_val(&self) -> Val {
        Val::Seq(self.iter().map(|(k, v)| Val::Tuple(vec![k.to_val(), v.to_val()])).collect())
    }
}

impl<K: Model + Ord, V: Model> Model for BTreeMap<K, V> {
    fn ty() -> Ty {
        Ty::Map(K::ty().boxed(), V::ty().boxed())
    }
    fn from_val(v: &Val) -> Self {
        pairs_from::<K, V>(v, "BTreeMap").into_iter().collect()
    }
    fn to_val(&self) -> Val {
        Val::Seq(self.iter().map(|(k, v)| Val::Tuple(vec![k.to_val(), v.to_val()])).collect())
    }
}

macro_rules! wrap_model {
    ($w:ident) => {
        impl<T: Model> Model for $w<T> {
            fn ty() -> Ty {
                Ty::Wrap(T::ty().boxed())
            }
            fn from_val(v: &Val) -> Self {
                $w::new(T::from_val(v))
            }
            fn to_val(&self) -> Val {
                (**self).to_val()
            }
        }
    };
}
wrap_model!(Box);
wrap_model!(Rc);
wrap_model!(Arc);

impl Model for Uuid {
    fn ty() -> Ty {
        Ty::Uuid
    }
    fn from_val(v: &Val) -> Self {
        match v {
            Val::Bytes(b) if b.len() == 16 => Uuid::from_bytes(b.as_slice().try_into().unwrap()),
            _ => bad("Uuid", v),
        }
    }
    fn to_val(&self) -> Val {
        Val::Bytes(self.as_bytes().to_vec())
    }
}

impl Model for BigInt {
    fn ty() -> Ty {
        Ty::BigInt
    }
    fn from_val(v: &Val) -> Self {
        match v {
            Val::Bytes(b) => BigInt::from_signed_bytes_be(b),
            _ => bad("BigInt", v),
        }
    }
    fn to_val(&self) -> Val {
        Val::Bytes(self.to_signed_bytes_be())
    }
}

impl Model for BigDecimal {
    fn ty() -> Ty {
        Ty::BigDecimal
    }
    fn from_val(v: &Val) -> Self {
        match v {
            Val::Str(s) => {
                let (digits, exp) = s.split_once('e').unwrap_or((s.as_str(), "0"));
                let digits = BigInt::from_str(digits).unwrap_or_else(|_| bad("BigDecimal digits", v));
                let exp: i64 = exp.parse().unwrap_or_else(|_| bad("BigDecimal exponent", v));
                BigDecimal::new(digits, -exp)
            }
            _ => bad("BigDecimal", v),
        }
    }
    fn to_val(&self) -> Val {
        let (digits, scale) = self.normalized().into_bigint_and_exponent();
        Val::Str(format!("{}e{}", digits, -(scale as i128)))
    }
}

impl Model for Weekday {
    fn ty() -> Ty {
        Ty::Weekday
    }
    fn from_val(v: &Val) -> Self {
        match v {
            Val::U(n) if (1..=7).contains(n) => {
                [Weekday::Mon, Weekday::Tue, Weekday::Wed, Weekday::Thu, Weekday::Fri, Weekday::Sat, Weekday::Sun][*n as usize - 1]
            }
            _ => bad("Weekday", v),
        }
    }
    fn to_val(&self) -> Val {
        Val::U(self.number_from_monday() as u128)
    }
}

impl Model for Month {
    fn ty() -> Ty {
        Ty::Month
    }
    fn from_val(v: &Val) -> Self {
        match v {
            Val::U(n) if (1..=12).contains(n) => Month::try_from(*n as u8).unwrap(),
            _ => bad("Month", v),
        }
    }
    fn to_val(&self) -> Val {
        Val::U(self.number_from_month() as u128)
    }
}

impl Model for FixedOffset {
    fn ty() -> Ty {
        Ty::FixedOffset
    }
    fn from_val(v: &Val) -> Self {
        match v {
            Val::I(s) => FixedOffset::east_opt(*s as i32).unwrap_or_else(|| bad("FixedOffset", v)),
            _ => bad("FixedOffset", v),
        }
    }
    fn to_val(&self) -> Val {
        Val::I(self.local_minus_utc() as i128)
    }
}

impl Model for Tz {
    fn ty() -> Ty {
        Ty::Tz
    }
    fn from_val(v: &Val) -> Self {
        match v {
            Val::Str(s) => Tz::from_str(s).unwrap_or_else(|_| bad("Tz", v)),
            _ => bad("Tz", v),
        }
    }
    fn to_val(&self) -> Val {
        Val::Str(self.name().to_string())
    }
}

impl Model for DateTime<Utc> {
    fn ty() -> Ty {
        Ty::DateTimeUtc
    }
    fn from_val(v: &Val) -> Self {
        match v {
            Val::Tuple(xs) if xs.len() == 2 => match (&xs[0], &xs[1]) {
                (Val::I(s), Val::U(n)) => {
                    DateTime::<Utc>::from_timestamp(*s as i64, *n as u32).unwrap_or_else(|| bad("DateTime<Utc>", v))
                }
                _ => bad("DateTime<Utc>", v),
            },
            _ => bad("DateTime<Utc>", v),
        }
    }
    fn to_val(&self) -> Val {
        Val::Tuple(vec![Val::I(self.timestamp() as i128), Val::U(self.timestamp_subsec_nanos() as u128)])
    }
}

pub fn date_val(d: &NaiveDate) -> Val {
    Val::Tuple(vec![Val::I(d.year() as i128), Val::U(d.month() as u128), Val::U(d.day() as u128)])
}

pub fn time_val(t: &NaiveTime) -> Val {
    Val::Tuple(vec![
        Val::U(t.hour() as u128),
        Val::U(t.minute() as u128),
        Val::U(t.second() as u128),
        Val::U(t.nanosecond() as u128),
    ])
}

pub fn ndt_val(dt: &NaiveDateTime) -> Val {
    Val::Tuple(vec![date_val(&dt.date()), time_val(&dt.time())])
}

impl Model for NaiveDate {
    fn ty() -> Ty {
        Ty::NaiveDate
    }
    fn from_val(v: &Val) -> Self {
        match v {
            Val::Tuple(xs) if xs.len() == 3 => match (&xs[0], &xs[1], &xs[2]) {
                (Val::I(y), Val::U(m), Val::U(d)) => {
                    NaiveDate::from_ymd_opt(*y as i32, *m as u32, *d as u32).unwrap_or_else(|| bad("NaiveDate", v))
                }
                _ => bad("NaiveDate", v),
            },
            _ => bad("NaiveDate", v),
        }
    }
    fn to_val(&self) -> Val {
        date_val(self)
    }
}

impl Model for NaiveTime {
    fn ty() -> Ty {
        Ty::NaiveTime
    }
    fn from_val(v: &Val) -> Self {
        match v {
            Val::Tuple(xs) if xs.len() == 4 => match (&xs[0], &xs[1], &xs[2], &xs[3]) {
                (Val::U(h), Val::U(m), Val::U(s), Val::U(n)) => {
                    NaiveTime::from_hms_nano_opt(*h as u32, *m as u32, *s as u32, *n as u32)
                        .unwrap_or_else(|| bad("NaiveTime", v))
                }
                _ => bad("NaiveTime", v),
            },
            _ => bad("NaiveTime", v),
        }
    }
    fn to_val(&self) -> Val {
        time_val(self)
    }
}

impl Model for NaiveDateTime {
    fn ty() -> Ty {
        Ty::NaiveDateTime
    }
    fn from_val(v: &Val) -> Self {
        match v {
            Val::Tuple(xs) if xs.len() == 2 => NaiveDateTime::new(NaiveDate::from_val(&xs[0]), NaiveTime::from_val(&xs[1])),
            _ => bad("NaiveDateTime", v),
        }
    }
    fn to_val(&self) -> Val {
        ndt_val(self)
    }
}

/// local wall clock = UTC + offset, computed without the chrono accessors that may panic near the range limits
fn local_wall_clock(utc: NaiveDateTime, offset_secs: i32) -> NaiveDateTime {
    // checked_add_offset keeps a leap-second representation (nanosecond >= 10^9) intact, which is what the wire carries
    utc.checked_add_offset(FixedOffset::east_opt(offset_secs).expect("harness: offset"))
        .expect("harness: local wall clock not representable")
}

impl Model for DateTime<Local> {
    fn ty() -> Ty {
        Ty::DateTimeLocal
    }
    fn from_val(v: &Val) -> Self {
        let naive = NaiveDateTime::from_val(v);
        Local.from_local_datetime(&naive).single().unwrap_or_else(|| bad("DateTime<Local>", v))
    }
    fn to_val(&self) -> Val {
        ndt_val(&local_wall_clock(self.naive_utc(), self.offset().local_minus_utc()))
    }
}

impl Model for DateTime<FixedOffset> {
    fn ty() -> Ty {
        Ty::DateTimeFixed
    }
    fn from_val(v: &Val) -> Self {
        match v {
            Val::Tuple(xs) if xs.len() == 2 => {
                let naive = NaiveDateTime::from_val(&xs[0]);
                let off = FixedOffset::from_val(&xs[1]);
                off.from_local_datetime(&naive).single().unwrap_or_else(|| bad("DateTime<FixedOffset>", v))
            }
            _ => bad("DateTime<FixedOffset>", v),
        }
    }
    fn to_val(&self) -> Val {
        let off = self.offset().local_minus_utc();
        Val::Tuple(vec![ndt_val(&local_wall_clock(self.naive_utc(), off)), Val::I(off as i128)])
    }
}

impl Model for DateTime<Tz> {
    fn ty() -> Ty {
        Ty::DateTimeTz
    }
    fn from_val(v: &Val) -> Self {
        match v {
            Val::Tuple(xs) if xs.len() == 2 => {
                let naive = NaiveDateTime::from_val(&xs[0]);
                let tz = Tz::from_val(&xs[1]);
                tz.from_utc_datetime(&naive)
            }
            _ => bad("DateTime<Tz>", v),
        }
    }
    fn to_val(&self) -> Val {
        Val::Tuple(vec![ndt_val(&self.naive_utc()), Val::Str(self.timezone().name().to_string())])
    }
}
