//! Seeded grammar of Rust type expressions over the library's built-in codec vocabulary.

use refmodel::Rng;

#[derive(Clone, Debug)]
pub struct TE {
    /// Rust spelling (names from `sbase::t::*` in scope)
    pub src: String,
    /// usable as set element / map key / linked-list element (Eq + Hash + Ord, with Rust equality == Val equality)
    pub key: bool,
    /// has an encoding that may be empty
    pub zero: bool,
}

impl TE {
    fn new(src: &str, key: bool) -> TE {
        TE { src: src.to_string(), key, zero: false }
    }
}

pub fn leaves() -> Vec<TE> {
    let mut v = vec![
        TE::new("u8", true),
        TE::new("i8", true),
        TE::new("u16", true),
        TE::new("i16", true),
        TE::new("u32", true),
        TE::new("i32", true),
        TE::new("u64", true),
        TE::new("i64", true),
        TE::new("u128", true),
        TE::new("i128", true),
        TE::new("f32", false),
        TE::new("f64", false),
        TE::new("bool", true),
        TE { src: "()".into(), key: true, zero: true },
        TE::new("char", true),
        TE::new("String", true),
        TE::new("DeduplicatedString", false),
        TE::new("Duration", true),
        TE::new("Uuid", true),
        TE::new("BigInt", true),
        TE::new("BigDecimal", false),
        TE::new("Weekday", false),
        TE::new("Month", false),
        TE::new("FixedOffset", false),
        TE::new("Tz", false),
        TE::new("DateTime<Utc>", true),
        TE::new("NaiveDate", true),
        TE::new("NaiveTime", true),
        TE::new("NaiveDateTime", true),
        TE::new("DateTime<Local>", false),
        TE::new("DateTime<FixedOffset>", false),
        TE::new("DateTime<Tz>", false),
        TE::new("Vec<u8>", true),
        TE::new("Bytes", true),
    ];
    v.push(TE { src: "PhantomData<String>".into(), key: true, zero: true });
    v
}

pub const ARRAY_LENS: [usize; 8] = [0, 1, 2, 3, 7, 16, 17, 32];

pub fn tuple_of(items: &[TE]) -> TE {
    let src = if items.len() == 1 {
        format!("({},)", items[0].src)
    } else {
        format!("({})", items.iter().map(|t| t.src.as_str()).collect::<Vec<_>>().join(", "))
    };
    TE { src, key: items.iter().all(|t| t.key), zero: false }
}

pub fn leaf(rng: &mut Rng, need_key: bool) -> TE {
    let ls = leaves();
    loop {
        let t = rng.pick(&ls).clone();
        if !need_key || t.key {
            return t;
        }
    }
}

/// random composition; `depth` = remaining constructor levels
pub fn expr(rng: &mut Rng, depth: usize, need_key: bool) -> TE {
    if depth == 0 || rng.chance(1, 4) {
        return leaf(rng, need_key);
    }
    loop {
        let c = rng.below(19);
        let t = match c {
            0 => {
                let a = expr(rng, depth - 1, need_key);
                TE { src: format!("Option<{}>", a.src), key: a.key, zero: false }
            }
            1 => {
                let a = expr(rng, depth - 1, need_key);
                let b = expr(rng, depth - 1, need_key);
                TE { src: format!("Result<{}, {}>", a.src, b.src), key: a.key && b.key, zero: false }
            }
            2 | 3 => {
                let wide = rng.chance(1, 4);
                let n = 1 + rng.below(if wide { 8 } else { 3 }) as usize;
                let items: Vec<TE> = (0..n).map(|_| expr(rng, depth - 1, need_key)).collect();
                tuple_of(&items)
            }
            4 | 5 => {
                let a = expr(rng, depth - 1, need_key);
                if a.src == "u8" {
                    TE::new("Vec<u8>", true)
                } else {
                    TE { src: format!("Vec<{}>", a.src), key: a.key, zero: false }
                }
            }
            6 => {
                let a = expr(rng, depth - 1, need_key);
                let n = *rng.pick(&[0usize, 1, 2, 3, 7]);
                TE { src: format!("[{}; {}]", a.src, n), key: a.key, zero: false }
            }
            7 => {
                let n = *rng.pick(&ARRAY_LENS);
                TE::new(&format!("[u8; {n}]"), true)
            }
            8 => {
                let a = expr(rng, depth - 1, true);
                TE { src: format!("HashSet<{}>", a.src), key: false, zero: false }
            }
            9 => {
                let a = expr(rng, depth - 1, true);
                TE { src: format!("BTreeSet<{}>", a.src), key: true, zero: false }
            }
            10 => {
                let k = expr(rng, depth - 1, true);
                let v = expr(rng, depth - 1, false);
                TE { src: format!("HashMap<{}, {}>", k.src, v.src), key: false, zero: false }
            }
            11 => {
                let k = expr(rng, depth - 1, true);
                let v = expr(rng, depth - 1, need_key);
                TE { src: format!("BTreeMap<{}, {}>", k.src, v.src), key: v.key, zero: false }
            }
            12 => {
                let a = expr(rng, depth - 1, true);
                TE { src: format!("LinkedList<{}>", a.src), key: true, zero: false }
            }
            13 => {
                let a = expr(rng, depth - 1, need_key);
                TE { src: format!("Box<{}>", a.src), key: a.key, zero: a.zero }
            }
            14 => {
                let a = expr(rng, depth - 1, need_key);
                TE { src: format!("Rc<{}>", a.src), key: a.key, zero: a.zero }
            }
            15 => {
                let a = expr(rng, depth - 1, need_key);
                TE { src: format!("Arc<{}>", a.src), key: a.key, zero: a.zero }
            }
            16 => {
                let a = leaf(rng, false);
                TE { src: format!("PhantomData<{}>", a.src), key: true, zero: true }
            }
            _ => leaf(rng, need_key),
        };
        if !need_key || t.key {
            return t;
        }
    }
}

/// the systematic part of the catalogue: (A) leaves, (B) every constructor × arities × a rotating leaf
pub fn systematic() -> Vec<(TE, &'static str)> {
    let ls = leaves();
    let mut out: Vec<(TE, &'static str)> = ls.iter().cloned().map(|t| (t, "A")).collect();
    let keys: Vec<TE> = ls.iter().filter(|t| t.key).cloned().collect();
    let mut rot = 0usize;
    let mut next = |pool: &Vec<TE>| -> TE {
        rot += 1;
        pool[rot % pool.len()].clone()
    };
    for _ in 0..6 {
        let a = next(&ls);
        out.push((TE { src: format!("Option<{}>", a.src), key: a.key, zero: false }, "B"));
    }
    for _ in 0..6 {
        let a = next(&ls);
        let b = next(&ls);
        out.push((TE { src: format!("Result<{}, {}>", a.src, b.src), key: false, zero: false }, "B"));
    }
    for n in 1..=8 {
        for _ in 0..3 {
            let items: Vec<TE> = (0..n).map(|_| next(&ls)).collect();
            out.push((tuple_of(&items), "B"));
        }
    }
    for _ in 0..12 {
        let a = next(&ls);
        if a.src != "u8" {
            out.push((TE { src: format!("Vec<{}>", a.src), key: a.key, zero: false }, "B"));
        }
    }
    for n in ARRAY_LENS {
        for _ in 0..2 {
            let a = next(&ls);
            if a.src != "u8" {
                out.push((TE { src: format!("[{}; {}]", a.src, n), key: a.key, zero: false }, "B"));
            }
        }
        out.push((TE::new(&format!("[u8; {n}]"), true), "B"));
    }
    for _ in 0..8 {
        let a = next(&keys);
        out.push((TE { src: format!("HashSet<{}>", a.src), key: false, zero: false }, "B"));
        let a = next(&keys);
        out.push((TE { src: format!("BTreeSet<{}>", a.src), key: true, zero: false }, "B"));
        let a = next(&keys);
        out.push((TE { src: format!("LinkedList<{}>", a.src), key: true, zero: false }, "B"));
        let k = next(&keys);
        let v = next(&ls);
        out.push((TE { src: format!("HashMap<{}, {}>", k.src, v.src), key: false, zero: false }, "B"));
        let k = next(&keys);
        let v = next(&ls);
        out.push((TE { src: format!("BTreeMap<{}, {}>", k.src, v.src), key: false, zero: false }, "B"));
    }
    for w in ["Box", "Rc", "Arc"] {
        for _ in 0..4 {
            let a = next(&ls);
            out.push((TE { src: format!("{w}<{}>", a.src), key: a.key, zero: a.zero }, "B"));
        }
    }
    for _ in 0..3 {
        let a = next(&ls);
        out.push((TE { src: format!("PhantomData<{}>", a.src), key: true, zero: true }, "B"));
    }
    // hand-picked nestings that matter for the byte-array / sequence distinction and for zero-sized elements
    for s in [
        "Vec<Vec<u8>>",
        "Vec<Box<u8>>",
        "Vec<i8>",
        "LinkedList<u8>",
        "HashSet<u8>",
        "BTreeSet<u8>",
        "Vec<()>",
        "Vec<Vec<()>>",
        "Option<Option<Option<u8>>>",
        "Vec<Option<Vec<String>>>",
        "[[u8; 3]; 2]",
        "[Vec<u8>; 2]",
        "[String; 3]",
        "[Option<Box<u64>>; 3]",
        "[(u8, String); 2]",
        "(u8,)",
        "((u8,),)",
        "Vec<(u8,)>",
        "HashMap<String, HashMap<u8, Vec<u8>>>",
        "BTreeMap<u8, LinkedList<()>>",
        "Result<Result<u8, String>, Option<char>>",
        "Box<Box<Box<String>>>",
        "Rc<Vec<Arc<String>>>",
        "Vec<DeduplicatedString>",
        "(DeduplicatedString, DeduplicatedString, String, DeduplicatedString)",
        "Vec<f64>",
        "Vec<f32>",
        "Option<f64>",
        "(f32, f64)",
        "Vec<char>",
        "Vec<DateTime<FixedOffset>>",
        "HashMap<Uuid, DateTime<Tz>>",
        "Vec<BigDecimal>",
        "Vec<BigInt>",
        "Option<Duration>",
        // zero-sized in memory but not on the wire, pointer-sized in memory but empty on the wire
        "Vec<((),)>",
        "Vec<((), ())>",
        "Vec<[(); 0]>",
        "Vec<[u64; 0]>",
        "Vec<(PhantomData<String>,)>",
        "Vec<[(); 3]>",
        "Vec<Box<()>>",
        "Vec<Rc<()>>",
        "LinkedList<Arc<()>>",
        "Vec<Arc<PhantomData<String>>>",
        "[((),); 3]",
        "[Box<()>; 3]",
        "HashMap<u8, ((),)>",
        "(Vec<((),)>, u32)",
        "(Vec<Box<()>>, String)",
        "Vec<Option<()>>",
    ] {
        out.push((TE { src: s.to_string(), key: false, zero: false }, "B"));
    }
    out
}
