//! Generator of `#[derive(BinaryCodec)]` declarations, their `Model` impls and their schemas (as Rust source).

use crate::texpr::{self, TE};
use refmodel::evo::{gen_history, HStep, History};
use refmodel::{Rng, Step, Ty, Val};
use std::fmt::Write;

#[derive(Clone, Debug)]
pub struct FieldDecl {
    pub name: String,
    /// full Rust spelling of the field type as written in the declaration
    pub ty_src: String,
    /// canonical spelling (aliases resolved) used in `<T as Model>` positions
    pub ty_canon: String,
    pub opt_by_name: bool,
    pub transient_expr: Option<String>,
    pub added_default_expr: Option<String>,
}

#[derive(Clone, Debug)]
pub struct RecordDecl {
    pub name: String,
    pub fields: Vec<FieldDecl>,
    pub steps: Vec<Step>,
}

#[derive(Clone, Copy, Debug, PartialEq, Eq)]
pub enum VKind {
    Unit,
    Tuple,
    Struct,
}

#[derive(Clone, Debug)]
pub struct VariantDecl {
    pub kind: VKind,
    pub transient: bool,
    /// name = variant name
    pub record: RecordDecl,
}

#[derive(Clone, Debug)]
pub struct EnumDecl {
    pub name: String,
    pub sorted: bool,
    pub variants: Vec<VariantDecl>,
}

pub struct Out {
    /// item definitions
    pub items: String,
    /// body of `pub fn register(reg: &mut Registry)` — schema registration first, then subjects
    pub reg_schemas: String,
    pub reg_subjects: String,
    pub count: usize,
}

impl Out {
    pub fn new() -> Self {
        Out { items: String::new(), reg_schemas: String::new(), reg_subjects: String::new(), count: 0 }
    }
}

fn evolution_attr(rec: &RecordDecl) -> String {
    if rec.steps.is_empty() {
        return String::new();
    }
    let parts: Vec<String> = rec
        .steps
        .iter()
        .map(|s| match s {
            Step::Added(n) => {
                let f = rec.fields.iter().find(|f| &f.name == n);
                let d = match f.and_then(|f| f.added_default_expr.clone()) {
                    Some(d) => d,
                    // the field was added and later removed: any expression will do, it is never used
                    None => "()".to_string(),
                };
                format!("FieldAdded(\"{n}\", {d})")
            }
            Step::MadeOptional(n) => format!("FieldMadeOptional(\"{n}\")"),
            Step::Removed(n) => format!("FieldRemoved(\"{n}\")"),
            Step::MadeTransient(n) => format!("FieldMadeTransient(\"{n}\")"),
        })
        .collect();
    // a history may be spread over several #[evolution] attributes: the macro concatenates them in order
    let h = refmodel::rng::fnv64_str(&rec.name);
    if parts.len() >= 2 && h % 3 == 0 {
        let cut = 1 + (h / 3) as usize % (parts.len() - 1);
        format!("#[evolution({})]\n{}#[evolution({})]\n", parts[..cut].join(", "), inert(&format!("{}/between", rec.name)).map(|a| format!("{a}\n")).unwrap_or_default(), parts[cut..].join(", "))
    } else {
        format!("#[evolution({})]\n", parts.join(", "))
    }
}

/// attributes that mean nothing to the derive macro (doc comments, lints, a disabled cfg_attr): real declarations carry
/// them before, between and after the helper attributes — chosen by hash, so that nothing else depends on them
fn inert(key: &str) -> Option<&'static str> {
    match refmodel::rng::fnv64_str(key) % 9 {
        0 => Some("/// documented"),
        1 => Some("#[allow(dead_code)]"),
        2 => Some("#[cfg_attr(any(), deprecated)]"),
        3 => Some("#[doc = \"x\"]"),
        _ => None,
    }
}

fn field_lines(rec: &RecordDecl, named: bool, vis: &str) -> String {
    let mut s = String::new();
    for (i, f) in rec.fields.iter().enumerate() {
        if let Some(a) = inert(&format!("{}/{}/{i}/pre", rec.name, f.name)) {
            let _ = writeln!(s, "    {a}");
        }
        if let Some(t) = &f.transient_expr {
            let _ = writeln!(s, "    #[transient({t})]");
        }
        if let Some(a) = inert(&format!("{}/{}/{i}/post", rec.name, f.name)) {
            let _ = writeln!(s, "    {a}");
        }
        if named {
            let _ = writeln!(s, "    {vis}{}: {},", f.name, f.ty_src);
        } else {
            let _ = writeln!(s, "    {},", f.ty_src);
        }
    }
    s
}

fn schema_expr(rec: &RecordDecl) -> String {
    let mut s = String::new();
    let _ = write!(s, "RecordSchema {{ name: \"{}\".to_string(), fields: vec![", rec.name);
    for f in &rec.fields {
        let default = match (&f.transient_expr, &f.added_default_expr) {
            (Some(e), _) | (None, Some(e)) => format!("Some(<{} as Model>::to_val(&({e})))", f.ty_canon),
            _ => "None".to_string(),
        };
        let _ = write!(
            s,
            "sbase::fs::<{}>(\"{}\", {}, {}, {}), ",
            f.ty_canon,
            f.name,
            f.opt_by_name,
            f.transient_expr.is_some(),
            default
        );
    }
    let _ = write!(s, "], steps: vec![");
    for st in &rec.steps {
        let _ = match st {
            Step::Added(n) => write!(s, "Step::Added(\"{n}\".to_string()), "),
            Step::MadeOptional(n) => write!(s, "Step::MadeOptional(\"{n}\".to_string()), "),
            Step::Removed(n) => write!(s, "Step::Removed(\"{n}\".to_string()), "),
            Step::MadeTransient(n) => write!(s, "Step::MadeTransient(\"{n}\".to_string()), "),
        };
    }
    let _ = write!(s, "] }}");
    s
}

pub fn emit_struct(out: &mut Out, rec: &RecordDecl, tags: &[String], schema_override: Option<String>) {
    let name = &rec.name;
    let via_macro = !rec.fields.is_empty() && rec.fields.iter().all(|f| f.transient_expr.is_none()) && refmodel::rng::fnv64_str(name) % 4 == 1;
    if via_macro {
        // declared through a macro_rules! helper: the field types reach the derive macro as `$t:ty` fragments
        // (invisible groups in the token stream), as they do in code bases that stamp out their records with macros
        let _ = writeln!(out.items, "macro_rules! decl_{name} {{ ($($f:ident : $t:ty),* $(,)?) => {{");
        let _ = writeln!(out.items, "#[derive(BinaryCodec)]");
        out.items.push_str(&evolution_attr(rec));
        let _ = writeln!(out.items, "pub struct {name} {{ $(pub $f: $t),* }}");
        let _ = writeln!(out.items, "}} }}");
        let args: Vec<String> = rec.fields.iter().map(|f| format!("{}: {}", f.name, f.ty_src)).collect();
        let _ = writeln!(out.items, "decl_{name}!({});", args.join(", "));
    } else {
        let _ = writeln!(out.items, "#[derive(BinaryCodec)]");
        if let Some(a) = inert(&format!("{name}/item/pre")) {
            let _ = writeln!(out.items, "{a}");
        }
        out.items.push_str(&evolution_attr(rec));
        if let Some(a) = inert(&format!("{name}/item/post")) {
            let _ = writeln!(out.items, "{a}");
        }
        if rec.fields.is_empty() {
            let _ = writeln!(out.items, "pub struct {name};");
        } else {
            let _ = writeln!(out.items, "pub struct {name} {{\n{}}}", field_lines(rec, true, "pub "));
        }
    }
    // Model
    let _ = writeln!(out.items, "impl Model for {name} {{");
    let _ = writeln!(out.items, "    fn ty() -> Ty {{ Ty::Named(\"{name}\".to_string()) }}");
    if rec.fields.is_empty() {
        let _ = writeln!(out.items, "    fn from_val(_v: &Val) -> Self {{ {name} }}");
        let _ = writeln!(out.items, "    fn to_val(&self) -> Val {{ Val::Rec(vec![]) }}");
    } else {
        let _ = writeln!(out.items, "    fn from_val(v: &Val) -> Self {{ match v {{ Val::Rec(f) if f.len() == {} => {name} {{", rec.fields.len());
        for (i, f) in rec.fields.iter().enumerate() {
            let _ = writeln!(out.items, "        {}: <{} as Model>::from_val(&f[{i}]),", f.name, f.ty_canon);
        }
        let _ = writeln!(out.items, "    }}, _ => panic!(\"harness: from_val::<{name}>\") }} }}");
        let _ = writeln!(out.items, "    fn to_val(&self) -> Val {{ Val::Rec(vec![");
        for f in &rec.fields {
            let _ = writeln!(out.items, "        self.{}.to_val(),", f.name);
        }
        let _ = writeln!(out.items, "    ]) }}");
    }
    let _ = writeln!(out.items, "}}");
    let schema = schema_override.unwrap_or_else(|| schema_expr(rec));
    let _ = writeln!(out.reg_schemas, "    refmodel::register(\"{name}\", Ty::Record(Arc::new({schema})));");
    let tag_list: Vec<String> = tags.iter().map(|t| format!("\"{t}\"")).collect();
    let _ = writeln!(out.reg_subjects, "    reg.add_tagged::<{name}>(\"{name}\", &[{}]);", tag_list.join(", "));
    out.count += 1;
}

pub fn emit_enum(out: &mut Out, e: &EnumDecl, tags: &[String], variant_schema_override: &dyn Fn(usize) -> Option<String>) {
    let name = &e.name;
    let _ = writeln!(out.items, "#[derive(BinaryCodec)]");
    if let Some(a) = inert(&format!("{name}/enum/pre")) {
        let _ = writeln!(out.items, "{a}");
    }
    if e.sorted {
        let _ = writeln!(out.items, "#[sorted_constructors]");
    }
    if let Some(a) = inert(&format!("{name}/enum/post")) {
        let _ = writeln!(out.items, "{a}");
    }
    let _ = writeln!(out.items, "pub enum {name} {{");
    let explicit_discriminants = e.variants.iter().all(|v| matches!(v.kind, VKind::Unit)) && refmodel::rng::fnv64_str(&format!("{name}/discriminants")) % 2 == 0;
    for v in &e.variants {
        if let Some(a) = inert(&format!("{name}/{}/pre", v.record.name)) {
            let _ = writeln!(out.items, "    {a}");
        }
        if v.transient {
            // the marker in both spellings the macro accepts on a constructor
            let spelled = if refmodel::rng::fnv64_str(&format!("{name}/{}/transient", v.record.name)) % 3 == 0 { "#[transient()]" } else { "#[transient]" };
            let _ = writeln!(out.items, "    {spelled}");
        }
        if let Some(a) = inert(&format!("{name}/{}/mid", v.record.name)) {
            let _ = writeln!(out.items, "    {a}");
        }
        let attr = evolution_attr(&v.record);
        if !attr.is_empty() {
            let _ = write!(out.items, "    {attr}");
        }
        if let Some(a) = inert(&format!("{name}/{}/post", v.record.name)) {
            let _ = writeln!(out.items, "    {a}");
        }
        match v.kind {
            VKind::Unit if explicit_discriminants => {
                // a field-less enum may give its variants numbers of their own: they mean nothing to the format, whose
                // constructor index is the position in declaration (or name) order
                let i = e.variants.iter().position(|w| w.record.name == v.record.name).unwrap_or(0) as i64;
                let _ = writeln!(out.items, "    {} = {},", v.record.name, 100 - 7 * i);
            }
            VKind::Unit => {
                let _ = writeln!(out.items, "    {},", v.record.name);
            }
            VKind::Tuple => {
                let _ = writeln!(out.items, "    {}(\n{}    ),", v.record.name, field_lines(&v.record, false, ""));
            }
            VKind::Struct => {
                let _ = writeln!(out.items, "    {} {{\n{}    }},", v.record.name, field_lines(&v.record, true, ""));
            }
        }
    }
    let _ = writeln!(out.items, "}}");
    let _ = writeln!(out.items, "impl Model for {name} {{");
    let _ = writeln!(out.items, "    fn ty() -> Ty {{ Ty::Named(\"{name}\".to_string()) }}");
    let _ = writeln!(out.items, "    fn from_val(v: &Val) -> Self {{ match v {{");
    for (i, v) in e.variants.iter().enumerate() {
        let vn = &v.record.name;
        match v.kind {
            VKind::Unit => {
                let _ = writeln!(out.items, "        Val::Ctor({i}, _) => {name}::{vn},");
            }
            VKind::Tuple => {
                let args: Vec<String> = v
                    .record
                    .fields
                    .iter()
                    .enumerate()
                    .map(|(j, f)| format!("<{} as Model>::from_val(&f[{j}])", f.ty_canon))
                    .collect();
                let _ = writeln!(out.items, "        Val::Ctor({i}, f) => {name}::{vn}({}),", args.join(", "));
            }
            VKind::Struct => {
                let args: Vec<String> = v
                    .record
                    .fields
                    .iter()
                    .enumerate()
                    .map(|(j, f)| format!("{}: <{} as Model>::from_val(&f[{j}])", f.name, f.ty_canon))
                    .collect();
                let _ = writeln!(out.items, "        Val::Ctor({i}, f) => {name}::{vn} {{ {} }},", args.join(", "));
            }
        }
    }
    let _ = writeln!(out.items, "        _ => panic!(\"harness: from_val::<{name}>\") }} }}");
    let _ = writeln!(out.items, "    fn to_val(&self) -> Val {{ match self {{");
    for (i, v) in e.variants.iter().enumerate() {
        let vn = &v.record.name;
        match v.kind {
            VKind::Unit => {
                let _ = writeln!(out.items, "        {name}::{vn} => Val::Ctor({i}, vec![]),");
            }
            VKind::Tuple => {
                let binds: Vec<String> = (0..v.record.fields.len()).map(|j| format!("a{j}")).collect();
                let vals: Vec<String> = binds.iter().map(|b| format!("{b}.to_val()")).collect();
                let _ = writeln!(out.items, "        {name}::{vn}({}) => Val::Ctor({i}, vec![{}]),", binds.join(", "), vals.join(", "));
            }
            VKind::Struct => {
                let binds: Vec<String> = v.record.fields.iter().map(|f| f.name.clone()).collect();
                let vals: Vec<String> = binds.iter().map(|b| format!("{b}.to_val()")).collect();
                let _ = writeln!(out.items, "        {name}::{vn} {{ {} }} => Val::Ctor({i}, vec![{}]),", binds.join(", "), vals.join(", "));
            }
        }
    }
    let _ = writeln!(out.items, "    }} }}");
    let _ = writeln!(out.items, "}}");

    let mut s = String::new();
    let _ = write!(s, "EnumSchema {{ name: \"{name}\".to_string(), sorted: {}, variants: vec![", e.sorted);
    for (i, v) in e.variants.iter().enumerate() {
        let kind = match v.kind {
            VKind::Unit => "VariantKind::Unit",
            VKind::Tuple => "VariantKind::Tuple",
            VKind::Struct => "VariantKind::Struct",
        };
        let rec = variant_schema_override(i).unwrap_or_else(|| schema_expr(&v.record));
        let _ = write!(
            s,
            "VariantSchema {{ name: \"{}\".to_string(), kind: {kind}, transient: {}, record: {rec} }}, ",
            v.record.name, v.transient
        );
    }
    let _ = write!(s, "] }}");
    let _ = writeln!(out.reg_schemas, "    refmodel::register(\"{name}\", Ty::Enum(Arc::new({s})));");
    let tag_list: Vec<String> = tags.iter().map(|t| format!("\"{t}\"")).collect();
    let _ = writeln!(out.reg_subjects, "    reg.add_tagged::<{name}>(\"{name}\", &[{}]);", tag_list.join(", "));
    out.count += 1;
}

// -------------------------------------------------------------------------------------------------
// plain declarations

/// a pool of already declared derived types that later declarations may nest
#[derive(Clone, Debug)]
pub struct Declared {
    pub name: String,
    pub tags: Vec<String>,
}

fn field_type(rng: &mut Rng, declared: &[Declared], self_name: Option<&str>, tags: &mut Vec<String>) -> (TE, bool) {
    // returns (type, is_recursive_reference)
    let roll = rng.below(20);
    if roll < 3 && !declared.is_empty() {
        let d = rng.pick(declared);
        tags.push("nested_derived".into());
        // a derived type in every position a value can take (map keys apart: the declarations derive no Hash / Ord)
        let src = match rng.below(16) {
            0 => format!("Vec<{}>", d.name),
            1 => format!("Option<{}>", d.name),
            2 => format!("Box<{}>", d.name),
            3 => format!("Result<{}, String>", d.name),
            4 => format!("Result<u8, {}>", d.name),
            5 => format!("(u8, {}, String)", d.name),
            6 => format!("[{}; 2]", d.name),
            7 => format!("HashMap<String, {}>", d.name),
            8 => format!("BTreeMap<u8, Vec<{}>>", d.name),
            9 => format!("Rc<{}>", d.name), // (LinkedList<T> asks for T: Eq + Hash in the library)
            10 => format!("Arc<{}>", d.name),
            11 => format!("(bool, u16, char, i64, f32, String, Option<u8>, {})", d.name),
            12 => format!("Option<Vec<Option<{}>>>", d.name),
            _ => d.name.clone(),
        };
        return (TE { src, key: false, zero: false }, false);
    }
    if roll == 3 {
        if let Some(me) = self_name {
            tags.push("recursive".into());
            let src = match rng.below(3) {
                0 => format!("Option<Box<{me}>>"),
                1 => format!("Vec<{me}>"),
                _ => format!("Option<Rc<{me}>>"),
            };
            return (TE { src, key: false, zero: false }, true);
        }
    }
    if roll == 4 {
        tags.push("dedup_string".into());
        return (TE { src: "DeduplicatedString".into(), key: false, zero: false }, false);
    }
    let depth = if rng.chance(1, 3) { 2 } else { 1 };
    (texpr::expr(rng, depth, false), false)
}

fn make_field(rng: &mut Rng, name: String, declared: &[Declared], self_name: Option<&str>, tags: &mut Vec<String>, allow_transient: bool) -> FieldDecl {
    let (te, recursive) = field_type(rng, declared, self_name, tags);
    // a default of a self-referential type would be needed while the type's own schema is being built
    let allow_transient = allow_transient && !recursive;
    let mut ty_src = te.src.clone();
    let ty_canon = te.src.clone();
    let mut opt_by_name = false;
    if let Some(inner) = te.src.strip_prefix("Option<").and_then(|s| s.strip_suffix('>')) {
        // the derive macro recognises options by spelling only
        match rng.below(6) {
            0 => {
                ty_src = format!("{}std::option::Option<{inner}>", if refmodel::rng::fnv64_str(&name) % 2 == 0 { "::" } else { "" });
                opt_by_name = true;
                tags.push("option_std_path".into());
            }
            1 => {
                ty_src = format!("{}core::option::Option<{inner}>", if refmodel::rng::fnv64_str(&name) % 2 == 1 { "::" } else { "" });
                opt_by_name = true;
                tags.push("option_core_path".into());
            }
            2 => {
                ty_src = format!("MyOpt<{inner}>");
                opt_by_name = false;
                tags.push("option_alias".into());
            }
            3 => {
                // a parenthesised type is still an Option to the derive (Type::Paren)
                ty_src = format!("(Option<{inner}>)");
                opt_by_name = true;
                tags.push("option_in_parens".into());
            }
            _ => {
                opt_by_name = true;
                tags.push("option_plain".into());
            }
        }
    }
    let transient_expr = if allow_transient && rng.chance(1, 6) {
        Some(format!("sbase::dflt::<{}>({})", ty_canon, rng.below(1_000_000)))
    } else {
        None
    };
    FieldDecl { name, ty_src, ty_canon, opt_by_name, transient_expr, added_default_expr: None }
}

fn position_tag(i: usize, n: usize) -> &'static str {
    if i == 0 {
        "first"
    } else if i + 1 == n {
        "last"
    } else {
        "middle"
    }
}

pub fn gen_plain_struct(rng: &mut Rng, name: &str, declared: &[Declared]) -> (RecordDecl, Vec<String>) {
    let mut tags = vec!["struct".to_string()];
    let n = match rng.below(10) {
        0 => 0,
        1 => 1,
        _ => 1 + rng.below(7) as usize,
    };
    if n == 0 {
        tags.push("unit_struct".into());
    }
    let mut fields = Vec::new();
    for i in 0..n {
        let f = make_field(rng, format!("f{i}"), declared, Some(name), &mut tags, true);
        if f.transient_expr.is_some() {
            tags.push(format!("transient_field_{}", position_tag(i, n)));
        }
        fields.push(f);
    }
    tags.sort();
    tags.dedup();
    (RecordDecl { name: name.to_string(), fields, steps: vec![] }, tags)
}

// includes names whose byte order and case-insensitive order disagree (IOError < Id < Init in byte order, AB < Aa, SetValue < Settings,
// URLChanged < Updated): #[sorted_constructors] sorts by the plain identifier string
const VARIANT_NAMES: [&str; 20] = [
    "Alpha", "Beta", "Gamma", "Delta", "Eps", "Zeta", "Eta", "Theta", "Iota", "Kappa", "Lambda", "Mu", "IOError", "Id", "Init", "AB", "Aa", "SetValue", "Settings",
    "URLChanged",
];

pub fn gen_variant(rng: &mut Rng, vname: &str, declared: &[Declared], self_name: Option<&str>, tags: &mut Vec<String>, force_nonrecursive: bool) -> VariantDecl {
    let kind = match rng.below(3) {
        0 => VKind::Unit,
        1 => VKind::Tuple,
        _ => VKind::Struct,
    };
    let n = match kind {
        VKind::Unit => 0,
        _ => 1 + rng.below(4) as usize,
    };
    tags.push(
        match kind {
            VKind::Unit => "variant_unit",
            VKind::Tuple => "variant_tuple",
            VKind::Struct => "variant_struct",
        }
        .to_string(),
    );
    let mut fields = Vec::new();
    for i in 0..n {
        let fname = if kind == VKind::Tuple { format!("field{i}") } else { format!("g{i}") };
        let me = if force_nonrecursive { None } else { self_name };
        let f = make_field(rng, fname, declared, me, tags, true);
        if f.transient_expr.is_some() {
            tags.push(format!("transient_variant_field_{}", position_tag(i, n)));
        }
        fields.push(f);
    }
    VariantDecl { kind, transient: false, record: RecordDecl { name: vname.to_string(), fields, steps: vec![] } }
}

pub fn gen_plain_enum(rng: &mut Rng, name: &str, declared: &[Declared]) -> (EnumDecl, Vec<String>) {
    let mut tags = vec!["enum".to_string()];
    let n = 1 + rng.below(6) as usize;
    let sorted = rng.chance(1, 3);
    if sorted {
        tags.push("sorted_constructors".into());
    }
    // shuffled names so that sorting actually permutes
    let mut names: Vec<&str> = VARIANT_NAMES.to_vec();
    for i in (1..names.len()).rev() {
        let j = rng.below(i as u64 + 1) as usize;
        names.swap(i, j);
    }
    let mut variants = Vec::new();
    for i in 0..n {
        // the first variant never recurses, so that values of recursive enums can terminate
        let v = gen_variant(rng, names[i], declared, Some(name), &mut tags, i == 0);
        variants.push(v);
    }
    // transient constructors — never all of them
    if n >= 2 && rng.chance(1, 3) {
        let i = rng.below(n as u64) as usize;
        if i != 0 || n > 1 {
            let idx = if i == 0 { 1.min(n - 1) } else { i };
            variants[idx].transient = true;
            tags.push(format!("transient_ctor_{}", position_tag(idx, n)));
        }
    }
    tags.sort();
    tags.dedup();
    (EnumDecl { name: name.to_string(), sorted, variants }, tags)
}

// -------------------------------------------------------------------------------------------------
// histories

/// base types of history fields: (spelling, placeholder index)
pub fn history_pool() -> Vec<&'static str> {
    vec![
        "u8",
        "i32",
        "u64",
        "bool",
        "String",
        "char",
        "f64",
        "Vec<u16>",
        "(u8, String)",
        "Vec<u8>",
        "MyOpt<i16>",
        "HashMap<String, u32>",
        "()",
        "i128",
        "[u16; 2]",
        "BTreeSet<i8>",
        // encodings that end in a multi-byte varint (a chunk boundary inside a varint is a framing error)
        "NaiveTime",
        "FixedOffset",
        "Vec<NaiveTime>",
    ]
}

/// a legal history over placeholder types `Ty::Named("#i")` and placeholder defaults `Val::U(seed)`
pub fn gen_placeholder_history(id: &str, rng: &mut Rng, max_steps: usize, script: Option<&str>) -> History {
    let pool: Vec<Ty> = (0..history_pool().len()).map(|i| Ty::Named(format!("#{i}"))).collect();
    let mut mk = |_ty: &Ty, rng: &mut Rng| Val::U(rng.below(1_000_000) as u128);
    gen_history(id, rng, max_steps, &pool, &mut mk, script)
}

fn placeholder_src(ty: &Ty) -> String {
    match ty {
        Ty::Named(n) => history_pool()[n[1..].parse::<usize>().unwrap()].to_string(),
        Ty::Opt(t) => format!("Option<{}>", placeholder_src(t)),
        other => panic!("placeholder type {other:?}"),
    }
}

fn placeholder_default_expr(field_ty_at_addition: &str, d: &Val) -> String {
    match d {
        Val::U(seed) => format!("sbase::dflt::<{field_ty_at_addition}>({seed})"),
        Val::Some(inner) => format!("Some({})", placeholder_default_expr(field_ty_at_addition, inner)),
        other => panic!("placeholder default {other:?}"),
    }
}

/// the declaration of version k of a placeholder history
pub fn history_version_decl(h: &History, k: usize, name: &str) -> RecordDecl {
    let schema = h.version(k);
    // type of each field at the time of its addition (for the default expressions)
    let mut ty_at_addition = std::collections::HashMap::new();
    for s in &h.steps[..k] {
        // (a name that comes back: the latest addition up to this version is the declared field)
        if let HStep::Added { field, .. } = s {
            let base = placeholder_src(&field.base);
            let t = if field.optional { format!("Option<{base}>") } else { base };
            ty_at_addition.insert(field.name.clone(), t);
        }
    }
    let fields = schema
        .fields
        .iter()
        .map(|f| {
            let ty = placeholder_src(&f.ty);
            let (transient_expr, added_default_expr) = if f.transient {
                // the transient default was drawn for the field's type at that time = its current type;
                // a field that was added by FieldAdded keeps a well-typed FieldAdded default as well (a real declaration would)
                let added = h.steps[..k].iter().rev().find_map(|s| match s {
                    HStep::Added { field, default, .. } if field.name == f.name => {
                        let e = placeholder_default_expr(&ty_at_addition[&f.name], default);
                        Some(if f.opt_by_name && !field.optional { format!("Some({e})") } else { e })
                    }
                    _ => None,
                });
                (Some(placeholder_default_expr(&ty, f.default.as_ref().unwrap())), added)
            } else {
                (
                    None,
                    f.default.as_ref().map(|d| placeholder_default_expr(&ty_at_addition[&f.name], d)),
                )
            };
            // the derive macro recognises options by spelling: fields that a FieldMadeOptional step refers to are
            // spelled in every form it accepts
            let ty_src = match ty.strip_prefix("Option<") {
                Some(rest) if f.opt_by_name => match refmodel::rng::fnv64_str(&format!("{}/{}/{k}", h.id, f.name)) % 8 {
                    0 => format!("::std::option::Option<{rest}"),
                    1 => format!("::core::option::Option<{rest}"),
                    2 => format!("std::option::Option<{rest}"),
                    3 => format!("core::option::Option<{rest}"),
                    4 => format!("(Option<{rest})"),
                    _ => ty.clone(),
                },
                _ => ty.clone(),
            };
            FieldDecl { name: f.name.clone(), ty_src, ty_canon: ty, opt_by_name: f.opt_by_name, transient_expr, added_default_expr }
        })
        .collect();
    RecordDecl { name: name.to_string(), fields, steps: schema.steps.clone() }
}

/// Rust expression that rebuilds the history with real types and real default values
pub fn history_expr(h: &History) -> String {
    let mut s = String::new();
    let _ = write!(s, "History {{ id: \"{}\".to_string(), initial: vec![", h.id);
    for f in &h.initial {
        let _ = write!(s, "sbase::hf::<{}>(\"{}\", {}), ", placeholder_src(&f.base), f.name, f.optional);
    }
    let _ = write!(s, "], steps: vec![");
    for st in &h.steps {
        match st {
            HStep::Added { field, default, insert_at } => {
                let base = placeholder_src(&field.base);
                let t = if field.optional { format!("Option<{base}>") } else { base.clone() };
                let _ = write!(
                    s,
                    "HStep::Added {{ field: sbase::hf::<{base}>(\"{}\", {}), default: <{t} as Model>::to_val(&({})), insert_at: {insert_at} }}, ",
                    field.name,
                    field.optional,
                    placeholder_default_expr(&t, default)
                );
            }
            HStep::MadeOptional(n) => {
                let _ = write!(s, "HStep::MadeOptional(\"{n}\".to_string()), ");
            }
            HStep::Removed(n) => {
                let _ = write!(s, "HStep::Removed(\"{n}\".to_string()), ");
            }
            HStep::MadeTransient { name, default } => {
                // type of the field at that time: find it in the version right after the step
                let k = h.steps.iter().position(|x| std::ptr::eq(x, st)).unwrap() + 1;
                let schema = h.version(k);
                let f = schema.fields.iter().find(|f| &f.name == name).unwrap();
                let t = placeholder_src(&f.ty);
                let _ = write!(
                    s,
                    "HStep::MadeTransient {{ name: \"{name}\".to_string(), default: <{t} as Model>::to_val(&({})) }}, ",
                    placeholder_default_expr(&t, default)
                );
            }
        }
    }
    let _ = write!(s, "] }}");
    s
}
