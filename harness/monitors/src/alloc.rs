//! Allocation monitor (DESIGN §6.2): a counting wrapper around the system allocator.
//! Per-thread counters (const-initialised `Cell`s: no allocation, no destructors, no locks).

use std::alloc::{GlobalAlloc, Layout, System};
use std::cell::Cell;
use std::sync::atomic::{AtomicI32, AtomicUsize, Ordering};

pub struct Counting;

thread_local! {
    static MAX_SINGLE: Cell<usize> = const { Cell::new(0) };
    static TOTAL: Cell<usize> = const { Cell::new(0) };
    static COUNT: Cell<usize> = const { Cell::new(0) };
    static LIVE: Cell<isize> = const { Cell::new(0) };
    static PEAK: Cell<isize> = const { Cell::new(0) };
}

/// requests above this are refused (null) after being recorded; 8 GiB by default
static REFUSE_ABOVE: AtomicUsize = AtomicUsize::new(8 << 30);
/// requests above this are recorded in the breadcrumb file before being served
static RECORD_ABOVE: AtomicUsize = AtomicUsize::new(256 << 20);
static BREADCRUMB_FD: AtomicI32 = AtomicI32::new(-1);

pub fn set_refuse_above(n: usize) {
    REFUSE_ABOVE.store(n, Ordering::Relaxed);
}

pub fn set_breadcrumb_fd(fd: i32) {
    BREADCRUMB_FD.store(fd, Ordering::Relaxed);
}

#[derive(Clone, Copy, Debug, Default, PartialEq, Eq)]
pub struct AllocStats {
    pub max_single: usize,
    pub total: usize,
    pub count: usize,
    pub peak_live: usize,
}

/// start a measurement window on this thread
pub fn begin() {
    let _ = MAX_SINGLE.try_with(|c| c.set(0));
    let _ = TOTAL.try_with(|c| c.set(0));
    let _ = COUNT.try_with(|c| c.set(0));
    let _ = LIVE.try_with(|c| c.set(0));
    let _ = PEAK.try_with(|c| c.set(0));
}

/// statistics since `begin` on this thread
pub fn end() -> AllocStats {
    AllocStats {
        max_single: MAX_SINGLE.try_with(|c| c.get()).unwrap_or(0),
        total: TOTAL.try_with(|c| c.get()).unwrap_or(0),
        count: COUNT.try_with(|c| c.get()).unwrap_or(0),
        peak_live: PEAK.try_with(|c| c.get()).unwrap_or(0).max(0) as usize,
    }
}

/// is the counting allocator the global allocator of this binary?
pub fn installed() -> bool {
    begin();
    let v: Vec<u8> = Vec::with_capacity(1234);
    let s = end();
    drop(v);
    s.max_single >= 1234
}

fn record(size: usize) {
    let _ = MAX_SINGLE.try_with(|c| {
        if size > c.get() {
            c.set(size)
        }
    });
    let _ = TOTAL.try_with(|c| c.set(c.get().saturating_add(size)));
    let _ = COUNT.try_with(|c| c.set(c.get() + 1));
    let live = LIVE.try_with(|c| {
        let l = c.get().saturating_add(size as isize);
        c.set(l);
        l
    });
    if let Ok(l) = live {
        let _ = PEAK.try_with(|c| {
            if l > c.get() {
                c.set(l)
            }
        });
    }
}

fn note_big(size: usize) {
    let fd = BREADCRUMB_FD.load(Ordering::Relaxed);
    if fd >= 0 {
        // no allocation in here: format the number into a stack buffer
        let mut buf = [0u8; 40];
        let prefix = b"ALLOC ";
        buf[..prefix.len()].copy_from_slice(prefix);
        let mut digits = [0u8; 24];
        let mut n = size;
        let mut i = digits.len();
        if n == 0 {
            i -= 1;
            digits[i] = b'0';
        }
        while n > 0 {
            i -= 1;
            digits[i] = b'0' + (n % 10) as u8;
            n /= 10;
        }
        let d = &digits[i..];
        buf[prefix.len()..prefix.len() + d.len()].copy_from_slice(d);
        buf[prefix.len() + d.len()] = b'\n';
        unsafe {
            // beyond the breadcrumb line, which is rewritten in place at offset 0
            libc::pwrite(fd, buf.as_ptr() as *const libc::c_void, prefix.len() + d.len() + 1, 16384);
        }
    }
}

unsafe impl GlobalAlloc for Counting {
    unsafe fn alloc(&self, layout: Layout) -> *mut u8 {
        let size = layout.size();
        record(size);
        if size > RECORD_ABOVE.load(Ordering::Relaxed) {
            note_big(size);
            if size > REFUSE_ABOVE.load(Ordering::Relaxed) {
                return std::ptr::null_mut();
            }
        }
        System.alloc(layout)
    }

    unsafe fn dealloc(&self, ptr: *mut u8, layout: Layout) {
        let _ = LIVE.try_with(|c| c.set(c.get().saturating_sub(layout.size() as isize)));
        System.dealloc(ptr, layout)
    }

    unsafe fn alloc_zeroed(&self, layout: Layout) -> *mut u8 {
        let size = layout.size();
        record(size);
        if size > RECORD_ABOVE.load(Ordering::Relaxed) {
            note_big(size);
            if size > REFUSE_ABOVE.load(Ordering::Relaxed) {
                return std::ptr::null_mut();
            }
        }
        System.alloc_zeroed(layout)
    }

    unsafe fn realloc(&self, ptr: *mut u8, layout: Layout, new_size: usize) -> *mut u8 {
        // a growth is a request for `new_size` bytes
        record(new_size);
        let _ = LIVE.try_with(|c| c.set(c.get().saturating_sub(layout.size() as isize)));
        if new_size > RECORD_ABOVE.load(Ordering::Relaxed) {
            note_big(new_size);
            if new_size > REFUSE_ABOVE.load(Ordering::Relaxed) {
                return std::ptr::null_mut();
            }
        }
        System.realloc(ptr, layout, new_size)
    }
}

#[cfg(not(feature = "no-alloc-monitor"))]
#[global_allocator]
static GLOBAL: Counting = Counting;
