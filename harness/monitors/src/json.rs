//! Minimal JSON value + writer + parser (no crates available offline beyond what the repository locks).

use std::collections::BTreeMap;
use std::fmt::Write;

#[derive(Clone, Debug, PartialEq)]
pub enum J {
    Null,
    Bool(bool),
    Int(i64),
    UInt(u64),
    Float(f64),
    Str(String),
    Arr(Vec<J>),
    Obj(BTreeMap<String, J>),
}

impl J {
    pub fn obj() -> J {
        J::Obj(BTreeMap::new())
    }

    pub fn set(&mut self, k: &str, v: J) -> &mut J {
        if let J::Obj(m) = self {
            m.insert(k.to_string(), v);
        }
        self
    }

    pub fn with(mut self, k: &str, v: J) -> J {
        self.set(k, v);
        self
    }

    pub fn get(&self, k: &str) -> Option<&J> {
        match self {
            J::Obj(m) => m.get(k),
            _ => None,
        }
    }

    pub fn as_u64(&self) -> Option<u64> {
        match self {
            J::Int(i) if *i >= 0 => Some(*i as u64),
            J::UInt(u) => Some(*u),
            J::Float(f) if *f >= 0.0 => Some(*f as u64),
            _ => None,
        }
    }

    pub fn as_str(&self) -> Option<&str> {
        match self {
            J::Str(s) => Some(s),
            _ => None,
        }
    }

    pub fn as_arr(&self) -> Option<&Vec<J>> {
        match self {
            J::Arr(a) => Some(a),
            _ => None,
        }
    }

    pub fn s(x: impl Into<String>) -> J {
        J::Str(x.into())
    }

    pub fn u(x: impl TryInto<u64>) -> J {
        J::UInt(x.try_into().ok().unwrap_or(u64::MAX))
    }

    pub fn to_string(&self) -> String {
        let mut s = String::new();
        self.write(&mut s);
        s
    }

    fn write(&self, out: &mut String) {
        match self {
            J::Null => out.push_str("null"),
            J::Bool(b) => out.push_str(if *b { "true" } else { "false" }),
            J::Int(i) => {
                let _ = write!(out, "{i}");
            }
            J::UInt(u) => {
                let _ = write!(out, "{u}");
            }
            J::Float(f) => {
                if f.is_finite() {
                    let _ = write!(out, "{f}");
                } else {
                    out.push_str("null");
                }
            }
            J::Str(s) => write_str(out, s),
            J::Arr(a) => {
                out.push('[');
                for (i, x) in a.iter().enumerate() {
                    if i > 0 {
                        out.push(',');
                    }
                    x.write(out);
                }
                out.push(']');
            }
            J::Obj(m) => {
                out.push('{');
                for (i, (k, v)) in m.iter().enumerate() {
                    if i > 0 {
                        out.push(',');
                    }
                    write_str(out, k);
                    out.push(':');
                    v.write(out);
                }
                out.push('}');
            }
        }
    }

    pub fn parse(text: &str) -> Result<J, String> {
        let b = text.as_bytes();
        let mut p = 0;
        let v = parse_value(b, &mut p)?;
        skip_ws(b, &mut p);
        if p != b.len() {
            return Err(format!("trailing data at {p}"));
        }
        Ok(v)
    }
}

fn write_str(out: &mut String, s: &str) {
    out.push('"');
    for c in s.chars() {
        match c {
            '"' => out.push_str("\\\""),
            '\\' => out.push_str("\\\\"),
            '\n' => out.push_str("\\n"),
            '\r' => out.push_str("\\r"),
            '\t' => out.push_str("\\t"),
            c if (c as u32) < 0x20 || c == '\u{7f}' || c == '\u{ffff}' || c == '\u{fffe}' => {
                let _ = write!(out, "\\u{:04x}", c as u32);
            }
            c => out.push(c),
        }
    }
    out.push('"');
}

fn skip_ws(b: &[u8], p: &mut usize) {
    while *p < b.len() && (b[*p] == b' ' || b[*p] == b'\n' || b[*p] == b'\r' || b[*p] == b'\t') {
        *p += 1;
    }
}

fn parse_value(b: &[u8], p: &mut usize) -> Result<J, String> {
    skip_ws(b, p);
    if *p >= b.len() {
        return Err("unexpected end".into());
    }
    match b[*p] {
        b'{' => {
            *p += 1;
            let mut m = BTreeMap::new();
            skip_ws(b, p);
            if *p < b.len() && b[*p] == b'}' {
                *p += 1;
                return Ok(J::Obj(m));
            }
            loop {
                skip_ws(b, p);
                let k = match parse_value(b, p)? {
                    J::Str(s) => s,
                    _ => return Err("object key".into()),
                };
                skip_ws(b, p);
                if *p >= b.len() || b[*p] != b':' {
                    return Err(format!("expected ':' at {p}"));
                }
                *p += 1;
                let v = parse_value(b, p)?;
                m.insert(k, v);
                skip_ws(b, p);
                if *p < b.len() && b[*p] == b',' {
                    *p += 1;
                    continue;
                }
                if *p < b.len() && b[*p] == b'}' {
                    *p += 1;
                    return Ok(J::Obj(m));
                }
                return Err(format!("expected ',' or '}}' at {p}"));
            }
        }
        b'[' => {
            *p += 1;
            let mut a = Vec::new();
            skip_ws(b, p);
            if *p < b.len() && b[*p] == b']' {
                *p += 1;
                return Ok(J::Arr(a));
            }
            loop {
                a.push(parse_value(b, p)?);
                skip_ws(b, p);
                if *p < b.len() && b[*p] == b',' {
                    *p += 1;
                    continue;
                }
                if *p < b.len() && b[*p] == b']' {
                    *p += 1;
                    return Ok(J::Arr(a));
                }
                return Err(format!("expected ',' or ']' at {p}"));
            }
        }
        b'"' => {
            *p += 1;
            let mut s = String::new();
            loop {
                if *p >= b.len() {
                    return Err("unterminated string".into());
                }
                match b[*p] {
                    b'"' => {
                        *p += 1;
                        return Ok(J::Str(s));
                    }
                    b'\\' => {
                        *p += 1;
                        if *p >= b.len() {
                            return Err("bad escape".into());
                        }
                        match b[*p] {
                            b'n' => s.push('\n'),
                            b'r' => s.push('\r'),
                            b't' => s.push('\t'),
                            b'b' => s.push('\u{8}'),
                            b'f' => s.push('\u{c}'),
                            b'u' => {
                                let h = std::str::from_utf8(&b[*p + 1..*p + 5]).map_err(|e| e.to_string())?;
                                let c = u32::from_str_radix(h, 16).map_err(|e| e.to_string())?;
                                s.push(char::from_u32(c).unwrap_or('\u{fffd}'));
                                *p += 4;
                            }
                            c => s.push(c as char),
                        }
                        *p += 1;
                    }
                    _ => {
                        // copy one UTF-8 scalar
                        let start = *p;
                        *p += 1;
                        while *p < b.len() && (b[*p] & 0xC0) == 0x80 {
                            *p += 1;
                        }
                        s.push_str(std::str::from_utf8(&b[start..*p]).map_err(|e| e.to_string())?);
                    }
                }
            }
        }
        b't' if b[*p..].starts_with(b"true") => {
            *p += 4;
            Ok(J::Bool(true))
        }
        b'f' if b[*p..].starts_with(b"false") => {
            *p += 5;
            Ok(J::Bool(false))
        }
        b'n' if b[*p..].starts_with(b"null") => {
            *p += 4;
            Ok(J::Null)
        }
        _ => {
            let start = *p;
            while *p < b.len() && (b[*p] == b'-' || b[*p] == b'+' || b[*p] == b'.' || b[*p] == b'e' || b[*p] == b'E' || b[*p].is_ascii_digit()) {
                *p += 1;
            }
            let t = std::str::from_utf8(&b[start..*p]).map_err(|e| e.to_string())?;
            if let Ok(u) = t.parse::<u64>() {
                Ok(J::UInt(u))
            } else if let Ok(i) = t.parse::<i64>() {
                Ok(J::Int(i))
            } else if let Ok(f) = t.parse::<f64>() {
                Ok(J::Float(f))
            } else {
                Err(format!("bad number {t:?} at {start}"))
            }
        }
    }
}
