//! Monitors that run in-process around every call of the real code (DESIGN §6):
//! panic monitor, allocation monitor, breadcrumbs, and a tiny JSON writer for events / evidence.

pub mod alloc;
pub mod json;

use std::cell::RefCell;
use std::panic::{catch_unwind, AssertUnwindSafe};
use std::sync::Once;

#[derive(Clone, Debug, PartialEq, Eq)]
pub struct PanicInfo {
    /// file:line:col of the panic site
    pub site: String,
    pub msg: String,
}

thread_local! {
    static LAST_PANIC: RefCell<Option<PanicInfo>> = const { RefCell::new(None) };
}

static HOOK: Once = Once::new();

/// Install the recording panic hook (idempotent). Panics are not printed unless VERIF_VERBOSE is set.
pub fn install_panic_hook() {
    HOOK.call_once(|| {
        let verbose = std::env::var_os("VERIF_VERBOSE").is_some();
        std::panic::set_hook(Box::new(move |info| {
            let site = match info.location() {
                Some(l) => format!("{}:{}:{}", l.file(), l.line(), l.column()),
                None => "unknown".to_string(),
            };
            let msg = if let Some(s) = info.payload().downcast_ref::<&str>() {
                s.to_string()
            } else if let Some(s) = info.payload().downcast_ref::<String>() {
                s.clone()
            } else {
                "<non-string payload>".to_string()
            };
            if verbose {
                eprintln!("[panic] {site}: {msg}");
            }
            let _ = LAST_PANIC.try_with(|p| *p.borrow_mut() = Some(PanicInfo { site, msg }));
        }));
    });
}

#[derive(Clone, Debug, PartialEq)]
pub enum Outcome<T> {
    Done(T),
    Panicked(PanicInfo),
    /// the step budget armed through the verif-hooks feature was exceeded
    StepBudget(u64),
}

impl<T> Outcome<T> {
    pub fn done(self) -> Option<T> {
        match self {
            Outcome::Done(t) => Some(t),
            _ => None,
        }
    }
}

/// Run `f`, catching unwinds.  `is_budget` recognises the step-budget marker payload (kept generic so that this
/// crate does not depend on desert).
pub fn guarded<T>(
    f: impl FnOnce() -> T,
    is_budget: impl Fn(&(dyn std::any::Any + Send)) -> Option<u64>,
) -> Outcome<T> {
    let _ = LAST_PANIC.try_with(|p| *p.borrow_mut() = None);
    match catch_unwind(AssertUnwindSafe(f)) {
        Ok(v) => Outcome::Done(v),
        Err(payload) => {
            if let Some(steps) = is_budget(payload.as_ref()) {
                return Outcome::StepBudget(steps);
            }
            let info = LAST_PANIC
                .try_with(|p| p.borrow_mut().take())
                .ok()
                .flatten()
                .unwrap_or(PanicInfo { site: "unknown".into(), msg: "panic without hook record".into() });
            Outcome::Panicked(info)
        }
    }
}

/// Strip the column and make paths relative to the repository, so that panic sites are stable dedupe keys.
pub fn normalise_site(site: &str) -> String {
    let mut parts: Vec<&str> = site.rsplitn(3, ':').collect();
    parts.reverse();
    let (file, line) = match parts.len() {
        3 => (parts[0], parts[1]),
        2 => (parts[0], parts[1]),
        _ => (site, ""),
    };
    let file = match file.find("/repo/") {
        Some(i) => &file[i + 6..],
        None => match file.find("/registry/src/") {
            Some(i) => {
                let rest = &file[i + 14..];
                match rest.find('/') {
                    Some(j) => &rest[j + 1..],
                    None => rest,
                }
            }
            None => file,
        },
    };
    format!("{file}:{line}")
}

// -------------------------------------------------------------------------------------------------
// breadcrumbs: the last case a worker started, written with a single write(2) so that a hard crash
// (SIGSEGV, abort, allocation failure, sanitizer abort) leaves the exact input behind

pub struct Breadcrumb {
    file: Option<std::fs::File>,
    prev_len: usize,
    buf: Vec<u8>,
}

impl Breadcrumb {
    pub fn open(path: Option<&str>) -> Self {
        let file = path.and_then(|p| std::fs::OpenOptions::new().create(true).write(true).truncate(true).open(p).ok());
        if let Some(f) = &file {
            alloc::set_breadcrumb_fd(std::os::fd::AsRawFd::as_raw_fd(f));
        }
        Breadcrumb { file, prev_len: 0, buf: Vec::with_capacity(16 * 1024) }
    }

    pub fn active(&self) -> bool {
        self.file.is_some()
    }

    /// one positioned write: the line, padded with spaces over whatever the previous line left behind
    pub fn set(&mut self, line: &str) {
        if let Some(f) = &mut self.file {
            use std::os::unix::fs::FileExt;
            self.buf.clear();
            self.buf.extend_from_slice(line.as_bytes());
            self.buf.push(b'\n');
            let len = self.buf.len();
            while self.buf.len() < self.prev_len {
                self.buf.push(b' ');
            }
            self.prev_len = len;
            let _ = f.write_all_at(&self.buf, 0);
        }
    }

    pub fn clear(&mut self) {
        if let Some(f) = &mut self.file {
            let _ = f.set_len(0);
            self.prev_len = 0;
        }
    }
}
